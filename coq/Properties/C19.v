(** C19 - Database upgrades apply each pending migration once, in order, or
    not at all.  Property theorems only; proofs are in Migrate/MigrateProofs.v,
    the model in Migrate/Migrate.v.

    What each theorem rests on (three different things):

    MODEL      the definition of the Gallina functions ([versions_to_apply],
               [upgrade_one], [upgrade_all], [call_in_update]) transcribed from
               walletdb/migration/manager.go and from the call site in
               wallet/wallet.go.  That the transcription is right is NOT
               proved; it is what the correspondence run compares.
    FACT       a boolean regenerated from the repository's source by
               lib/extract_c19.py into Generated/MigrateFacts.v and bundled as
               [repo_code]; the proofs below take [<fact> repo_code = true] as
               a premise discharged by [eq_refl], so this file does not compile
               against a tree where the fact is false ([C19_premises_needed]
               shows what goes wrong then).  The facts:
                 mig_error_returned   upgrade returns a migration's error at once
                 setv_error_returned  upgrade returns SetVersion's error
                 mgr_error_returned   Upgrade returns a service's error at once
                 one_update           every function calling migration.Upgrade
                                      does so once, inside ONE walletdb.Update
                                      closure, with no loop around either
                 update_gets_error    that closure returns Upgrade's error
    ASSUMED    walletdb.Update commits iff its closure returned nil and
               otherwise restores the state (property C11, modelled here by
               [call_in_update]'s [if]); the migration functions themselves are
               opaque state transformers that may fail after having written.

    CORRESPONDENCE (lib/c19.py, harness/cmd/c19) ties MODEL to the code: the
    instrumented managers through migration.Upgrade (one and two services, a
    failure at every position, a failing SetVersion) and the real wtxmgr /
    waddrmgr managers on old-version databases with a write failure injected
    at every write of the upgrade, through wallet.Open (the repository's call
    site) and directly. *)
From Verif Require Import Base.Prelude Migrate.Migrate Migrate.MigrateProofs.
Local Open Scope N_scope.

(** The pending list is exactly the declared entries numbered above the stored
    version (a permutation of the filter: each once, nothing else), whatever
    the declaration order, in ascending order - strictly ascending when the
    declared numbers are distinct.
    Rests on: MODEL only ([versions_to_apply]); no fact, no transaction. *)
Theorem C19_pending_exact : forall cur vs,
  Permutation (versions_to_apply cur vs) (filter (fun v => cur <? num v) vs)
  /\ StronglySorted le_num (versions_to_apply cur vs)
  /\ Forall (fun v => cur < num v) (versions_to_apply cur vs)
  /\ (NoDup (map num vs) ->
      StronglySorted (fun a b => num a < num b) (versions_to_apply cur vs)).
Proof.
  intros cur vs. repeat split.
  - exact (versions_to_apply_perm cur vs).
  - exact (versions_to_apply_sorted cur vs).
  - exact (versions_to_apply_above cur vs).
  - exact (versions_to_apply_strict cur vs).
Qed.
Print Assumptions C19_pending_exact.

(** Success: every pending non-nil migration was invoked, once, in pending
    order, and the latest version is recorded.
    Rests on: MODEL ([upgrade_one]: loop over the pending list, then
    SetVersion(latest)); FACTS mig_error_returned (otherwise a failed
    migration can hide behind an [Ok]), setv_error_returned (otherwise [Ok]
    without the version written), mgr_error_returned and one_update (shape of
    the call).  Independent of the transaction's roll-back. *)
Theorem C19_success : forall m s s' inv,
  upgrade repo_code m s = (Ok, s', inv) ->
  stored s' = latest (table m) /\
  inv = map num (filter invocable (versions_to_apply (stored s) (table m))).
Proof.
  intros m s s' inv H. split.
  - exact (upgrade_ok_version repo_code m s s' inv eq_refl eq_refl eq_refl H).
  - exact (upgrade_ok_invoked repo_code m s s' inv eq_refl eq_refl eq_refl H).
Qed.
Print Assumptions C19_success.

(** Failure at any position: only the pending migrations up to the failing
    one ran, and version and data are unchanged.
    [s' = s] rests on: FACTS one_update and update_gets_error (the writes the
    migrations made before the failure - including the failing one's own - are
    undone by nothing but the enclosing transaction's roll-back, which happens
    only if the whole call is inside one Update that sees the error),
    mgr_error_returned; ASSUMED C11.  It is NOT true by the definition of the
    upgrade: [upgrade_one]'s working copy does carry those writes
    ([C19_premises_needed]).
    The invoked list rests on: MODEL and FACT mig_error_returned. *)
Theorem C19_failure : forall m s n s' inv,
  upgrade repo_code m s = (ErrMigration n, s', inv) ->
  s' = s /\
  exists l1 v l2,
    versions_to_apply (stored s) (table m) = l1 ++ v :: l2 /\
    existsb fails l1 = false /\ fails v = true /\ num v = n /\
    inv = map num (filter invocable l1) ++ [n].
Proof.
  intros m s n s' inv H. split.
  - apply (upgrade_error_unchanged repo_code m s _ s' inv eq_refl eq_refl eq_refl H). discriminate.
  - exact (upgrade_fail_invoked repo_code m s n s' inv eq_refl eq_refl eq_refl H).
Qed.
Print Assumptions C19_failure.

(** A pending migration that fails is never reported as success.
    Rests on: MODEL; FACTS mig_error_returned, mgr_error_returned, one_update. *)
Theorem C19_failure_reported : forall m s o s' inv,
  stored s <= latest (table m) ->
  existsb fails (versions_to_apply (stored s) (table m)) = true ->
  upgrade repo_code m s = (o, s', inv) -> o <> Ok.
Proof. exact (fun m s o s' inv => upgrade_failing_not_ok repo_code m s o s' inv eq_refl eq_refl eq_refl). Qed.
Print Assumptions C19_failure_reported.

(** A database newer than the software is refused without modification and
    without running anything.
    Rests on: MODEL (the comparison precedes every write in [upgrade_one], so
    there is nothing to roll back: update_gets_error is not needed); FACTS
    mgr_error_returned (the refusal reaches the caller), one_update (shape). *)
Theorem C19_reversion : forall m s,
  latest (table m) < stored s -> upgrade repo_code m s = (ErrReversion, s, []).
Proof. exact (fun m s => upgrade_reversion repo_code m s eq_refl eq_refl). Qed.
Print Assumptions C19_reversion.

(** Every non-Ok outcome (refusal, failed migration, failed SetVersion) leaves
    version and data unchanged.
    Rests on: FACTS one_update, update_gets_error, mgr_error_returned; ASSUMED
    C11 - as for [C19_failure]. *)
Theorem C19_error_unchanged : forall m s o s' inv,
  upgrade repo_code m s = (o, s', inv) -> o <> Ok -> s' = s.
Proof. exact (fun m s o s' inv => upgrade_error_unchanged repo_code m s o s' inv eq_refl eq_refl eq_refl). Qed.
Print Assumptions C19_error_unchanged.

(** Several services upgraded by one call (wallet.Open: transaction store and
    address manager): whatever goes wrong in whichever service, the committed
    state of EVERY service is what it was - an upgrade already applied to an
    earlier service in the same call is rolled back with it.
    Rests on: FACTS one_update, update_gets_error; ASSUMED C11. *)
Theorem C19_database_atomic : forall ms ss o ss' invs,
  open_upgrade repo_code ms ss = (o, ss', invs) -> o <> Ok -> ss' = ss.
Proof. exact (fun ms ss o ss' invs => open_atomic repo_code ms ss o ss' invs eq_refl eq_refl). Qed.
Print Assumptions C19_database_atomic.

(** If any service's stored version is newer than its table, the call fails and
    no service is modified.
    Rests on: MODEL; FACTS mgr_error_returned (else the loop goes on and may
    end with [Ok]), one_update, update_gets_error; ASSUMED C11. *)
Theorem C19_newer_refused_untouched : forall ms ss o ss' invs,
  Exists (fun p => latest (table (fst p)) < stored (snd p)) (combine ms ss) ->
  open_upgrade repo_code ms ss = (o, ss', invs) -> o <> Ok /\ ss' = ss.
Proof. exact (fun ms ss o ss' invs => open_newer_refused repo_code ms ss o ss' invs eq_refl eq_refl eq_refl). Qed.
Print Assumptions C19_newer_refused_untouched.

(** If a pending migration of any service fails (no service being newer), the
    call fails and no service is modified.
    Rests on: MODEL; all FACTS but setv_error_returned; ASSUMED C11. *)
Theorem C19_failed_migration_untouched : forall ms ss o ss' invs,
  Forall (fun p => stored (snd p) <= latest (table (fst p))) (combine ms ss) ->
  Exists (fun p => existsb fails (versions_to_apply (stored (snd p)) (table (fst p))) = true)
         (combine ms ss) ->
  open_upgrade repo_code ms ss = (o, ss', invs) -> o <> Ok /\ ss' = ss.
Proof.
  exact (fun ms ss o ss' invs =>
           open_failing_unchanged repo_code ms ss o ss' invs eq_refl eq_refl eq_refl eq_refl).
Qed.
Print Assumptions C19_failed_migration_untouched.

(** Success of the call = success of every service's own upgrade, whose
    working copy is committed (so [C19_success]'s two clauses hold for each).
    Rests on: MODEL; FACTS mgr_error_returned, one_update. *)
Theorem C19_all_succeed : forall ms ss ss' invs,
  open_upgrade repo_code ms ss = (Ok, ss', invs) ->
  Forall (fun p => fst (fst (upgrade_one repo_code (fst p) (snd p))) = Ok) (combine ms ss) /\
  ss' = map (fun p => snd (fst (upgrade_one repo_code (fst p) (snd p)))) (combine ms ss) /\
  invs = map (fun p => snd (upgrade_one repo_code (fst p) (snd p))) (combine ms ss).
Proof. exact (fun ms ss ss' invs => open_ok_each repo_code ms ss ss' invs eq_refl eq_refl). Qed.
Print Assumptions C19_all_succeed.

(** The premises are needed: with any one fact false (the others true) there
    is a history violating the property - versions 1 and 2 staying applied and
    recorded after migration 3 of 3 failed (a transaction per version); the
    writes of 1, 2 and half of 3 committed (error hidden from Update); a failed
    migration counted as applied (error dropped in upgrade); the second
    service upgraded and committed after the first failed (error dropped in
    Upgrade); success without the version (SetVersion's error dropped).
    Rests on: MODEL (evaluation of its other branches). *)
Theorem C19_premises_needed :
  (let c := {| mig_error_returned := true; setv_error_returned := true; mgr_error_returned := true;
               one_update := false; update_gets_error := true |} in
   upgrade c (plain three) {| stored := 0; data := [] |}
   = (ErrMigration 3, {| stored := 2; data := [10; 20] |}, [1; 2; 3])) /\
  (let c := {| mig_error_returned := true; setv_error_returned := true; mgr_error_returned := true;
               one_update := true; update_gets_error := false |} in
   upgrade c (plain three) {| stored := 0; data := [] |}
   = (ErrMigration 3, {| stored := 0; data := [10; 20; 30] |}, [1; 2; 3])) /\
  (let c := {| mig_error_returned := false; setv_error_returned := true; mgr_error_returned := true;
               one_update := true; update_gets_error := true |} in
   upgrade c (plain ({| num := 4; vmig := MOk 40 |} :: three)) {| stored := 0; data := [] |}
   = (Ok, {| stored := 4; data := [10; 20; 30; 40] |}, [1; 2; 3; 4])) /\
  (let c := {| mig_error_returned := true; setv_error_returned := true; mgr_error_returned := false;
               one_update := true; update_gets_error := true |} in
   open_upgrade c [plain three; plain [ {| num := 1; vmig := MOk 11 |} ]]
                [ {| stored := 0; data := [] |}; {| stored := 0; data := [] |} ]
   = (Ok, [ {| stored := 0; data := [10; 20; 30] |}; {| stored := 1; data := [11] |} ], [[1; 2; 3]; [1]])) /\
  (let c := {| mig_error_returned := true; setv_error_returned := false; mgr_error_returned := true;
               one_update := true; update_gets_error := true |} in
   upgrade c {| table := [ {| num := 1; vmig := MOk 10 |} ]; setv_fails := true |} {| stored := 0; data := [] |}
   = (Ok, {| stored := 0; data := [10] |}, [1])).
Proof.
  exact (conj needs_one_update (conj needs_error_to_update (conj needs_migration_error
          (conj needs_manager_error needs_setversion_error)))).
Qed.
Print Assumptions C19_premises_needed.

(** Non-vacuity: an unordered table with a nil entry, a gap and a failing
    entry exercises every hypothesis above; two services, the second one newer. *)
Example C19_nonvacuous :
  let vs := [ {| num := 5; vmig := MOk 50 |}; {| num := 2; vmig := MNil |};
              {| num := 7; vmig := MFail 70 |}; {| num := 3; vmig := MOk 30 |};
              {| num := 1; vmig := MOk 10 |} ] in
  upgrade repo_code (plain vs) {| stored := 1; data := [] |}
    = (ErrMigration 7, {| stored := 1; data := [] |}, [3; 5; 7]) /\
  upgrade repo_code (plain (tl (tl (tl vs)) ++ [ {| num := 6; vmig := MNil |} ])) {| stored := 0; data := [9] |}
    = (Ok, {| stored := 6; data := [9; 10; 30] |}, [1; 3]) /\
  upgrade repo_code (plain vs) {| stored := 8; data := [] |} = (ErrReversion, {| stored := 8; data := [] |}, []) /\
  upgrade repo_code {| table := tl (tl (tl vs)); setv_fails := true |} {| stored := 0; data := [] |}
    = (ErrSetVersion, {| stored := 0; data := [] |}, [1; 3]) /\
  open_upgrade repo_code [plain (tl (tl (tl vs))); plain vs] [ {| stored := 0; data := [] |}; {| stored := 9; data := [4] |} ]
    = (ErrReversion, [ {| stored := 0; data := [] |}; {| stored := 9; data := [4] |} ], [[1; 3]; []]).
Proof. vm_compute. repeat split. Qed.
