(** C09 - Concurrent requests never receive the same address.
    Property theorems only; the model is Addr/Conc.v, proofs are in
    Addr/ConcProofs.v, the site table is regenerated from the source into
    Generated/AddrSites.v on every run. *)
From Verif Require Import Base.Prelude Addr.Conc Addr.ConcProofs Generated.AddrSites.
Local Open Scope N_scope.

(** Obligation on the source, re-decided on every run: every wallet function
    that issues addresses inside a walletdb.Update holds newAddrMtx around the
    whole Update.  (Removing a Lock at any site makes this fail.) *)
Theorem C09_sites_hold_mutex : forallb held sites = true.
Proof. vm_compute. reflexivity. Qed.
Print Assumptions C09_sites_hold_mutex.

(** ... and the in-memory next index is still advanced only by the commit
    handler, the shape the model transcribes. *)
Theorem C09_model_applies : next_index_update_deferred = true.
Proof. vm_compute. reflexivity. Qed.
Print Assumptions C09_model_applies.

(** Requests issued through the sites of the table. *)
Definition from_sites (ths : list thread) : Prop :=
  Forall (fun th => exists st, In st sites /\ th_held th = held st) ths.

(** For any number of concurrent requests made through the sites found in
    the source (any mix of sites, any number of addresses per request, dry
    runs included), for ALL schedules: in every reachable state the indices
    handed out are duplicate-free and are exactly the gap-free range
    [n0, n0+k), k = number of addresses issued so far; and once every request
    has returned, memory agrees with disk at n0+k and no lock is held. *)
Theorem C09_all_schedules : forall ths n0 cached sched s,
  from_sites ths ->
  exec ths (init ths n0 cached) sched = Some s ->
  NoDup (indices s) /\
  indices s = rangeN n0 (N.of_nat (length (issued s))) /\
  (terminated s = true ->
     mem_view s = disk s /\ disk s = n0 + N.of_nat (length (issued s)) /\
     mtx s = None /\ wr s = None /\ txd s = None).
Proof.
  intros ths n0 cached sched s Hf He.
  exact (safe_all_schedules ths n0 cached sched s
           (all_held_from_table sites held ths C09_sites_hold_mutex Hf) He).
Qed.
Print Assumptions C09_all_schedules.

(** The same statement with the discipline as an explicit premise (what the
    table obligation feeds). *)
Theorem C09_safe_if_mutex_held : forall ths n0 cached sched s,
  Forall (fun th => th_held th = true) ths ->
  exec ths (init ths n0 cached) sched = Some s ->
  NoDup (indices s) /\
  indices s = rangeN n0 (N.of_nat (length (issued s))) /\
  (terminated s = true ->
     mem_view s = disk s /\ disk s = n0 + N.of_nat (length (issued s)) /\
     mtx s = None /\ wr s = None /\ txd s = None).
Proof. exact safe_all_schedules. Qed.
Print Assumptions C09_safe_if_mutex_held.

(** Whatever the locking discipline and the schedule: once all requests have
    returned, every request whose transaction committed holds exactly the
    [th_n] consecutive indices it asked for, and a rolled back request (dry
    run) holds none.  Together with C09_all_schedules: every call that
    succeeds obtains addresses no other call obtained. *)
Theorem C09_each_request_obtains : forall ths n0 cached sched s,
  exec ths (init ths n0 cached) sched = Some s -> terminated s = true ->
  forall t th, nth_error ths t = Some th ->
    (th_commits th = true -> exists r, obtained s t = rangeN r (th_n th)) /\
    (th_commits th = false -> obtained s t = []).
Proof. exact each_request_obtains. Qed.
Print Assumptions C09_each_request_obtains.

(** The two locks cannot deadlock: whatever was scheduled so far, if a request
    is unfinished some thread can take a step. *)
Theorem C09_no_deadlock : forall ths n0 cached sched s,
  Forall (fun th => th_held th = true) ths ->
  exec ths (init ths n0 cached) sched = Some s ->
  terminated s = false -> exists t s', step ths s t = Some s'.
Proof. exact progress_all_schedules. Qed.
Print Assumptions C09_no_deadlock.

(** The premise is needed: two requests through sites that do not hold the
    mutex have a schedule that hands out the same index twice (B's whole
    request between A's commit and A's commit handler) ... *)
Theorem C09_unsafe_without_mutex : forall n0 cached,
  exists sched s,
    exec [unheld1; unheld1] (init [unheld1; unheld1] n0 cached) sched = Some s /\
    ~ NoDup (indices s).
Proof. exact unsafe_without_mutex. Qed.
Print Assumptions C09_unsafe_without_mutex.

(** ... and a single site without the mutex is enough, in either order. *)
Theorem C09_unsafe_one_site_without_mutex : forall n0 cached,
  (exists sched s,
    exec [held1; unheld1] (init [held1; unheld1] n0 cached) sched = Some s /\
    ~ NoDup (indices s)) /\
  (exists sched s,
    exec [unheld1; held1] (init [unheld1; held1] n0 cached) sched = Some s /\
    ~ NoDup (indices s)).
Proof. exact unsafe_one_site_without_mutex. Qed.
Print Assumptions C09_unsafe_one_site_without_mutex.

(** Non-vacuity: the table is not empty; three requests (one deriving two
    addresses, one dry run) interleaved as far as the locks allow terminate
    with indices 5,6,7 and memory = disk = 8; the witness schedule of the
    unsafe theorem hands out index 5 twice. *)
Example C09_nonvacuous :
  sites <> [] /\
  (let ths := [ {| th_held := true; th_n := 2; th_commits := true |};
                {| th_held := true; th_n := 1; th_commits := false |};
                {| th_held := true; th_n := 1; th_commits := true |} ] in
   match exec ths (init ths 5 false) (seq_sched ths 0) with
   | Some s => terminated s = true /\ issued s = [(0%nat, 5); (0%nat, 6); (2%nat, 7)] /\
               mem s = Some 8 /\ disk s = 8
   | None => False
   end) /\
  run_indices [unheld1; unheld1] 5 true witness_two_unheld = Some [5; 5] /\
  (* with the mutex the witness schedule is not executable: B blocks *)
  run_indices [held1; held1] 5 true witness_held_then_unheld = None.
Proof. vm_compute. repeat split; discriminate. Qed.
