(** C09 - Concurrent requests never receive the same address.
    Property theorems only; the model is Addr/Conc.v, proofs are in
    Addr/ConcProofs.v, the site table is regenerated from the source (every
    package of the repository, by type and call graph) into
    Generated/AddrSites.v on every run. *)
From Verif Require Import Base.Prelude Addr.Conc Addr.ConcProofs Generated.AddrSites.
Local Open Scope N_scope.

(** Obligation on the source, re-decided on every run: every database
    transaction, in any package, that can reach a ScopedKeyManager method
    advancing an account's address counters - the address requests AND
    recovery's Extend*Addresses - holds the address mutex EXCLUSIVELY from
    before Begin until the transaction runner returned (commit and commit
    handlers included).  Removing a Lock, releasing it inside the closure,
    turning it into an RLock, or adding an issuing transaction in another
    package makes this fail. *)
Theorem C09_sites_hold_mutex : forallb held sites = true.
Proof. vm_compute. reflexivity. Qed.
Print Assumptions C09_sites_hold_mutex.

(** ... and the in-memory next index is advanced by the address-returning
    primitives only in their commit handler, the shape the model transcribes
    for requests (recovery's eager update is the model's extender). *)
Theorem C09_model_applies : next_index_update_deferred = true.
Proof. vm_compute. reflexivity. Qed.
Print Assumptions C09_model_applies.

(** Threads made through the sites of the table: a request through an issuing
    site, a recovery through an extending site (whose transaction commits: a
    rolled back recovery batch is the eager-memory finding of C08/C10, not a
    scheduling matter). *)
Definition from_sites (ths : list thread) : Prop :=
  Forall (fun th => (exists st, In st sites /\ is_extend st = is_ext th /\ via_site held st th) /\
                    (is_ext th = true -> th_commits th = true)) ths.

Lemma from_sites_held ths : from_sites ths -> all_held ths.
Proof.
  intros H. apply (all_held_from_table sites held ths C09_sites_hold_mutex).
  eapply Forall_impl; [|exact H]. intros th [(st & Hin & _ & Hv) Hc]. split; [eauto|exact Hc].
Qed.

(** For any number of concurrent requests made through the sites found in
    the source (any mix of sites, any number of addresses per request, dry
    runs included) and any number of recoveries extending the branch, for ALL
    schedules: in every reachable state the indices consumed are duplicate-free
    and are exactly the gap-free range [n0, n0+k), k = number consumed so far;
    and once every request has returned, memory agrees with disk at n0+k and
    no lock is held. *)
Theorem C09_all_schedules : forall ths n0 cached sched s,
  from_sites ths ->
  exec ths (init ths n0 cached) sched = Some s ->
  NoDup (indices s) /\
  indices s = rangeN n0 (N.of_nat (length (issued s))) /\
  (terminated s = true ->
     mem_view s = disk s /\ disk s = n0 + N.of_nat (length (issued s)) /\
     mtx s = None /\ wr s = None /\ txd s = None).
Proof.
  intros ths n0 cached sched s Hf He.
  exact (safe_all_schedules ths n0 cached sched s (from_sites_held ths Hf) He).
Qed.
Print Assumptions C09_all_schedules.

(** What callers received: the indices handed out to requests (recovery's
    extensions left aside) are pairwise distinct, in every reachable state. *)
Theorem C09_handed_out_distinct : forall ths n0 cached sched s,
  from_sites ths ->
  exec ths (init ths n0 cached) sched = Some s ->
  NoDup (map snd (handed ths s)).
Proof.
  intros ths n0 cached sched s Hf He.
  exact (handed_nodup ths n0 cached sched s (from_sites_held ths Hf) He).
Qed.
Print Assumptions C09_handed_out_distinct.

(** The other things the commit handler writes: once every request has
    returned, the cached last address of the branch is the one just below the
    committed next index (what a restarted manager derives from the row), and
    the address cache holds no index the database does not have. *)
Theorem C09_last_address_and_cache : forall ths n0 cached sched s,
  from_sites ths ->
  exec ths (init ths n0 cached) sched = Some s ->
  terminated s = true ->
  last_view s = N.pred (disk s) /\
  (forall i, In i (cache s) -> n0 <= i < disk s).
Proof.
  intros ths n0 cached sched s Hf He T.
  exact (safe_last_and_cache ths n0 cached sched s (from_sites_held ths Hf) He T).
Qed.
Print Assumptions C09_last_address_and_cache.

(** ... and, whatever the locking and the schedule, the cache covers what was
    handed out: once all requests have returned, every index a committed
    request (or recovery) obtained has been put into the address cache by its
    commit handler (by extendAddresses). *)
Theorem C09_cache_covers_handed_out : forall ths n0 cached sched s,
  exec ths (init ths n0 cached) sched = Some s -> terminated s = true ->
  forall t th, nth_error ths t = Some th -> th_commits th = true ->
    incl (obtained s t) (cache s).
Proof. exact cache_covers_obtained. Qed.
Print Assumptions C09_cache_covers_handed_out.

(** The same statement with the discipline as an explicit premise (what the
    table obligation feeds). *)
Theorem C09_safe_if_mutex_held : forall ths n0 cached sched s,
  Forall disciplined ths ->
  exec ths (init ths n0 cached) sched = Some s ->
  NoDup (indices s) /\
  indices s = rangeN n0 (N.of_nat (length (issued s))) /\
  (terminated s = true ->
     mem_view s = disk s /\ disk s = n0 + N.of_nat (length (issued s)) /\
     mtx s = None /\ wr s = None /\ txd s = None).
Proof. exact safe_all_schedules. Qed.
Print Assumptions C09_safe_if_mutex_held.

(** Whatever the locking discipline and the schedule: once all requests have
    returned, every request whose transaction committed holds exactly the
    [th_n] consecutive indices it asked for (a recovery: the indices from the
    one it read through its target), and a rolled back request (dry run)
    holds none.  Together with C09_all_schedules: every call that succeeds
    obtains addresses no other call obtained. *)
Theorem C09_each_request_obtains : forall ths n0 cached sched s,
  exec ths (init ths n0 cached) sched = Some s -> terminated s = true ->
  forall t th, nth_error ths t = Some th ->
    (th_commits th = true -> exists r, obtained s t = rangeN r (count_of th r)) /\
    (th_commits th = false -> obtained s t = []).
Proof. exact each_request_obtains. Qed.
Print Assumptions C09_each_request_obtains.

(** The two locks cannot deadlock: whatever was scheduled so far, if a request
    is unfinished some thread can take a step. *)
Theorem C09_no_deadlock : forall ths n0 cached sched s,
  Forall disciplined ths ->
  exec ths (init ths n0 cached) sched = Some s ->
  terminated s = false -> exists t s', step ths s t = Some s'.
Proof. exact progress_all_schedules. Qed.
Print Assumptions C09_no_deadlock.

(** The premise is needed: two requests through sites that do not hold the
    mutex have a schedule that hands out the same index twice (B's whole
    request between A's commit and A's commit handler) ... *)
Theorem C09_unsafe_without_mutex : forall n0 cached,
  exists sched s,
    exec [unheld1; unheld1] (init [unheld1; unheld1] n0 cached) sched = Some s /\
    ~ NoDup (indices s).
Proof. exact unsafe_without_mutex. Qed.
Print Assumptions C09_unsafe_without_mutex.

(** ... a single site without the mutex is enough, in either order ... *)
Theorem C09_unsafe_one_site_without_mutex : forall n0 cached,
  (exists sched s,
    exec [held1; unheld1] (init [held1; unheld1] n0 cached) sched = Some s /\
    ~ NoDup (indices s)) /\
  (exists sched s,
    exec [unheld1; held1] (init [unheld1; held1] n0 cached) sched = Some s /\
    ~ NoDup (indices s)).
Proof. exact unsafe_one_site_without_mutex. Qed.
Print Assumptions C09_unsafe_one_site_without_mutex.

(** ... a READ lock is not enough (two requests through a site that takes the
    mutex with RLock) ... *)
Theorem C09_unsafe_with_read_lock : forall n0 cached,
  exists sched s,
    exec [shared1; shared1] (init [shared1; shared1] n0 cached) sched = Some s /\
    ~ NoDup (indices s).
Proof. exact unsafe_with_read_lock. Qed.
Print Assumptions C09_unsafe_with_read_lock.

(** ... and recovery needs it too (the defect repaired by 3232cc6, found by
    this check): a request, mutex held, commits index 5 and sits between its
    commit and its commit handler; recovery without the mutex reads the stale
    in-memory index, extends the branch through 5..8 and commits; the stale
    handler then puts the in-memory index back to 6.  The next request is
    handed 6 - an index recovery had extended through - and the database's
    next index ends at 7 instead of 9. *)
Theorem C09_unsafe_recovery_without_mutex : forall cached,
  exists sched s,
    let ths := recovery_threads 5 in
    exec ths (init ths 5 cached) sched = Some s /\ terminated s = true /\
    by_thread s 1 = [5; 6; 7; 8] /\ by_thread s 2 = [6] /\
    map snd (handed ths s) = [5; 6] /\
    ~ NoDup (indices s) /\ disk s = 7.
Proof. exact unsafe_recovery_without_mutex. Qed.
Print Assumptions C09_unsafe_recovery_without_mutex.

(** Non-vacuity: the table has issuing and extending sites, in the packages
    read there is more than package wallet; three requests (one deriving two
    addresses, one dry run) and a recovery, all holding the mutex, run one
    after the other terminate with indices 5,6 | 7 | 8,9,10 consumed, memory =
    disk = 11, last address 10, cache = those indices; the witness schedule
    of the unsafe theorem hands out index 5 twice; with the mutex the witness
    schedules are not executable (B blocks). *)
Example C09_nonvacuous :
  filter is_issue sites <> [] /\ filter is_extend sites <> [] /\
  (2 <= length packages_scanned)%nat /\
  (let ths := [ request true false 2 true; request true false 1 false;
                request true false 1 true; extender true 10 ] in
   match exec ths (init ths 5 false) (seq_sched ths 0) with
   | Some s => terminated s = true /\
               issued s = [(0%nat, 5); (0%nat, 6); (2%nat, 7); (3%nat, 8); (3%nat, 9); (3%nat, 10)] /\
               map snd (handed ths s) = [5; 6; 7] /\
               mem s = Some 11 /\ disk s = 11 /\ last_view s = 10 /\ cache s = [5; 6; 7; 8; 9; 10]
   | None => False
   end) /\
  run_indices [unheld1; unheld1] 5 true witness_two_unheld = Some [5; 5] /\
  run_indices [shared1; shared1] 5 true witness_two_shared = Some [5; 5] /\
  run_indices [held1; held1] 5 true witness_held_then_unheld = None /\
  run_indices [shared1; held1] 5 true witness_shared_then_held = None /\
  exec [held1; extender true 8; held1] (init [held1; extender true 8; held1] 5 true)
       [0; 0; 0; 0; 0; 1]%nat = None.
Proof. vm_compute. repeat split; try discriminate; lia. Qed.
