(** C01 - Balance and spendable outputs equal the ledger truth after every
    event.  Property theorems only.

    [chain_consistent] is the decidable predicate of Tx/Hist.v ([event_ok] per
    event against the facts of the prefix before it); [spec_balance] and
    [spec_utxos] (Tx/Ledger.v) are the property's text as functions of the
    facts. *)
From stdpp Require Import gmap list numbers sorting.
From Coq Require Import ZArith NArith.
From Verif Require Import Tx.Store Tx.Ledger Tx.Hist Tx.Inv Tx.Refine Tx.RefineAll Tx.Corollaries Tx.Node Tx.NodeProofs.
Local Open Scope Z_scope.

(** For every universe, every chain-consistent history, every prefix of it,
    every minconf >= 0, every sync height at or above the highest confirmed
    block: the reported balance equals the ledger sum, and the spendable list
    is (a permutation of) the ledger's spendable set, each entry with amount,
    confirming block and coinbase flag. *)
Theorem C01_balance_and_spendable_equal_ledger :
  ∀ (U : universe) (h p : list event),
    wf_universe U = true → chain_consistent U h = true → p `prefix_of` h →
    let s := st (run U p) in let F := fs (spec_run U p) in let now := clock (run U p) in
    (∀ minconf sync, 0 <= minconf → (∀ t hh b, f_conf F !! t = Some (hh, b) → hh <= sync) →
       balance U s minconf sync now = spec_balance U F minconf sync now) ∧
    unspent_outputs U s now ≡ₚ spec_utxos U F now.
Proof. exact c01_holds. Qed.
Print Assumptions C01_balance_and_spendable_equal_ledger.

(** The store refines the ledger on every chain-consistent history (the
    invariant of Tx/Inv.v relates every bucket to the facts). *)
Theorem C01_store_refines_ledger : refinement_statement.
Proof. exact refinement. Qed.
Print Assumptions C01_store_refines_ledger.

(** The recursion over the unconfirmed spend graph never runs out of fuel on
    a consistent history (the model never takes its error branch). *)
Theorem C01_model_total_on_consistent_histories : ∀ U h p e,
  wf_universe U = true → chain_consistent U h = true → p ++ [e] `prefix_of` h →
  (step U (run U p) e).2 ≠ OFuel.
Proof. exact consistent_never_out_of_fuel. Qed.
Print Assumptions C01_model_total_on_consistent_histories.

(** "Histories a validating node could emit": Tx/Node.v defines an abstract
    validating node (best chain with gaps, mempool with replacement by
    eviction, blocks with coinbase / mempool members / never-announced
    members in parents-first order, reorgs of any depth) together with the way
    the wallet is notified (missed or late Seen, repeated Confirm, one
    Disconnect at any height above the surviving block or the tip-down
    sequence with stale repeats, wallet-initiated Abandon / Redeliver / lease
    events, re-announcements). Every event sequence it can emit satisfies the
    hypothesis of this property - so the theorem applies to all of them. *)
Theorem C01_validating_node_histories_are_consistent : ∀ U evs,
  wf_universe U = true → emits U evs → chain_consistent U evs = true.
Proof. exact node_emits_consistent. Qed.
Print Assumptions C01_validating_node_histories_are_consistent.

Theorem C01_for_every_node_history : ∀ (U : universe) (evs p : list event),
  wf_universe U = true → emits U evs → p `prefix_of` evs →
  let s := st (run U p) in let F := fs (spec_run U p) in let now := clock (run U p) in
  (∀ minconf sync, 0 <= minconf → (∀ t hh b, f_conf F !! t = Some (hh, b) → hh <= sync) →
     balance U s minconf sync now = spec_balance U F minconf sync now) ∧
  unspent_outputs U s now ≡ₚ spec_utxos U F now.
Proof. exact node_c01. Qed.
Print Assumptions C01_for_every_node_history.

(** Non-vacuity: a consistent history with a chain, a conflict, a coinbase, a
    same-block parent/child, a rollback below a spender and a lease. *)
Definition mk (id : N) (ins : list (N * N)) (outs : list Z) (creds : list (N * bool)) (cb : bool) : tx :=
  {| t_id := id; t_ins := ins; t_outs := outs; t_creds := creds; t_coinbase := cb |}.
Definition ex_U : universe := universe_of_list
  [ mk 2%N [(1, 0)]%N [5000; 7000] [(0, false); (1, true)]%N false;
    mk 4%N [(2, 0)]%N [4000] [(0, false)]%N false;
    mk 6%N [(2, 0)]%N [3000] [] false;
    mk 8%N [] [50000] [(0, false)]%N true;
    mk 10%N [(4, 0); (2, 1)]%N [10000] [(0, true)]%N false ].
Definition ex_h : list event :=
  [ Seen 2%N; Seen 4%N; Confirm 2%N 10 1%N 0; Confirm 4%N 10 1%N 0; Confirm 8%N 11 2%N 0; Seen 10%N;
    Lease 1%N (10, 0)%N 1500; Tick 1000; Disconnect 10; Confirm 2%N 10 3%N 0; Confirm 6%N 10 3%N 0; Tick 1000;
    Confirm 2%N 10 3%N 0 ].
Definition ex_m := Eval vm_compute in
  (balance ex_U (st (run ex_U ex_h)) 0 11 (clock (run ex_U ex_h)),
   spec_balance ex_U (fs (spec_run ex_U ex_h)) 0 11 (sclock (spec_run ex_U ex_h)),
   elements (f_unconf (fs (spec_run ex_U ex_h)))).
Print ex_m.
Example C01_nonvacuous :
  wf_universe ex_U = true ∧ chain_consistent ex_U ex_h = true ∧
  balance ex_U (st (run ex_U ex_h)) 0 11 (clock (run ex_U ex_h)) = 7000 ∧
  spec_balance ex_U (fs (spec_run ex_U ex_h)) 0 11 (sclock (spec_run ex_U ex_h)) = 7000 ∧
  balance ex_U (st (run ex_U ex_h)) 1 110 (clock (run ex_U ex_h)) = 7000.
Proof. vm_compute. repeat split. Qed.
