(** C01 - Balance and spendable outputs equal the ledger truth after every
    event.  Property theorems only.

    [chain_consistent] is the decidable predicate of Tx/Hist.v ([event_ok] per
    event against the facts of the prefix before it); [spec_balance] and
    [spec_utxos] (Tx/Ledger.v) are the property's text as functions of the
    facts. *)
From stdpp Require Import gmap list numbers sorting.
From Coq Require Import ZArith NArith.
From Verif Require Import Tx.Store Tx.Ledger Tx.Hist Tx.Inv Tx.Refine Tx.RefineAll Tx.Corollaries Tx.Node Tx.NodeProofs.
From Verif Require Import Tx.InvRange Tx.StoreCorr Tx.Wallet Tx.WalletProofs.
Local Open Scope Z_scope.

(** For every universe, every chain-consistent history, every prefix of it,
    every minconf >= 0, every sync height at or above the highest confirmed
    block: the reported balance equals the ledger sum, and the spendable list
    is (a permutation of) the ledger's spendable set, each entry with amount,
    confirming block and coinbase flag. *)
Theorem C01_balance_and_spendable_equal_ledger :
  ∀ (U : universe) (h p : list event),
    wf_universe U = true → chain_consistent U h = true → p `prefix_of` h →
    let s := st (run U p) in let F := fs (spec_run U p) in let now := clock (run U p) in
    (∀ minconf sync, 0 <= minconf → (∀ t hh b, f_conf F !! t = Some (hh, b) → hh <= sync) →
       balance U s minconf sync now = spec_balance U F minconf sync now) ∧
    unspent_outputs U s now ≡ₚ spec_utxos U F now.
Proof. exact c01_holds. Qed.
Print Assumptions C01_balance_and_spendable_equal_ledger.

(** The store refines the ledger on every chain-consistent history (the
    invariant of Tx/Inv.v relates every bucket to the facts). *)
Theorem C01_store_refines_ledger : refinement_statement.
Proof. exact refinement. Qed.
Print Assumptions C01_store_refines_ledger.

(** The recursion over the unconfirmed spend graph never runs out of fuel on
    a consistent history (the model never takes its error branch). *)
Theorem C01_model_total_on_consistent_histories : ∀ U h p e,
  wf_universe U = true → chain_consistent U h = true → p ++ [e] `prefix_of` h →
  (step U (run U p) e).2 ≠ OFuel.
Proof. exact consistent_never_out_of_fuel. Qed.
Print Assumptions C01_model_total_on_consistent_histories.

(** "Histories a validating node could emit": Tx/Node.v defines an abstract
    validating node (best chain with gaps, mempool with replacement by
    eviction, blocks with coinbase / mempool members / never-announced
    members in parents-first order, reorgs of any depth) together with the way
    the wallet is notified (missed or late Seen, repeated Confirm, one
    Disconnect at any height above the surviving block or the tip-down
    sequence with stale repeats, wallet-initiated Abandon / Redeliver / lease
    events, re-announcements). Every event sequence it can emit satisfies the
    hypothesis of this property - so the theorem applies to all of them. *)
Theorem C01_validating_node_histories_are_consistent : ∀ U evs,
  wf_universe U = true → emits U evs → chain_consistent U evs = true.
Proof. exact node_emits_consistent. Qed.
Print Assumptions C01_validating_node_histories_are_consistent.

Theorem C01_for_every_node_history : ∀ (U : universe) (evs p : list event),
  wf_universe U = true → emits U evs → p `prefix_of` evs →
  let s := st (run U p) in let F := fs (spec_run U p) in let now := clock (run U p) in
  (∀ minconf sync, 0 <= minconf → (∀ t hh b, f_conf F !! t = Some (hh, b) → hh <= sync) →
     balance U s minconf sync now = spec_balance U F minconf sync now) ∧
  unspent_outputs U s now ≡ₚ spec_utxos U F now.
Proof. exact node_c01. Qed.
Print Assumptions C01_for_every_node_history.

(** The WALLET layer named by the property (Tx/Wallet.v: connectBlock,
    disconnectBlock, addRelevantTx and the atomic filtered-block handler as
    compositions of store events plus the synced-to bookkeeping;
    CalculateBalance, ListUnspent, UnspentOutputs as the wallet computes them
    from the store at its synced height).  For every notification history
    whose store-level image [wevents] is chain-consistent, after every prefix,
    whenever the synced height covers every confirmed transaction (the
    property's "sync height >= the highest confirmed block"):
    CalculateBalance(minconf) is the ledger balance at the synced height,
    ListUnspent(minconf, maxconf) and UnspentOutputs(minconf) are the ledger's
    spendable outputs filtered by confirmations (and coinbase maturity). *)
Theorem C01_wallet_layer : ∀ (U : universe) (ns p : list wnotif),
  wf_universe U = true → chain_consistent U (wevents U ns) = true → p `prefix_of` ns →
  let w := wrun U p in
  let F := fs (spec_run U (wevents U p)) in
  let now := clock (w_m w) in
  tip_covers F (w_tip w) = true →
  (∀ minconf, 0 <= minconf → calculate_balance U w minconf = spec_balance U F minconf (w_tip w) now) ∧
  (∀ minconf maxconf, list_unspent U w minconf maxconf ≡ₚ list_unspent_of (w_tip w) minconf maxconf (spec_utxos U F now)) ∧
  (∀ minconf, wallet_unspent U w minconf ≡ₚ wallet_unspent_of (w_tip w) minconf (spec_utxos U F now)).
Proof. exact wallet_c01. Qed.
Print Assumptions C01_wallet_layer.

(** The covering hypothesis holds by itself for a backend that announces a
    block no later than its transactions ([ordered_from]: a connect never
    lowers the synced height; a transaction is delivered as confirmed at a
    height at or below it).  In the bitcoind order (transactions before the
    BlockConnected) it fails between the two notifications - there the
    property's own hypothesis on the sync height fails too. *)
Theorem C01_wallet_layer_block_announced_first : ∀ (U : universe) (ns p : list wnotif),
  wf_universe U = true → chain_consistent U (wevents U ns) = true →
  ordered_from U (winit true) ns = true → p `prefix_of` ns →
  let w := wrun U p in
  let F := fs (spec_run U (wevents U p)) in
  let now := clock (w_m w) in
  (∀ minconf, 0 <= minconf → calculate_balance U w minconf = spec_balance U F minconf (w_tip w) now) ∧
  (∀ minconf maxconf, list_unspent U w minconf maxconf ≡ₚ list_unspent_of (w_tip w) minconf maxconf (spec_utxos U F now)) ∧
  (∀ minconf, wallet_unspent U w minconf ≡ₚ wallet_unspent_of (w_tip w) minconf (spec_utxos U F now)).
Proof. exact wallet_c01_ordered. Qed.
Print Assumptions C01_wallet_layer_block_announced_first.

(** The wallet's store IS the store after the store-level image of the
    notification history (what ties the two layers). *)
Theorem C01_wallet_store_is_store_of_image : ∀ U ns, w_m (wrun U ns) = run U (wevents U ns).
Proof. exact wrun_store. Qed.
Print Assumptions C01_wallet_store_is_store_of_image.

(** The rescan set: OutputsToWatch is exactly the credited outputs of known
    transactions that no CONFIRMED transaction spends - unconfirmed credits,
    leased outputs and outputs spent only by unconfirmed transactions
    included - after every prefix of every chain-consistent history. *)
Theorem C01_watch_set_equals_ledger : ∀ (U : universe) (h p : list event),
  wf_universe U = true → chain_consistent U h = true → p `prefix_of` h →
  map u_op (outputs_to_watch U (st (run U p)) (clock (run U p))) ≡ₚ spec_watch U (fs (spec_run U p)).
Proof. exact watch_set_is_ledgers. Qed.
Print Assumptions C01_watch_set_equals_ledger.

(** the oracle evaluated in the cases files (StoreCorr.s_watch, code 115) is
    this specification, sorted *)
Example C01_watch_oracle_is_spec_watch : ∀ U sm, s_watch U sm = merge_sort op_le (spec_watch U (fs sm)).
Proof. reflexivity. Qed.

(** Non-vacuity: a consistent history with a chain, a conflict, a coinbase, a
    same-block parent/child, a rollback below a spender and a lease. *)
Definition mk (id : N) (ins : list (N * N)) (outs : list Z) (creds : list (N * bool)) (cb : bool) : tx :=
  {| t_id := id; t_ins := ins; t_outs := outs; t_creds := creds; t_coinbase := cb |}.
Definition ex_U : universe := universe_of_list
  [ mk 2%N [(1, 0)]%N [5000; 7000] [(0, false); (1, true)]%N false;
    mk 4%N [(2, 0)]%N [4000] [(0, false)]%N false;
    mk 6%N [(2, 0)]%N [3000] [] false;
    mk 8%N [] [50000] [(0, false)]%N true;
    mk 10%N [(4, 0); (2, 1)]%N [10000] [(0, true)]%N false ].
Definition ex_h : list event :=
  [ Seen 2%N; Seen 4%N; Confirm 2%N 10 1%N 0; Confirm 4%N 10 1%N 0; Confirm 8%N 11 2%N 0; Seen 10%N;
    Lease 1%N (10, 0)%N 1500; Tick 1000; Disconnect 10; Confirm 2%N 10 3%N 0; Confirm 6%N 10 3%N 0; Tick 1000;
    Confirm 2%N 10 3%N 0 ].
Definition ex_m := Eval vm_compute in
  (balance ex_U (st (run ex_U ex_h)) 0 11 (clock (run ex_U ex_h)),
   spec_balance ex_U (fs (spec_run ex_U ex_h)) 0 11 (sclock (spec_run ex_U ex_h)),
   elements (f_unconf (fs (spec_run ex_U ex_h)))).
Print ex_m.
Example C01_nonvacuous :
  wf_universe ex_U = true ∧ chain_consistent ex_U ex_h = true ∧
  balance ex_U (st (run ex_U ex_h)) 0 11 (clock (run ex_U ex_h)) = 7000 ∧
  spec_balance ex_U (fs (spec_run ex_U ex_h)) 0 11 (sclock (spec_run ex_U ex_h)) = 7000 ∧
  balance ex_U (st (run ex_U ex_h)) 1 110 (clock (run ex_U ex_h)) = 7000.
Proof. vm_compute. repeat split. Qed.

(** Reconnection of detached blocks is inside the hypothesis: the SAME blocks
    (hash 1 at height 10 with a coinbase, hash 2 at height 11) are detached
    and connected again, in another order of delivery, with a stale unmined
    delivery in between. *)
Definition ex_h_reconnect : list event :=
  [ Confirm 8%N 10 1%N 0; Confirm 2%N 10 1%N 0; Confirm 4%N 11 2%N 0; Disconnect 10;
    Confirm 2%N 10 1%N 0; Seen 4%N; Confirm 8%N 10 1%N 0; Confirm 4%N 11 2%N 0; Disconnect 11; Confirm 4%N 11 2%N 0 ].
Example C01_reconnect_admitted :
  chain_consistent ex_U ex_h_reconnect = true ∧
  balance ex_U (st (run ex_U ex_h_reconnect)) 0 11 0 = 7000 + 4000 ∧
  balance ex_U (st (run ex_U ex_h_reconnect)) 1 200 0 = 7000 + 4000 + 50000.
Proof. vm_compute. repeat split. Qed.

(** Non-vacuity of the wallet layer: blocks connected from height 1, a
    transaction before and after its BlockConnected, a tip disconnect, a
    stale disconnect (ignored), the same block connected again. *)
Definition ex_ns : list wnotif :=
  [ WConnect 1 11%N 0; WRelevant 2%N None; WConnect 2 12%N 0; WRelevant 2%N (Some (2, 12%N, 0));
    WRelevant 4%N (Some (3, 13%N, 0)); WConnect 3 13%N 0; WDisconnect 3 99%N; WDisconnect 3 13%N;
    WConnect 3 13%N 0; WFiltered 3 13%N 0 [4%N] ].
Example C01_wallet_nonvacuous :
  chain_consistent ex_U (wevents ex_U ex_ns) = true ∧
  wevents ex_U ex_ns = [Seen 2%N; Confirm 2%N 2 12%N 0; Confirm 4%N 3 13%N 0; Disconnect 3; Confirm 4%N 3 13%N 0] ∧
  w_tip (wrun ex_U ex_ns) = 3 ∧
  tip_covers (fs (spec_run ex_U (wevents ex_U ex_ns))) (w_tip (wrun ex_U ex_ns)) = true ∧
  calculate_balance ex_U (wrun ex_U ex_ns) 1 = 7000 + 4000 ∧
  calculate_balance ex_U (wrun ex_U ex_ns) 2 = 7000 ∧
  map fst (list_unspent ex_U (wrun ex_U ex_ns) 1 1) = [(4%N, 0%N, 4000)].
Proof. vm_compute. repeat split. Qed.
