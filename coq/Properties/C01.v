(** C01 - Balance and spendable outputs equal the ledger truth after every
    event.  Property theorems only.

    FULL STATEMENT (for every universe, every chain-consistent history, every
    prefix, every minconf >= 0, every sync height >= the highest confirmed
    block, every clock value): *)
From stdpp Require Import gmap list numbers sorting.
From Coq Require Import ZArith NArith.
From Verif Require Import Tx.Store Tx.Ledger Tx.Hist Tx.Inv Tx.Refine.
Local Open Scope Z_scope.

Definition C01_statement : Prop :=
  ∀ (U : universe) (h p : list event),
    wf_universe U = true → chain_consistent U h = true → p `prefix_of` h →
    let s := st (run U p) in let F := fs (spec_run U p) in let now := clock (run U p) in
    (∀ minconf sync, 0 <= minconf → (∀ t hh b, f_conf F !! t = Some (hh, b) → hh <= sync) →
       balance U s minconf sync now = spec_balance U F minconf sync now) ∧
    unspent_outputs U s now ≡ₚ spec_utxos U F now.

(** The statement follows from the per-event preservation of the refinement
    invariant and the two observation lemmas.  Which of these premises are
    discharged is recorded in the evidence (Tx/PROOFS.md); the theorem below
    is the composition, valid for every history. *)
Theorem C01_from_refinement :
  refinement_statement → balance_statement → utxos_statement → C01_statement.
Proof.
  intros Href Hbal Hutx U h p Hwf Hcons Hpre.
  pose proof (chain_consistent_prefix U h p Hpre Hcons) as Hp.
  destruct (Href U p Hwf Hp) as [HI Hclk].
  split.
  - intros minconf sync Hmc Hsync. apply Hbal; assumption.
  - apply Hutx; assumption.
Qed.
Print Assumptions C01_from_refinement.

Theorem C01_refinement_from_steps :
  (∀ U, wf_universe U = true → ∀ e, step_preserves U e) → refinement_statement.
Proof. exact refinement_from_steps. Qed.
Print Assumptions C01_refinement_from_steps.

(** Non-vacuity: a consistent history with a chain, a conflict, a coinbase, a
    same-block parent/child, a rollback below a spender and a lease. *)
Definition mk (id : N) (ins : list (N * N)) (outs : list Z) (creds : list (N * bool)) (cb : bool) : tx :=
  {| t_id := id; t_ins := ins; t_outs := outs; t_creds := creds; t_coinbase := cb |}.
Definition ex_U : universe := universe_of_list
  [ mk 2%N [(1, 0)]%N [5000; 7000] [(0, false); (1, true)]%N false;
    mk 4%N [(2, 0)]%N [4000] [(0, false)]%N false;
    mk 6%N [(2, 0)]%N [3000] [] false;
    mk 8%N [] [50000] [(0, false)]%N true;
    mk 10%N [(4, 0); (2, 1)]%N [10000] [(0, true)]%N false ].
Definition ex_h : list event :=
  [ Seen 2%N; Seen 4%N; Confirm 2%N 10 1%N 0; Confirm 4%N 10 1%N 0; Confirm 8%N 11 2%N 0; Seen 10%N;
    Lease 1%N (10, 0)%N 1500; Tick 1000; Disconnect 10; Confirm 2%N 10 3%N 0; Confirm 6%N 10 3%N 0; Tick 1000;
    Confirm 2%N 10 3%N 0 ].
Definition ex_m := Eval vm_compute in
  (balance ex_U (st (run ex_U ex_h)) 0 11 (clock (run ex_U ex_h)),
   spec_balance ex_U (fs (spec_run ex_U ex_h)) 0 11 (sclock (spec_run ex_U ex_h)),
   elements (f_unconf (fs (spec_run ex_U ex_h)))).
Print ex_m.
Example C01_nonvacuous :
  wf_universe ex_U = true ∧ chain_consistent ex_U ex_h = true ∧
  balance ex_U (st (run ex_U ex_h)) 0 11 (clock (run ex_U ex_h)) = 7000 ∧
  spec_balance ex_U (fs (spec_run ex_U ex_h)) 0 11 (sclock (spec_run ex_U ex_h)) = 7000 ∧
  balance ex_U (st (run ex_U ex_h)) 1 110 (clock (run ex_U ex_h)) = 7000.
Proof. vm_compute. repeat split. Qed.
