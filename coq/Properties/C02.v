(** C02 - Reorgs converge: state depends on the surviving facts, not on the
    path.  Property theorems only.

    The first two sentences of the property are the definitions of the
    specification steps [spec_disconnect] (non-coinbase transactions of the
    detached blocks become unconfirmed again with their credits, coinbase
    transactions of those blocks and everything depending on them disappear)
    and [spec_confirm] (every unconfirmed transaction conflicting with the
    confirmed one, and their unconfirmed descendants, disappear; nothing else)
    in Tx/Ledger.v; the refinement says the store follows exactly these steps.
    The "consequently" sentence is [C02_statement]. *)
From stdpp Require Import gmap list numbers sorting.
From Coq Require Import ZArith NArith.
From Verif Require Import Tx.Store Tx.Ledger Tx.Hist Tx.Inv Tx.Refine Tx.RefineAll Tx.Corollaries Tx.InvRollback.
Local Open Scope Z_scope.

(** Blocks disconnected from height h (first sentence, first half). *)
Theorem C02_disconnect_semantics : ∀ U F h,
  (∀ t hh bh, f_conf (spec_disconnect U F h) !! t = Some (hh, bh) ↔ f_conf F !! t = Some (hh, bh) ∧ hh < h) ∧
  (∀ t, t ∈ f_unconf (spec_disconnect U F h) ↔
        (t ∈ f_unconf F ∨ ∃ hh bh, f_conf F !! t = Some (hh, bh) ∧ h <= hh ∧ is_coinbase U t = false) ∧
        ¬ depends_on U (disc_F1 U F h) (disc_cb U F h) t) ∧
  f_leases (spec_disconnect U F h) = f_leases F.
Proof. exact spec_disconnect_char. Qed.
Print Assumptions C02_disconnect_semantics.

(** A transaction confirms (first sentence, second half): exactly the
    conflicting unconfirmed transactions and their unconfirmed descendants
    disappear, unrelated ones stay. *)
Theorem C02_confirm_semantics : ∀ U F t b,
  f_conf F !! t = None →
  let F1 := {| f_conf := <[t := b]> (f_conf F); f_unconf := f_unconf F ∖ {[t]};
               f_leases := foldl (fun m op => delete op m) (f_leases F) (tx_ins U t) |} in
  let cf := filter (fun u => conflicts U t u) (elements (f_unconf F1)) in
  f_conf (spec_confirm U F t b) = <[t := b]> (f_conf F) ∧
  (∀ u, u ∈ f_unconf (spec_confirm U F t b) ↔ u ∈ f_unconf F ∧ u ≠ t ∧ ¬ depends_on U F1 cf u) ∧
  (∀ op, f_leases (spec_confirm U F t b) !! op =
         if bool_decide (op ∈ tx_ins U t) then None else f_leases F !! op).
Proof. exact spec_confirm_char. Qed.
Print Assumptions C02_confirm_semantics.

(** The store follows these steps on every chain-consistent history. *)
Theorem C02_store_follows_ledger_steps : refinement_statement.
Proof. exact refinement. Qed.
Print Assumptions C02_store_follows_ledger_steps.

(** Consequently: any two chain-consistent histories that end with the same
    facts report identical balances (every minconf, every admissible sync
    height, every instant), spendable outputs and transaction details. *)
Theorem C02_same_facts_same_observables :
  ∀ (U : universe) (h1 h2 : list event),
    wf_universe U = true → chain_consistent U h1 = true → chain_consistent U h2 = true →
    same_facts (fs (spec_run U h1)) (fs (spec_run U h2)) →
    let s1 := st (run U h1) in let s2 := st (run U h2) in
    (∀ minconf sync now, 0 <= minconf →
       (∀ t hh b, f_conf (fs (spec_run U h1)) !! t = Some (hh, b) → hh <= sync) →
       balance U s1 minconf sync now = balance U s2 minconf sync now) ∧
    (∀ now, unspent_outputs U s1 now ≡ₚ unspent_outputs U s2 now) ∧
    (∀ t, tx_details U s1 t = tx_details U s2 t).
Proof. exact c02_holds. Qed.
Print Assumptions C02_same_facts_same_observables.

(** Non-vacuity: a history with a rollback and reconnection in another block
    and the direct construction of its final facts. *)
Definition mk (id : N) (ins : list (N * N)) (outs : list Z) (creds : list (N * bool)) (cb : bool) : tx :=
  {| t_id := id; t_ins := ins; t_outs := outs; t_creds := creds; t_coinbase := cb |}.
Definition ex_U : universe := universe_of_list
  [ mk 2%N [(1, 0)]%N [5000; 7000] [(0, false); (1, true)]%N false;
    mk 4%N [(2, 0)]%N [4000] [(0, false)]%N false;
    mk 6%N [(2, 0)]%N [3000] [] false ].
Definition ex_h1 : list event :=
  [ Seen 2%N; Seen 4%N; Confirm 2%N 10 1%N 0; Confirm 4%N 11 2%N 0; Disconnect 10;
    Confirm 2%N 10 3%N 0; Confirm 6%N 10 3%N 0 ].
Definition ex_h2 : list event := [ Confirm 2%N 10 3%N 0; Confirm 6%N 10 3%N 0 ].
Example C02_nonvacuous :
  wf_universe ex_U = true ∧ chain_consistent ex_U ex_h1 = true ∧ chain_consistent ex_U ex_h2 = true ∧
  f_conf (fs (spec_run ex_U ex_h1)) = f_conf (fs (spec_run ex_U ex_h2)) ∧
  f_unconf (fs (spec_run ex_U ex_h1)) = f_unconf (fs (spec_run ex_U ex_h2)) ∧
  balance ex_U (st (run ex_U ex_h1)) 1 10 0 = 7000.
Proof. vm_compute. repeat split. Qed.
