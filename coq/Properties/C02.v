(** C02 - Reorgs converge: state depends on the surviving facts, not on the
    path.  Property theorems only.

    The first two sentences of the property are the definitions of the
    specification steps [spec_disconnect] (non-coinbase transactions of the
    detached blocks become unconfirmed again with their credits, coinbase
    transactions of those blocks and everything depending on them disappear)
    and [spec_confirm] (every unconfirmed transaction conflicting with the
    confirmed one, and their unconfirmed descendants, disappear; nothing else)
    in Tx/Ledger.v; the refinement says the store follows exactly these steps.
    The "consequently" sentence is [C02_same_facts_same_observables].

    Scope notes.
    - [C02_disconnect_semantics] and [C02_confirm_semantics] are statements
      about the LEDGER definitions only (no store in them): they say that
      [spec_disconnect] / [spec_confirm] mean what the property's first
      sentence says.  The store enters through
      [C02_store_follows_ledger_steps] (refinement) and the pair theorem.
    - "The same facts" ([same_facts], Tx/Corollaries.v) are: the same
      confirmed transactions per block, the same unconfirmed transactions AND
      the same raw leases (outpoint -> lock id, expiry).  Leases are facts a
      history establishes (C12) and the reported balance and spendable set
      depend on them; without equal leases the conclusion is false.  The
      generator therefore builds pairs with lease events on both sides.
    - "Transaction details" are the block, the credits (index, amount, spent,
      change) and the debits (index, amount) of [TxDetails].  NOT covered:
      [TxRecord.Received] - the caller-supplied time of the delivery that
      recorded the transaction.  It is an INPUT of a history, not a function of
      the surviving facts: [Seen t] delivered at two different times gives two
      histories with equal final facts and different [Received] under any
      implementation, with no reorganisation involved; the Go store keeps the
      time of the last delivery that inserted the record.  Also not covered:
      the label (no event of the model sets one).  The block time is part of
      the block (an event carries hash and time together); the harness compares
      it between the two histories.
    - The wallet's [disconnectBlock] is in the model (Tx/Wallet.v):
      [C02_wallet_disconnect_is_rollback], [C02_wallet_layer_path_independence]. *)
From stdpp Require Import gmap list numbers sorting.
From Coq Require Import ZArith NArith.
From Verif Require Import Tx.Store Tx.Ledger Tx.Hist Tx.Inv Tx.Refine Tx.RefineAll Tx.Corollaries Tx.InvRollback.
From Verif Require Import Tx.Wallet Tx.WalletProofs.
Local Open Scope Z_scope.

(** Blocks disconnected from height h (first sentence, first half). *)
Theorem C02_disconnect_semantics : ∀ U F h,
  (∀ t hh bh, f_conf (spec_disconnect U F h) !! t = Some (hh, bh) ↔ f_conf F !! t = Some (hh, bh) ∧ hh < h) ∧
  (∀ t, t ∈ f_unconf (spec_disconnect U F h) ↔
        (t ∈ f_unconf F ∨ ∃ hh bh, f_conf F !! t = Some (hh, bh) ∧ h <= hh ∧ is_coinbase U t = false) ∧
        ¬ depends_on U (disc_F1 U F h) (disc_cb U F h) t) ∧
  f_leases (spec_disconnect U F h) = f_leases F.
Proof. exact spec_disconnect_char. Qed.
Print Assumptions C02_disconnect_semantics.

(** A transaction confirms (first sentence, second half): exactly the
    conflicting unconfirmed transactions and their unconfirmed descendants
    disappear, unrelated ones stay. *)
Theorem C02_confirm_semantics : ∀ U F t b,
  f_conf F !! t = None →
  let F1 := {| f_conf := <[t := b]> (f_conf F); f_unconf := f_unconf F ∖ {[t]};
               f_leases := foldl (fun m op => delete op m) (f_leases F) (tx_ins U t) |} in
  let cf := filter (fun u => conflicts U t u) (elements (f_unconf F1)) in
  f_conf (spec_confirm U F t b) = <[t := b]> (f_conf F) ∧
  (∀ u, u ∈ f_unconf (spec_confirm U F t b) ↔ u ∈ f_unconf F ∧ u ≠ t ∧ ¬ depends_on U F1 cf u) ∧
  (∀ op, f_leases (spec_confirm U F t b) !! op =
         if bool_decide (op ∈ tx_ins U t) then None else f_leases F !! op).
Proof. exact spec_confirm_char. Qed.
Print Assumptions C02_confirm_semantics.

(** The store follows these steps on every chain-consistent history. *)
Theorem C02_store_follows_ledger_steps : refinement_statement.
Proof. exact refinement. Qed.
Print Assumptions C02_store_follows_ledger_steps.

(** Consequently: any two chain-consistent histories that end with the same
    facts report identical balances (every minconf, every admissible sync
    height, every instant), spendable outputs and transaction details. *)
Theorem C02_same_facts_same_observables :
  ∀ (U : universe) (h1 h2 : list event),
    wf_universe U = true → chain_consistent U h1 = true → chain_consistent U h2 = true →
    same_facts (fs (spec_run U h1)) (fs (spec_run U h2)) →
    let s1 := st (run U h1) in let s2 := st (run U h2) in
    (∀ minconf sync now, 0 <= minconf →
       (∀ t hh b, f_conf (fs (spec_run U h1)) !! t = Some (hh, b) → hh <= sync) →
       balance U s1 minconf sync now = balance U s2 minconf sync now) ∧
    (∀ now, unspent_outputs U s1 now ≡ₚ unspent_outputs U s2 now) ∧
    (∀ t, tx_details U s1 t = tx_details U s2 t).
Proof. exact c02_holds. Qed.
Print Assumptions C02_same_facts_same_observables.

(** What the wallet's [disconnectBlock] does to the store: nothing, or exactly
    [Rollback(height)] together with "synced to the parent" - the latter
    precisely when the wallet is synced, the block's height is at or below the
    synced height and the hash recorded at that height is the block's. *)
Theorem C02_wallet_disconnect_is_rollback : ∀ U w h bhash,
  w_m (wstep U w (WDisconnect h bhash)).1 = w_m w ∨
  (disconnect_applies w h bhash = Some true ∧
   w_m (wstep U w (WDisconnect h bhash)).1 = (step U (w_m w) (Disconnect h)).1 ∧
   w_tip (wstep U w (WDisconnect h bhash)).1 = h - 1).
Proof. exact wallet_disconnect_is_rollback. Qed.
Print Assumptions C02_wallet_disconnect_is_rollback.

(** Path independence for NOTIFICATION histories (connects, tip-down
    disconnects, stale and future disconnects, relevant transactions before /
    after / together with their block): if their store-level images are
    chain-consistent and establish the same facts, the wallets' stores report
    the same balances, spendable outputs and details. *)
Theorem C02_wallet_layer_path_independence : ∀ (U : universe) (ns1 ns2 : list wnotif),
  wf_universe U = true →
  chain_consistent U (wevents U ns1) = true → chain_consistent U (wevents U ns2) = true →
  same_facts (fs (spec_run U (wevents U ns1))) (fs (spec_run U (wevents U ns2))) →
  let s1 := st (w_m (wrun U ns1)) in let s2 := st (w_m (wrun U ns2)) in
  (∀ minconf sync now, 0 <= minconf →
     (∀ t hh b, f_conf (fs (spec_run U (wevents U ns1))) !! t = Some (hh, b) → hh <= sync) →
     balance U s1 minconf sync now = balance U s2 minconf sync now) ∧
  (∀ now, unspent_outputs U s1 now ≡ₚ unspent_outputs U s2 now) ∧
  (∀ t, tx_details U s1 t = tx_details U s2 t).
Proof. exact wallet_c02. Qed.
Print Assumptions C02_wallet_layer_path_independence.

(** Non-vacuity: a history with a rollback and reconnection in another block
    and the direct construction of its final facts. *)
Definition mk (id : N) (ins : list (N * N)) (outs : list Z) (creds : list (N * bool)) (cb : bool) : tx :=
  {| t_id := id; t_ins := ins; t_outs := outs; t_creds := creds; t_coinbase := cb |}.
Definition ex_U : universe := universe_of_list
  [ mk 2%N [(1, 0)]%N [5000; 7000] [(0, false); (1, true)]%N false;
    mk 4%N [(2, 0)]%N [4000] [(0, false)]%N false;
    mk 6%N [(2, 0)]%N [3000] [] false ].
Definition ex_h1 : list event :=
  [ Seen 2%N; Seen 4%N; Confirm 2%N 10 1%N 0; Confirm 4%N 11 2%N 0; Disconnect 10;
    Confirm 2%N 10 3%N 0; Confirm 6%N 10 3%N 0 ].
Definition ex_h2 : list event := [ Confirm 2%N 10 3%N 0; Confirm 6%N 10 3%N 0 ].
Example C02_nonvacuous :
  wf_universe ex_U = true ∧ chain_consistent ex_U ex_h1 = true ∧ chain_consistent ex_U ex_h2 = true ∧
  f_conf (fs (spec_run ex_U ex_h1)) = f_conf (fs (spec_run ex_U ex_h2)) ∧
  f_unconf (fs (spec_run ex_U ex_h1)) = f_unconf (fs (spec_run ex_U ex_h2)) ∧
  balance ex_U (st (run ex_U ex_h1)) 1 10 0 = 7000.
Proof. vm_compute. repeat split. Qed.

(** ... and a pair in which the SAME blocks are detached and connected again
    in another order, with a lease on both sides (same raw leases, same
    clock), against a second history that takes a detour through a block of
    another fork. *)
Definition ex_h3 : list event :=
  [ Confirm 2%N 10 1%N 0; Confirm 4%N 11 2%N 0; Lease 1%N (2, 1)%N 1500; Disconnect 10;
    Seen 4%N; Confirm 2%N 10 1%N 0; Confirm 4%N 11 2%N 0; Tick 1000 ].
Definition ex_h4 : list event :=
  [ Confirm 2%N 10 7%N 0; Confirm 4%N 10 7%N 0; Disconnect 10; Confirm 2%N 10 1%N 0; Confirm 4%N 11 2%N 0;
    Lease 1%N (2, 1)%N 1000; Tick 1000 ].
Example C02_nonvacuous_reconnect_and_leases :
  chain_consistent ex_U ex_h3 = true ∧ chain_consistent ex_U ex_h4 = true ∧
  f_conf (fs (spec_run ex_U ex_h3)) = f_conf (fs (spec_run ex_U ex_h4)) ∧
  f_unconf (fs (spec_run ex_U ex_h3)) = f_unconf (fs (spec_run ex_U ex_h4)) ∧
  map_to_list (f_leases (fs (spec_run ex_U ex_h3))) = [((2, 1)%N, {| l_id := 1%N; l_expiry := 1000 |})] ∧
  map_to_list (f_leases (fs (spec_run ex_U ex_h4))) = [((2, 1)%N, {| l_id := 1%N; l_expiry := 1000 |})] ∧
  balance ex_U (st (run ex_U ex_h3)) 1 11 999 = 4000 ∧
  balance ex_U (st (run ex_U ex_h4)) 1 11 1000 = 4000 + 7000.
Proof. vm_compute. repeat split. Qed.
