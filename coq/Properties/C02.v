(** C02 - Reorgs converge: state depends on the surviving facts, not on the
    path.  Property theorems only.

    The first two sentences of the property are the definitions of the
    specification steps [spec_disconnect] (non-coinbase transactions of the
    detached blocks become unconfirmed again with their credits, coinbase
    transactions of those blocks and everything depending on them disappear)
    and [spec_confirm] (every unconfirmed transaction conflicting with the
    confirmed one, and their unconfirmed descendants, disappear; nothing else)
    in Tx/Ledger.v; the refinement says the store follows exactly these steps.
    The "consequently" sentence is [C02_statement]. *)
From stdpp Require Import gmap list numbers sorting.
From Coq Require Import ZArith NArith.
From Verif Require Import Tx.Store Tx.Ledger Tx.Hist Tx.Inv Tx.Refine.
Local Open Scope Z_scope.

Definition same_facts (F1 F2 : facts) : Prop :=
  f_conf F1 = f_conf F2 ∧ f_unconf F1 = f_unconf F2 ∧ f_leases F1 = f_leases F2.

Definition C02_statement : Prop :=
  ∀ (U : universe) (h1 h2 : list event),
    wf_universe U = true → chain_consistent U h1 = true → chain_consistent U h2 = true →
    same_facts (fs (spec_run U h1)) (fs (spec_run U h2)) →
    let s1 := st (run U h1) in let s2 := st (run U h2) in
    (∀ minconf sync now, 0 <= minconf →
       (∀ t hh b, f_conf (fs (spec_run U h1)) !! t = Some (hh, b) → hh <= sync) →
       balance U s1 minconf sync now = balance U s2 minconf sync now) ∧
    (∀ now, unspent_outputs U s1 now ≡ₚ unspent_outputs U s2 now) ∧
    (∀ t, tx_details U s1 t = tx_details U s2 t).

Lemma spec_balance_same U F1 F2 mc sy now :
  same_facts F1 F2 → spec_balance U F1 mc sy now = spec_balance U F2 mc sy now.
Proof.
  intros (Hc & Hu & Hl). destruct F1, F2; simpl in *; subst. reflexivity.
Qed.

Theorem C02_from_refinement :
  refinement_statement → balance_statement → utxos_statement → details_statement → C02_statement.
Proof.
  intros Href Hbal Hutx Hdet U h1 h2 Hwf Hc1 Hc2 Hsame.
  destruct (Href U h1 Hwf Hc1) as [HI1 _]. destruct (Href U h2 Hwf Hc2) as [HI2 _].
  assert (HF : fs (spec_run U h1) = fs (spec_run U h2)).
  { destruct Hsame as (Hc & Hu & Hl).
    destruct (fs (spec_run U h1)), (fs (spec_run U h2)); simpl in *; subst; reflexivity. }
  repeat split.
  - intros minconf sync now Hmc Hsync.
    rewrite (Hbal U _ _ minconf sync now Hwf HI1 Hmc Hsync).
    rewrite HF in Hsync.
    rewrite (Hbal U _ _ minconf sync now Hwf HI2 Hmc Hsync).
    by rewrite HF.
  - intros now. rewrite (Hutx U _ _ now Hwf HI1), (Hutx U _ _ now Hwf HI2). by rewrite HF.
  - intros t. destruct (Hdet U _ _ t Hwf HI1) as (-> & _). destruct (Hdet U _ _ t Hwf HI2) as (-> & _).
    by rewrite HF.
Qed.
Print Assumptions C02_from_refinement.
