(** C18 - Chain notifications are delivered in order, none lost or duplicated;
    the producer is never blocked by a slow consumer; stopping the queue
    terminates its worker.

    Property theorems only; proofs are in Queue/QueueProofs.v.  Everything is
    quantified over every configuration [c] (capacity of chanIn and of chanOut,
    zero = unbuffered included; the code is [code_cfg bufferSize], chanIn
    unbuffered) and over every schedule [ls] accepted by [run] from [init],
    i.e. every interleaving of producer, consumer, worker and stop steps, with
    no bound on lengths.

    The first part is about chain.ConcurrentQueue (chain/queue.go, used by the
    bitcoind backend).  The second part ([Module Slice], at the end) is about
    the inline slice queues of the btcd backend (chain/btcd.go, handler) and of
    the neutrino backend (chain/neutrino.go, notificationHandler): proofs in
    Queue/SliceQueueProofs.v. *)
From Verif Require Import Base.Prelude Queue.Queue Queue.QueueProofs Queue.QueueCorr.
From Verif Require Queue.SliceQueue Queue.SliceQueueProofs Queue.SliceQueueCorr Generated.QueueSites.

(** (a) Conservation and order.  At every point of every schedule the items
    received so far, followed by what sits in chanOut, the overflow list, the
    worker's hand and chanIn, are exactly the items sent so far, in the order
    sent ([sent] being the sequence of [Send] labels of the schedule). *)
Theorem C18_conservation_and_order : forall c ls s,
  run c init ls = Some s ->
  rcvd s ++ out s ++ ovf s ++ opt_list (hold s) ++ chin s = sent s
  /\ sent s = sends_of ls.
Proof.
  intros c ls s H. split.
  - exact (conservation c ls s H).
  - exact (sent_is_schedule c ls s H).
Qed.
Print Assumptions C18_conservation_and_order.

(** Hence: the consumer has seen a prefix of what was sent (in order, nothing
    skipped), without duplicates when the sent items are distinct, and exactly
    the sent sequence once nothing is left inside the queue. *)
Theorem C18_received_is_prefix_exact_when_drained : forall c ls s,
  run c init ls = Some s ->
  (exists rest, sent s = rcvd s ++ rest)
  /\ (NoDup (sent s) -> NoDup (rcvd s))
  /\ (out s = [] -> ovf s = [] -> hold s = None -> chin s = [] -> rcvd s = sent s).
Proof.
  intros c ls s H. repeat split.
  - exact (received_prefix c ls s H).
  - exact (no_duplication c ls s H).
  - exact (drained_exact c ls s H).
Qed.
Print Assumptions C18_received_is_prefix_exact_when_drained.

(** Every [Recv] step delivers the value [recv_val] announces (this is what
    ties the ghost history [rcvd] to what a consumer observes). *)
Theorem C18_recv_appends_delivered_value : forall c s s',
  step c s Recv = Some s' ->
  exists v, recv_val c s = Some v /\ rcvd s' = rcvd s ++ [v].
Proof. intros c s s' H. exact (step_rcvd c s Recv s' H). Qed.
Print Assumptions C18_recv_appends_delivered_value.

(** ... and draining is always possible while the worker lives: from every
    reachable state there is a continuation made of worker moves and consumer
    receives only, after which the consumer has received exactly what was sent. *)
Theorem C18_drain_possible : forall c s,
  reachable c s -> done s = false ->
  exists ls s', forallb is_forward ls = true /\ run c s ls = Some s' /\
    pending s' = [] /\ sent s' = sent s /\ rcvd s' = sent s.
Proof. exact drain_possible. Qed.
Print Assumptions C18_drain_possible.

(** (b) The producer is never blocked by a slow consumer.  From every
    reachable state in which the queue has not been stopped there is a
    sequence of AT MOST TWO worker steps - none of them a consumer step, none
    of them quit (only: receive from chanIn, inner select's send-to-chanOut,
    inner select's default) - after which a send of any value is enabled.
    (For the code, cin = 0: at most one step - the inner non-blocking select.) *)
Theorem C18_producer_never_blocked : forall c s,
  reachable c s -> running s ->
  exists ls s', length ls <= 2 /\ forallb is_intake ls = true /\
    run c s ls = Some s' /\ (forall x, step c s' (Send x) <> None) /\ running s'.
Proof. exact producer_never_blocked. Qed.
Print Assumptions C18_producer_never_blocked.

(** Consequently a burst of any length and content is accepted from the
    initial state by a schedule that contains no consumer step at all; all of
    it is then pending inside the queue, in order. *)
Theorem C18_any_burst_without_consumer : forall c xs,
  exists ls s', run c init ls = Some s' /\ forallb is_send_or_intake ls = true /\
    sent s' = xs /\ rcvd s' = [] /\ pending s' = xs /\ running s'.
Proof. exact burst_from_init. Qed.
Print Assumptions C18_any_burst_without_consumer.

(** (c) Stop.  Once quit is closed it stays closed; as long as the worker is
    alive its quit case is enabled (quit is a case of select A, of the inner
    select and of select B) and taking it terminates the worker; every
    sequence of worker steps alone has length <= weight s + 1, and one that
    cannot be extended has terminated; a terminated worker never steps again.
    PARTIAL: that the quit case is actually TAKEN while a producer keeps
    sending is a fairness property of Go's scheduler and of select's random
    choice; it is not proved. *)
Theorem C18_stop_terminates_partial : forall c s,
  stopped s = true ->
  (done s = false -> exists s', step c s WQuit = Some s' /\ done s' = true) /\
  (forall ls s', forallb is_worker ls = true -> run c s ls = Some s' ->
     length ls <= weight s + 1 /\ stopped s' = true /\
     ((forall l, is_worker l = true -> step c s' l = None) -> done s' = true)).
Proof. exact stop_terminates_partial. Qed.
Print Assumptions C18_stop_terminates_partial.

Theorem C18_terminated_worker_is_final : forall c s l s',
  done s = true -> step c s l = Some s' -> is_worker l = false /\ done s' = true.
Proof. exact done_final. Qed.
Print Assumptions C18_terminated_worker_is_final.

(** The correspondence checker is sound by construction: a script it accepts
    is the external projection ([observe]) of a run of the model, whose ghost
    histories are the script's sends and receives; hence, by (a), the received
    values of an accepted script are a prefix of its sent values. *)
Theorem C18_accepted_script_is_model_run : forall c script,
  model_accepts c script = true ->
  exists ls s, run c init ls = Some s /\ observe c init ls = Some script /\
    sent s = ext_sends script /\ rcvd s = ext_recvs script /\
    exists rest, ext_sends script = ext_recvs script ++ rest.
Proof. exact accepted_is_model_run. Qed.
Print Assumptions C18_accepted_script_is_model_run.

(** Non-vacuity.  bufferSize = 2, the code's configuration: a burst of
    cap + 3 = 5 sends with no receive (each send is followed by the one worker
    step the inner select needs), ending with 2 items in chanOut and 3 in the
    overflow list; then the consumer drains everything in order; then stop
    and quit. *)
Example C18_burst_cap2 :
  let c := code_cfg 2 in
  let burst := [Send 1; WDirect; Send 2; WDirect; Send 3; WDefault; Send 4; Send 5]%N in
  let drain := [Recv; WMove; Recv; WMove; Recv; WMove; Recv; Recv] in
  (exists s, run c init burst = Some s /\ out s = [1; 2]%N /\ ovf s = [3; 4; 5]%N /\
             rcvd s = [] /\ forallb is_send_or_intake burst = true) /\
  (exists s, run c init (burst ++ drain) = Some s /\ rcvd s = [1; 2; 3; 4; 5]%N /\
             pending s = []) /\
  (exists s, run c init (burst ++ drain ++ [Stop; WQuit]) = Some s /\ done s = true) /\
  (* a send is refused only while the worker is at the inner select *)
  run c init [Send 1; Send 2]%N = None.
Proof.
  vm_compute. repeat split; try (eexists; repeat split).
Qed.

(** bufferSize = 0 (both channels unbuffered): burst of 3 with no receive,
    all of it in the overflow list; receives are rendezvous with select B. *)
Example C18_burst_cap0 :
  let c := code_cfg 0 in
  let burst := [Send 1; WDefault; Send 2; Send 3]%N in
  (exists s, run c init burst = Some s /\ out s = [] /\ ovf s = [1; 2; 3]%N) /\
  (exists s, run c init (burst ++ [Recv; Recv; Send 4; Recv; Recv])%N = Some s /\
             rcvd s = [1; 2; 3; 4]%N /\ pending s = []) /\
  (* stop while items are pending, worker blocked in select B: quit is enabled *)
  (exists s, run c init (burst ++ [Stop; WQuit]) = Some s /\ done s = true /\
             ovf s = [1; 2; 3]%N /\ step c s Recv = None).
Proof.
  vm_compute. repeat split; try (eexists; repeat split).
Qed.

(** Buffered chanIn (cin = 2, cout = 1): the variant in which both channels are
    buffered.  The producer fills chanIn, the worker empties it. *)
Example C18_buffered_in :
  let c := Cfg 2 1 in
  (exists s, run c init [Send 1; Send 2; WRecv; WDirect; Send 3; WRecv; WDefault; WRecv; Send 4;
                         Send 5; Recv; WMove; Recv; WMove; Recv; WRecv; WDirect; Recv; WRecv; WDirect; Recv]%N
             = Some s /\ rcvd s = [1; 2; 3; 4; 5]%N /\ pending s = []) /\
  run c init [Send 1; Send 2; Send 3]%N = None.
Proof.
  vm_compute. repeat split; try (eexists; repeat split).
Qed.

(** The correspondence checker accepts real behaviours and rejects scripts
    that lose, duplicate or reorder items, for the search AND for the oracle. *)
Example C18_checker_discriminates :
  let s := [ESend 1; ESend 2; ESend 3; ESend 4; ERecv 1; ERecv 2; ESend 5; ERecv 3; EStop; ERecv 4]%N in
  case_ok (1, s) = true /\ case_ok (0, [ESend 1; ESend 2; ERecv 1; ERecv 2; EStop]%N) = true /\
  (* after stop at most bufferSize items can still be drained *)
  model_accepts (code_cfg 1) [ESend 1; ESend 2; ESend 3; EStop; ERecv 1; ERecv 2; ERecv 3]%N = true /\
  model_accepts (code_cfg 1) [ESend 1; ESend 2; ESend 3; EStop; ERecv 1; ERecv 2; ERecv 3; ERecv 3]%N = false /\
  case_ok (2, [ESend 1; ESend 2; ESend 3; ERecv 1; ERecv 3]%N) = false /\
  case_ok (2, [ESend 1; ESend 2; ESend 3; ERecv 1; ERecv 1]%N) = false /\
  case_ok (2, [ESend 1; ESend 2; ESend 3; ERecv 2; ERecv 1]%N) = false /\
  case_ok (2, [ESend 1; ERecv 1; ERecv 2]%N) = false /\
  model_accepts (code_cfg 2) [ESend 1; ESend 2; ERecv 2]%N = false /\
  oracle_ok [ESend 1; ESend 2; ERecv 2]%N = false.
Proof. vm_compute. repeat split. Qed.

(** * The inline slice queues of the btcd and neutrino backends

    Model: Queue/SliceQueue.v.  The four locals of the loop (pending slice,
    [next], whether [dequeue] is non-nil, whether [enqueue] is non-nil) are
    independent state variables, as in the code; the worker is always at its one
    select, so a schedule is a list of rendezvous ([Send], [Recv], [ReadBS]),
    environment actions ([Stop], [CloseIn], [SeeClosed]) and the worker's two
    own cases ([WQuit], [WInClosed]).  Every theorem quantifies over the best
    block [b0] at start and over every schedule accepted by [run canonical]
    from [init b0]; no bound on lengths. *)
Module Slice.
Import Verif.Queue.SliceQueue Verif.Queue.SliceQueueProofs Verif.Queue.SliceQueueCorr.
Import Verif.Generated.QueueSites.

(** Tie to the source: the facts read from chain/btcd.go and chain/neutrino.go
    by harness/cmd/extract-c18 (append at the tail after arming the send case
    when the slice was empty; shift by one, then refresh [next] from the head;
    disarm the send case when the slice became empty; best-block bookkeeping on
    the element just delivered; the select has the quit case; the output
    channel is closed after the loop; Notifications() returns that channel)
    are exactly the shape the theorems below are about. *)
Theorem C18_slice_code_shape :
  btcd_handler_shape = canonical /\ neutrino_handler_shape = canonical /\
  btcd_handler_out_is_dequeue = true /\ neutrino_handler_out_is_dequeue = true.
Proof. repeat split; reflexivity. Qed.
Print Assumptions C18_slice_code_shape.

(** (a) Conservation and order: at every point of every schedule, what the
    consumer has received followed by the pending slice is exactly what was
    handed over so far, in the order of the [Send] labels. *)
Theorem C18_slice_conservation_and_order : forall b0 ls s,
  run canonical (init b0) ls = Some s ->
  rcvd s ++ pend s = sent s /\ sent s = sends_of ls.
Proof.
  intros b0 ls s H. split.
  - exact (conservation b0 ls s H).
  - exact (sent_is_schedule b0 ls s H).
Qed.
Print Assumptions C18_slice_conservation_and_order.

Theorem C18_slice_received_is_prefix_exact_when_drained : forall b0 ls s,
  run canonical (init b0) ls = Some s ->
  (exists rest, sent s = rcvd s ++ rest)
  /\ (NoDup (sent s) -> NoDup (rcvd s))
  /\ (pend s = [] -> rcvd s = sent s).
Proof.
  intros b0 ls s H. repeat split.
  - exact (received_prefix b0 ls s H).
  - exact (no_duplication b0 ls s H).
  - exact (drained_exact b0 ls s H).
Qed.
Print Assumptions C18_slice_received_is_prefix_exact_when_drained.

(** What the consumer is handed is the local [next]; that it IS the oldest
    pending notification, and that the slice is non-empty whenever the send
    case fires, is proved (the model does not assume it). *)
Theorem C18_slice_recv_delivers_oldest_pending : forall b0 s s',
  reachable canonical b0 s -> step canonical s Recv = Some s' ->
  exists v rest, pend s = v :: rest /\ recv_val s = Some v /\
                 rcvd s' = rcvd s ++ [v] /\ pend s' = rest.
Proof. exact recv_delivers_head. Qed.
Print Assumptions C18_slice_recv_delivers_oldest_pending.

(** The loop never indexes an empty slice; the send case is armed exactly when
    something is pending and then offers the head; the output channel is closed
    exactly when the loop has been left. *)
Theorem C18_slice_control_state : forall b0 ls s,
  run canonical (init b0) ls = Some s ->
  panicked s = false /\
  (done s = false -> armed s = nonempty (pend s)) /\
  (pend s <> [] -> nxt s = hd_ntfn (pend s)) /\
  closed s = done s.
Proof. exact control_state. Qed.
Print Assumptions C18_slice_control_state.

(** The best block served by BlockStamp() is the height of the last
    BlockConnected DELIVERED (not merely enqueued), else the initial one. *)
Theorem C18_slice_best_block_follows_delivery : forall b0 ls s,
  run canonical (init b0) ls = Some s -> bs s = last_connected b0 (rcvd s).
Proof. exact best_block_follows_delivery. Qed.
Print Assumptions C18_slice_best_block_follows_delivery.

(** (b) The producer is never blocked by a slow consumer: in every reachable
    state in which the loop is alive (and nobody closed the input channel) a
    hand-over of any value is enabled AT ONCE - no consumer step and no worker
    step is needed. *)
Theorem C18_slice_producer_never_blocked : forall b0 s,
  reachable canonical b0 s -> running s -> forall x, step canonical s (Send x) <> None.
Proof. exact producer_never_blocked. Qed.
Print Assumptions C18_slice_producer_never_blocked.

Theorem C18_slice_any_burst_without_consumer : forall b0 xs,
  exists s', run canonical (init b0) (map Send xs) = Some s' /\
    sent s' = xs /\ rcvd s' = [] /\ pend s' = xs /\ running s' /\ stopped s' = false.
Proof. exact burst_from_init. Qed.
Print Assumptions C18_slice_any_burst_without_consumer.

(** Draining is always possible while the loop lives: [length (pend s)]
    receives, and nothing else, deliver everything that was handed over. *)
Theorem C18_slice_drain_possible : forall b0 s,
  reachable canonical b0 s -> done s = false ->
  exists s', run canonical s (repeat Recv (length (pend s))) = Some s' /\
    pend s' = [] /\ sent s' = sent s /\ rcvd s' = sent s.
Proof. exact drain_reachable. Qed.
Print Assumptions C18_slice_drain_possible.

(** (c) Stop.  Once quit is closed the loop's quit case is enabled as long as
    the loop is alive; taking it leaves the loop and closes the output channel;
    worker-only runs have length <= 2 and one that cannot be extended has
    terminated.  PARTIAL as for the ConcurrentQueue: that select actually TAKES
    the quit case while producer and consumer keep the other cases ready is a
    fairness property of Go's select; not proved. *)
Theorem C18_slice_stop_terminates_partial : forall s,
  stopped s = true ->
  (done s = false -> exists s', step canonical s WQuit = Some s' /\ done s' = true /\ closed s' = true) /\
  (forall ls s', forallb is_worker ls = true -> run canonical s ls = Some s' ->
     length ls <= 2 /\ stopped s' = true /\
     ((forall l, is_worker l = true -> step canonical s' l = None) -> done s' = true)).
Proof. exact stop_terminates_partial. Qed.
Print Assumptions C18_slice_stop_terminates_partial.

Theorem C18_slice_terminated_worker_is_final : forall s l s',
  done s = true -> step canonical s l = Some s' ->
  is_worker l = false /\ is_send l = false /\ is_recv l = false /\
  done s' = true /\ pend s' = pend s /\ sent s' = sent s /\ rcvd s' = rcvd s /\ closed s' = closed s.
Proof. exact done_final. Qed.
Print Assumptions C18_slice_terminated_worker_is_final.

(** The correspondence checker is sound by construction (as above). *)
Theorem C18_slice_accepted_script_is_model_run : forall b0 script,
  model_accepts canonical b0 script = true ->
  exists ls s, run canonical (init b0) ls = Some s /\ observe canonical (init b0) ls = Some script /\
    sent s = ext_sends script /\ rcvd s = ext_recvs script /\
    exists rest, ext_sends script = ext_recvs script ++ rest.
Proof. exact accepted_is_model_run. Qed.
Print Assumptions C18_slice_accepted_script_is_model_run.

(** Non-vacuity: a burst of four with no consumer, best-block reads that follow
    DELIVERY, drain, stop and quit; and a stop in the middle of a backlog. *)
Example C18_slice_run :
  let a := Other 1%N in let b := Connected 2%N in let c := Other 3%N in let d := Connected 4%N in
  (exists s, run canonical (init 9) [Send a; Send b; Send c; Send d] = Some s /\
             pend s = [a; b; c; d] /\ rcvd s = [] /\ bs s = 9%N /\ nxt s = a /\ armed s = true) /\
  (exists s, run canonical (init 9) [Send a; Send b; Send c; Send d; Recv; ReadBS; Recv; ReadBS; Recv; Recv] = Some s /\
             rcvd s = [a; b; c; d] /\ pend s = [] /\ armed s = false /\ bs s = 4%N) /\
  observe canonical (init 9) [Send a; Send b; ReadBS; Recv; ReadBS; Recv; ReadBS]
    = Some [ESend a; ESend b; EBS 9; ERecv a; EBS 9; ERecv b; EBS 2] /\
  (exists s, run canonical (init 9) [Send a; Send b; Recv; Stop; Recv; Send c; WQuit; SeeClosed] = Some s /\
             done s = true /\ closed s = true /\ rcvd s = [a; b] /\ pend s = [c] /\
             step canonical s Recv = None /\ step canonical s (Send d) = None) /\
  (* the closed-input branch: the backlog is still delivered, then the loop ends *)
  (exists s, run canonical (init 9) [Send a; Send b; CloseIn; WInClosed; Recv; Recv] = Some s /\
             done s = true /\ rcvd s = [a; b]).
Proof. vm_compute. repeat split; try (eexists; repeat split). Qed.

(** Every fact of the shape is NEEDED: with any one of them flipped (the slip it
    stands for, see SliceQueue.shape) a short schedule violates the property. *)
Example C18_slice_each_fact_is_needed :
  let a := Other 1%N in let b := Other 2%N in
  (* new element put in front: a is delivered twice, b never *)
  (exists s, run (Shape false true true true true true true) (init 0) [Send a; Send b; Recv; Recv] = Some s /\
             rcvd s = [a; a] /\ sent s = [a; b] /\ pend s = []) /\
  (* arming block missing: nothing is ever delivered *)
  (exists s, run (Shape true false true true true true true) (init 0) [Send a] = Some s /\
             pend s = [a] /\ step (Shape true false true true true true true) s Recv = None) /\
  (* next refreshed before the shift: a twice, b lost *)
  (exists s, run (Shape true true false true true true true) (init 0) [Send a; Send b; Recv; Recv] = Some s /\
             rcvd s = [a; a] /\ sent s = [a; b] /\ pend s = []) /\
  (* dequeue not nil-ed when the slice empties: a delivered again, then index out of range *)
  (exists s, run (Shape true true true false true true true) (init 0) [Send a; Recv; Recv] = Some s /\
             rcvd s = [a; a] /\ sent s = [a] /\ panicked s = true) /\
  (* no bookkeeping: BlockStamp() stays at the initial block *)
  (exists s, run (Shape true true true true false true true) (init 7) [Send (Connected 8); Recv] = Some s /\
             bs s = 7%N /\ last_connected 7 (rcvd s) = 8%N) /\
  (* no quit case: the worker cannot terminate *)
  (exists s, run (Shape true true true true true false true) (init 0) [Stop] = Some s /\
             forall l, is_worker l = true -> step (Shape true true true true true false true) s l = None) /\
  (* no close: the consumer never learns that the loop ended *)
  (exists s, run (Shape true true true true true true false) (init 0) [Stop; WQuit] = Some s /\
             done s = true /\ step (Shape true true true true true true false) s SeeClosed = None).
Proof.
  vm_compute. repeat split; try (eexists; repeat split).
  intros l H; destruct l; try discriminate; reflexivity.
Qed.

(** The correspondence checker accepts real behaviours and rejects scripts that
    lose, duplicate or reorder items, serve a wrong best block, deliver the nil
    value, or report the channel closed while the loop must still be running. *)
Example C18_slice_checker_discriminates :
  let a := Other 1%N in let b := Connected 2%N in let c := Other 3%N in
  case_ok (9%N, [ESend a; ESend b; EBS 9; ERecv a; ERecv b; EBS 2; ESend c; EStop; ERecv c; EClosed]) = true /\
  case_ok (9%N, [ESend a; ESend b; EStop; EClosed]) = true /\
  case_ok (9%N, [ESend a; ESend b; ERecv b]) = false /\
  case_ok (9%N, [ESend a; ESend b; ERecv a; ERecv a]) = false /\
  case_ok (9%N, [ESend a; ERecv a; ERecv a]) = false /\
  case_ok (9%N, [ESend a; ERecv a; ERecv NilNtfn]) = false /\
  case_ok (9%N, [ESend a; ESend b; EBS 2]) = false /\
  case_ok (9%N, [ESend a; ESend b; ERecv a; ERecv b; EBS 9]) = false /\
  case_ok (9%N, [ESend a; EClosed]) = false /\
  case_ok (9%N, [ESend a; EStop; EClosed; ERecv a]) = false /\
  model_accepts canonical 9 [ESend a; ESend b; ERecv b] = false /\
  oracle_ok [ESend a; ESend b; ERecv b] = false.
Proof. vm_compute. repeat split. Qed.

End Slice.
