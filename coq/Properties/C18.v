(** C18 - Chain notifications are delivered in order, none lost or duplicated;
    the producer is never blocked by a slow consumer; stopping the queue
    terminates its worker.

    Property theorems only; proofs are in Queue/QueueProofs.v.  Everything is
    quantified over every configuration [c] (capacity of chanIn and of chanOut,
    zero = unbuffered included; the code is [code_cfg bufferSize], chanIn
    unbuffered) and over every schedule [ls] accepted by [run] from [init],
    i.e. every interleaving of producer, consumer, worker and stop steps, with
    no bound on lengths. *)
From Verif Require Import Base.Prelude Queue.Queue Queue.QueueProofs Queue.QueueCorr.

(** (a) Conservation and order.  At every point of every schedule the items
    received so far, followed by what sits in chanOut, the overflow list, the
    worker's hand and chanIn, are exactly the items sent so far, in the order
    sent ([sent] being the sequence of [Send] labels of the schedule). *)
Theorem C18_conservation_and_order : forall c ls s,
  run c init ls = Some s ->
  rcvd s ++ out s ++ ovf s ++ opt_list (hold s) ++ chin s = sent s
  /\ sent s = sends_of ls.
Proof.
  intros c ls s H. split.
  - exact (conservation c ls s H).
  - exact (sent_is_schedule c ls s H).
Qed.
Print Assumptions C18_conservation_and_order.

(** Hence: the consumer has seen a prefix of what was sent (in order, nothing
    skipped), without duplicates when the sent items are distinct, and exactly
    the sent sequence once nothing is left inside the queue. *)
Theorem C18_received_is_prefix_exact_when_drained : forall c ls s,
  run c init ls = Some s ->
  (exists rest, sent s = rcvd s ++ rest)
  /\ (NoDup (sent s) -> NoDup (rcvd s))
  /\ (out s = [] -> ovf s = [] -> hold s = None -> chin s = [] -> rcvd s = sent s).
Proof.
  intros c ls s H. repeat split.
  - exact (received_prefix c ls s H).
  - exact (no_duplication c ls s H).
  - exact (drained_exact c ls s H).
Qed.
Print Assumptions C18_received_is_prefix_exact_when_drained.

(** Every [Recv] step delivers the value [recv_val] announces (this is what
    ties the ghost history [rcvd] to what a consumer observes). *)
Theorem C18_recv_appends_delivered_value : forall c s s',
  step c s Recv = Some s' ->
  exists v, recv_val c s = Some v /\ rcvd s' = rcvd s ++ [v].
Proof. intros c s s' H. exact (step_rcvd c s Recv s' H). Qed.
Print Assumptions C18_recv_appends_delivered_value.

(** ... and draining is always possible while the worker lives: from every
    reachable state there is a continuation made of worker moves and consumer
    receives only, after which the consumer has received exactly what was sent. *)
Theorem C18_drain_possible : forall c s,
  reachable c s -> done s = false ->
  exists ls s', forallb is_forward ls = true /\ run c s ls = Some s' /\
    pending s' = [] /\ sent s' = sent s /\ rcvd s' = sent s.
Proof. exact drain_possible. Qed.
Print Assumptions C18_drain_possible.

(** (b) The producer is never blocked by a slow consumer.  From every
    reachable state in which the queue has not been stopped there is a
    sequence of AT MOST TWO worker steps - none of them a consumer step, none
    of them quit (only: receive from chanIn, inner select's send-to-chanOut,
    inner select's default) - after which a send of any value is enabled.
    (For the code, cin = 0: at most one step - the inner non-blocking select.) *)
Theorem C18_producer_never_blocked : forall c s,
  reachable c s -> running s ->
  exists ls s', length ls <= 2 /\ forallb is_intake ls = true /\
    run c s ls = Some s' /\ (forall x, step c s' (Send x) <> None) /\ running s'.
Proof. exact producer_never_blocked. Qed.
Print Assumptions C18_producer_never_blocked.

(** Consequently a burst of any length and content is accepted from the
    initial state by a schedule that contains no consumer step at all; all of
    it is then pending inside the queue, in order. *)
Theorem C18_any_burst_without_consumer : forall c xs,
  exists ls s', run c init ls = Some s' /\ forallb is_send_or_intake ls = true /\
    sent s' = xs /\ rcvd s' = [] /\ pending s' = xs /\ running s'.
Proof. exact burst_from_init. Qed.
Print Assumptions C18_any_burst_without_consumer.

(** (c) Stop.  Once quit is closed it stays closed; as long as the worker is
    alive its quit case is enabled (quit is a case of select A, of the inner
    select and of select B) and taking it terminates the worker; every
    sequence of worker steps alone has length <= weight s + 1, and one that
    cannot be extended has terminated; a terminated worker never steps again.
    PARTIAL: that the quit case is actually TAKEN while a producer keeps
    sending is a fairness property of Go's scheduler and of select's random
    choice; it is not proved. *)
Theorem C18_stop_terminates_partial : forall c s,
  stopped s = true ->
  (done s = false -> exists s', step c s WQuit = Some s' /\ done s' = true) /\
  (forall ls s', forallb is_worker ls = true -> run c s ls = Some s' ->
     length ls <= weight s + 1 /\ stopped s' = true /\
     ((forall l, is_worker l = true -> step c s' l = None) -> done s' = true)).
Proof. exact stop_terminates_partial. Qed.
Print Assumptions C18_stop_terminates_partial.

Theorem C18_terminated_worker_is_final : forall c s l s',
  done s = true -> step c s l = Some s' -> is_worker l = false /\ done s' = true.
Proof. exact done_final. Qed.
Print Assumptions C18_terminated_worker_is_final.

(** The correspondence checker is sound by construction: a script it accepts
    is the external projection ([observe]) of a run of the model, whose ghost
    histories are the script's sends and receives; hence, by (a), the received
    values of an accepted script are a prefix of its sent values. *)
Theorem C18_accepted_script_is_model_run : forall c script,
  model_accepts c script = true ->
  exists ls s, run c init ls = Some s /\ observe c init ls = Some script /\
    sent s = ext_sends script /\ rcvd s = ext_recvs script /\
    exists rest, ext_sends script = ext_recvs script ++ rest.
Proof. exact accepted_is_model_run. Qed.
Print Assumptions C18_accepted_script_is_model_run.

(** Non-vacuity.  bufferSize = 2, the code's configuration: a burst of
    cap + 3 = 5 sends with no receive (each send is followed by the one worker
    step the inner select needs), ending with 2 items in chanOut and 3 in the
    overflow list; then the consumer drains everything in order; then stop
    and quit. *)
Example C18_burst_cap2 :
  let c := code_cfg 2 in
  let burst := [Send 1; WDirect; Send 2; WDirect; Send 3; WDefault; Send 4; Send 5]%N in
  let drain := [Recv; WMove; Recv; WMove; Recv; WMove; Recv; Recv] in
  (exists s, run c init burst = Some s /\ out s = [1; 2]%N /\ ovf s = [3; 4; 5]%N /\
             rcvd s = [] /\ forallb is_send_or_intake burst = true) /\
  (exists s, run c init (burst ++ drain) = Some s /\ rcvd s = [1; 2; 3; 4; 5]%N /\
             pending s = []) /\
  (exists s, run c init (burst ++ drain ++ [Stop; WQuit]) = Some s /\ done s = true) /\
  (* a send is refused only while the worker is at the inner select *)
  run c init [Send 1; Send 2]%N = None.
Proof.
  vm_compute. repeat split; try (eexists; repeat split).
Qed.

(** bufferSize = 0 (both channels unbuffered): burst of 3 with no receive,
    all of it in the overflow list; receives are rendezvous with select B. *)
Example C18_burst_cap0 :
  let c := code_cfg 0 in
  let burst := [Send 1; WDefault; Send 2; Send 3]%N in
  (exists s, run c init burst = Some s /\ out s = [] /\ ovf s = [1; 2; 3]%N) /\
  (exists s, run c init (burst ++ [Recv; Recv; Send 4; Recv; Recv])%N = Some s /\
             rcvd s = [1; 2; 3; 4]%N /\ pending s = []) /\
  (* stop while items are pending, worker blocked in select B: quit is enabled *)
  (exists s, run c init (burst ++ [Stop; WQuit]) = Some s /\ done s = true /\
             ovf s = [1; 2; 3]%N /\ step c s Recv = None).
Proof.
  vm_compute. repeat split; try (eexists; repeat split).
Qed.

(** Buffered chanIn (cin = 2, cout = 1): the variant in which both channels are
    buffered.  The producer fills chanIn, the worker empties it. *)
Example C18_buffered_in :
  let c := Cfg 2 1 in
  (exists s, run c init [Send 1; Send 2; WRecv; WDirect; Send 3; WRecv; WDefault; WRecv; Send 4;
                         Send 5; Recv; WMove; Recv; WMove; Recv; WRecv; WDirect; Recv; WRecv; WDirect; Recv]%N
             = Some s /\ rcvd s = [1; 2; 3; 4; 5]%N /\ pending s = []) /\
  run c init [Send 1; Send 2; Send 3]%N = None.
Proof.
  vm_compute. repeat split; try (eexists; repeat split).
Qed.

(** The correspondence checker accepts real behaviours and rejects scripts
    that lose, duplicate or reorder items, for the search AND for the oracle. *)
Example C18_checker_discriminates :
  let s := [ESend 1; ESend 2; ESend 3; ESend 4; ERecv 1; ERecv 2; ESend 5; ERecv 3; EStop; ERecv 4]%N in
  case_ok (1, s) = true /\ case_ok (0, [ESend 1; ESend 2; ERecv 1; ERecv 2; EStop]%N) = true /\
  (* after stop at most bufferSize items can still be drained *)
  model_accepts (code_cfg 1) [ESend 1; ESend 2; ESend 3; EStop; ERecv 1; ERecv 2; ERecv 3]%N = true /\
  model_accepts (code_cfg 1) [ESend 1; ESend 2; ESend 3; EStop; ERecv 1; ERecv 2; ERecv 3; ERecv 3]%N = false /\
  case_ok (2, [ESend 1; ESend 2; ESend 3; ERecv 1; ERecv 3]%N) = false /\
  case_ok (2, [ESend 1; ESend 2; ESend 3; ERecv 1; ERecv 1]%N) = false /\
  case_ok (2, [ESend 1; ESend 2; ESend 3; ERecv 2; ERecv 1]%N) = false /\
  case_ok (2, [ESend 1; ERecv 1; ERecv 2]%N) = false /\
  model_accepts (code_cfg 2) [ESend 1; ESend 2; ERecv 2]%N = false /\
  oracle_ok [ESend 1; ESend 2; ERecv 2]%N = false.
Proof. vm_compute. repeat split. Qed.
