(** C15 - The wallet's view of the chain tip follows the backend through reorgs.
    Property theorems only; proofs are in Sync/SyncProofs.v, the model in
    Sync/Sync.v (connectBlock, disconnectBlock, addRelevantTx, PutSyncedTo,
    syncWithChain: first synchronisation, rollback loop, birthday reset;
    catchUpHashes).

    Premise regenerated from the source (Generated/SyncFacts.v):
    [disconnect_records_parent_hash = true] - disconnectBlock hands the
    parent's hash to SetSyncedTo.  It is discharged by [eq_refl]: this file
    does not compile against a tree where the fact is [false]
    (see [C15_refuted_at_pinned] for what happens then). *)
From stdpp Require Import gmap list numbers.
From Coq Require Import ZArith NArith.
From Verif Require Tx.Store Tx.Ledger Tx.Hist Tx.Node.
From Verif Require Import Generated.SyncFacts Sync.Sync Sync.SyncProofs Sync.SyncStore.
From Verif Require Import Sync.BitcoindReorg Sync.BitcoindReorgProofs Sync.BitcoindRescan Sync.BitcoindRescanProofs.
Local Open Scope Z_scope.

(** What "the wallet is consistent with best chain [c], followed from height
    [lo]" means, clause by clause: synced-to is the tip of [c]; every height
    from [lo] to the tip has the hash of [c] stored, and [lo] lies within
    MaxReorgDepth of the tip; every confirmed transaction record names a
    block of [c]. *)
Theorem C15_consistent_means : forall hdr c lo w,
  consistent hdr c lo w ->
  m_height (synced w) = tip_height c /\
  (exists b, chain_at c (tip_height c) = Some b /\ m_hash (synced w) = bh b) /\
  (forall h b, lo <= h -> chain_at c h = Some b -> hashes w !! h = Some (bh b)) /\
  0 <= lo <= tip_height c /\ tip_height c - max_reorg_depth < lo /\
  (forall r, r ∈ mined w -> exists b, chain_at c (r_height r) = Some b /\ bh b = r_hash r).
Proof. exact consistent_clauses. Qed.
Print Assumptions C15_consistent_means.

(** A freshly created wallet is consistent with the chain made of the genesis block. *)
Theorem C15_new_wallet : forall hdr g,
  is_Some (hdr !! bh g) -> consistent hdr [g] 0 (new_wallet g).
Proof. intros hdr g. exact (new_wallet_consistent hdr g eq_refl). Qed.
Print Assumptions C15_new_wallet.

(** One evolution of the best chain - replace the top [e_depth e] blocks (any
    depth that keeps the lowest replaced block inside the stored window;
    0 = extension) by [e_new e], wallet transactions anywhere in the new
    blocks, notified before or after the block-connected notification - and
    ANY stream obtained from its notifications (disconnects tip-down, then
    connects upward) by inserting stale / repeated / future-height
    disconnects and redundant transaction notifications anywhere: no handler
    fails and afterwards the wallet is consistent with the evolved chain. *)
Theorem C15_follows_evolution : forall hdr c lo w e stream,
  consistent hdr c lo w -> chain_synced w = true ->
  valid_evo hdr c lo e ->
  noisy hdr {| nc := c; npend := None; nlo := lo |} (emit c e) stream ->
  exists w', run hdr stream w = (w', false) /\ chain_synced w' = true /\
    consistent hdr (apply_evo c e) (Z.max lo (tip_height (apply_evo c e) - max_reorg_depth + 1)) w'.
Proof. intros hdr. exact (follows_evolution hdr eq_refl). Qed.
Print Assumptions C15_follows_evolution.

(** Any number of evolutions. *)
Theorem C15_follows_evolutions : forall hdr c lo w c2 lo2 w2,
  consistent hdr c lo w -> chain_synced w = true ->
  evolves hdr c lo w c2 lo2 w2 ->
  consistent hdr c2 lo2 w2 /\ chain_synced w2 = true.
Proof. intros hdr. exact (follows_evolutions hdr eq_refl). Qed.
Print Assumptions C15_follows_evolutions.

(** Finer: after EVERY admissible notification (not only at the end of an
    evolution) the wallet agrees with the chain the notifications delivered
    so far describe; a transaction announced ahead of its block is the only
    record allowed outside that chain. *)
Theorem C15_after_every_notification : forall hdr s w l s',
  Inv hdr s w -> chain_synced w = true -> nrun hdr s l = Some s' ->
  exists w', run hdr l w = (w', false) /\ Inv hdr s' w' /\ chain_synced w' = true.
Proof. intros hdr. exact (follows_stream hdr eq_refl). Qed.
Print Assumptions C15_after_every_notification.

(** The notifications of a valid evolution are admissible and describe the evolved chain. *)
Theorem C15_emitted_stream_admissible : forall hdr c lo e,
  valid_evo hdr c lo e ->
  nrun hdr {| nc := c; npend := None; nlo := lo |} (emit c e)
  = Some {| nc := apply_evo c e; npend := None;
            nlo := lo_ext lo (tip_height c - Z.of_nat (e_depth e)) (length (e_new e)) |}.
Proof. exact emit_nrun. Qed.
Print Assumptions C15_emitted_stream_admissible.

(** Start-up.  The wallet is consistent with an earlier best chain [p ++ a];
    the backend's chain is now [p ++ b] (blocks above the common prefix [p]
    differ, the backend's chain is at least as high, the fork point is inside
    the stored window).  The loop of syncWithChain terminates without error;
    if the wallet's tip is still on the chain nothing changes, otherwise
    synced-to becomes the last common block, the transaction store is rolled
    back from exactly the height above it, and the wallet is consistent with [p]. *)
Theorem C15_startup_rollback : forall hdr p a b lo w,
  consistent hdr (p ++ a) lo w -> p <> [] -> diverge a b -> (length a <= length b)%nat ->
  headers_known hdr (p ++ b) ->
  (a = [] \/ disc_ok lo (tip_height p + 1) = true) ->
  exists w', sync_rollback (p ++ b) hdr w = (w', false) /\
    (a = [] -> w' = w) /\
    (a <> [] ->
       m_height (synced w') = tip_height p /\
       mined w' = filter (fun r => r_height r <? tip_height p + 1) (mined w) /\
       chain_synced w' = chain_synced w /\
       consistent hdr p lo w').
Proof. exact sync_rollback_spec. Qed.
Print Assumptions C15_startup_rollback.

(** The loop cannot run out of the fuel the model gives it. *)
Theorem C15_startup_loop_terminates : forall backend hdr w,
  walk (walk_fuel w) backend hdr w (m_height (synced w)) false <> WFuel.
Proof. intros backend hdr w. apply walk_no_fuel. unfold walk_fuel. lia. Qed.
Print Assumptions C15_startup_loop_terminates.

(** Stop / evolve / start as a whole: rollback, the rescan's transaction
    notifications (any, for blocks of the backend's chain), RescanFinished
    (catchUpHashes): the wallet is consistent with the backend's chain. *)
Theorem C15_startup_follows : forall hdr p a b lo w txs,
  consistent hdr (p ++ a) lo w -> p <> [] -> diverge a b -> (length a <= length b)%nat ->
  headers_known hdr (p ++ b) -> (a = [] \/ disc_ok lo (tip_height p + 1) = true) ->
  Forall (rescan_ntfn (p ++ b)) txs ->
  exists w0 w1 w2,
    sync_rollback (p ++ b) hdr w = (w0, false) /\
    run hdr txs w0 = (w1, false) /\
    rescan_finished (p ++ b) hdr (tip_height (p ++ b)) w1 = (w2, false) /\
    chain_synced w2 = true /\
    consistent hdr (p ++ b) (Z.max lo (tip_height (p ++ b) - max_reorg_depth + 1)) w2.
Proof. intros hdr. exact (startup_follows hdr eq_refl). Qed.
Print Assumptions C15_startup_follows.

(** First start of a wallet (no birthday block stored, no confirmed record -
    in particular a freshly created one): [loc] is the block
    locateBirthdayBlock returned, any height of the backend's chain [B].
    syncWithChain stores the backend's block of that height as synced-to and
    [loc] as birthday block, the loop that follows changes nothing, and after
    the rescan's notifications and RescanFinished the wallet is consistent
    with [B], followed from the located height. *)
Theorem C15_first_sync_follows : forall hdr B loc w txs,
  birthday_set w = false -> mined w = [] ->
  headers_known hdr B -> 0 <= m_height loc <= tip_height B ->
  Forall (rescan_ntfn B) txs ->
  exists w0 w1 w2,
    startup true B hdr loc w = (w0, false) /\
    m_height (synced w0) = m_height loc /\ birthday_set w0 = true /\ bday w0 = loc /\
    run hdr txs w0 = (w1, false) /\
    rescan_finished B hdr (tip_height B) w1 = (w2, false) /\
    chain_synced w2 = true /\
    consistent hdr B (Z.max (m_height loc) (tip_height B - max_reorg_depth + 1)) w2.
Proof. intros hdr B loc w txs Hb Hm. exact (first_sync_follows hdr eq_refl B loc w txs Hb Hm eq_refl). Qed.
Print Assumptions C15_first_sync_follows.

(** ... and right after that first attempt's transactions (before the
    rescan) the wallet is consistent with [B] cut at the located height. *)
Theorem C15_first_start : forall hdr B loc w,
  birthday_set w = false -> mined w = [] ->
  headers_known hdr B -> 0 <= m_height loc <= tip_height B ->
  exists w0, startup true B hdr loc w = (w0, false) /\
    birthday_set w0 = true /\ bday w0 = loc /\ mined w0 = [] /\ unmined w0 = unmined w /\
    chain_synced w0 = chain_synced w /\ m_height (synced w0) = m_height loc /\
    consistent hdr (take (S (Z.to_nat (m_height loc))) B) (m_height loc) w0.
Proof. intros hdr B loc w Hb Hm. exact (first_startup_spec hdr B loc w Hb Hm eq_refl). Qed.
Print Assumptions C15_first_start.

(** The start-up rollback may cross the stored birthday block ([lo] then lies
    at or below the fork point: C15_startup_rollback covers it - the
    birthday-reset branch cannot make the transaction fail).  What the branch
    is for: a birthday block that was on the wallet's chain is on the common
    prefix afterwards (block hashes are unique on the wallet's chain). *)
Theorem C15_startup_birthday_stays_on_chain : forall hdr p a b lo w w',
  consistent hdr (p ++ a) lo w -> p <> [] -> diverge a b -> (length a <= length b)%nat ->
  headers_known hdr (p ++ b) -> a <> [] -> disc_ok lo (tip_height p + 1) = true ->
  birthday_set w = true ->
  (forall h1 h2 b1 b2, chain_at (p ++ a) h1 = Some b1 -> chain_at (p ++ a) h2 = Some b2 ->
                       bh b1 = bh b2 -> h1 = h2) ->
  on_chain (p ++ a) (m_height (bday w)) (m_hash (bday w)) ->
  sync_rollback (p ++ b) hdr w = (w', false) ->
  birthday_set w' = true /\ on_chain p (m_height (bday w')) (m_hash (bday w')).
Proof. exact sync_rollback_birthday. Qed.
Print Assumptions C15_startup_birthday_stays_on_chain.

(** PARTIAL (what the code gives where the premises of C15_startup_rollback
    fail).

    The backend's best chain is lower than the wallet's synced-to height
    (whatever the two chains have in common): the attempt fails in the first
    GetBlockHash of the loop and changes nothing.  Missing with respect to
    the property: the wallet does NOT roll back to the last common block; it
    does not rescan either (ChainSynced stays false), waitForSync repeats the
    attempt, and the roll-back of C15_startup_rollback happens in the first
    attempt that finds the backend at least as high as the wallet. *)
Theorem C15_startup_backend_lower_partial : forall hdr B loc w,
  tip_height B < m_height (synced w) ->
  sync_rollback B hdr w = (w, true) /\ startup false B hdr loc w = (w, true).
Proof.
  intros hdr B loc w H. split; [by apply sync_rollback_backend_lower|by apply startup_backend_lower].
Qed.
Print Assumptions C15_startup_backend_lower_partial.

(** PARTIAL.  The fork point lies below the heights the wallet remembers (the
    last common block is below [lo] and no hash is stored for [lo - 1]:
    pruned by PutSyncedTo, or below the birthday block of a wallet that
    started there): the loop reaches [lo - 1], BlockHash fails, the attempt
    fails and changes nothing - in every repetition, as long as the backend
    stays on that branch.  The property promises nothing outside the window;
    the code's answer is a wallet that never synchronises again. *)
Theorem C15_startup_fork_below_window_partial : forall hdr p a b lo w,
  consistent hdr (p ++ a) lo w -> diverge a b -> (length a <= length b)%nat ->
  headers_known hdr (p ++ b) -> tip_height p < lo -> hashes w !! (lo - 1) = None ->
  sync_rollback (p ++ b) hdr w = (w, true).
Proof. exact sync_rollback_fork_below_window. Qed.
Print Assumptions C15_startup_fork_below_window_partial.

(** PARTIAL (found while modelling the first synchronisation; outside the
    property's quantifier - it needs a backend failure after the first
    transaction of syncWithChain, e.g. NotifyBlocks or the rescan request
    returning an error): waitForSync repeats the attempt with the same nil
    birthday argument, the first-synchronisation transaction runs again - now
    with a birthday block stored, so under the predecessor check of
    PutSyncedTo - and fails for every located height above 1 (the hash of
    the height below it was never stored).  The wallet cannot finish its
    first synchronisation until the backend reconnects or the wallet is
    restarted. *)
Theorem C15_first_sync_repeated_partial : forall hdr B loc w,
  birthday_set w = true -> 0 < m_height loc -> hashes w !! (m_height loc - 1) = None ->
  first_sync B hdr loc w = (w, true) /\ startup true B hdr loc w = (w, true).
Proof. exact first_sync_repeated. Qed.
Print Assumptions C15_first_sync_repeated_partial.

(** Start-up of a wallet opened with a recovery window: syncWithChain also
    runs Wallet.recovery, which scans the backend's blocks above the synced-to
    block and moves synced-to along.  [startup_rec_with o first rec]: [o] =
    recovery stands before the rollback loop (the order in the source is
    regenerated into Generated.SyncFacts.recovery_before_rollback).
    Without a window nothing changes. *)
Theorem C15_startup_without_recovery_window : forall hdr o first B loc txs w,
  startup_rec_with o first false B hdr loc txs w = startup first B hdr loc w.
Proof. exact startup_rec_no_window. Qed.
Print Assumptions C15_startup_without_recovery_window.

(** Rollback loop first, recovery after it: under the premises of
    C15_startup_rollback the attempt succeeds and the wallet is consistent
    with the backend's chain. *)
Theorem C15_startup_recovery_after_rollback : forall hdr p a b lo w loc txs,
  consistent hdr (p ++ a) lo w -> p <> [] -> diverge a b -> (length a <= length b)%nat ->
  headers_known hdr (p ++ b) -> (a = [] \/ disc_ok lo (tip_height p + 1) = true) ->
  Forall (fun x : rtx => on_chain (p ++ b) (m_height x.2) (m_hash x.2)) txs ->
  exists w', startup_rec_with false false true (p ++ b) hdr loc txs w = (w', false) /\
    consistent hdr (p ++ b) (lo_ext lo (tip_height p) (length b)) w' /\
    chain_synced w' = chain_synced w.
Proof. exact startup_rollback_first. Qed.
Print Assumptions C15_startup_recovery_after_rollback.

(** PARTIAL - finding S16 (the order in the source as of this round).
    Recovery BEFORE the rollback loop, the best chain reorganised from above
    [p] and grown beyond the wallet's height while the wallet was stopped:
    the attempt succeeds without an error, synced-to is the backend's tip -
    and nothing is rolled back: the wallet is consistent with
    [p ++ a ++ drop (length a) b], its OLD branch up to its old tip with the
    backend's blocks on top, a chain that never existed.  Missing with
    respect to the property: for the heights of [a] the remembered hashes are
    not the best chain's, every record confirmed in a block of [a] stays
    confirmed, and the wallet transactions of the first [length a] blocks of
    [b] are never seen.  (With [length b <= length a] recovery's loop is empty
    or the backend is lower: C15_startup_rollback /
    C15_startup_backend_lower_partial apply.) *)
Theorem C15_startup_recovery_before_rollback_partial : forall hdr p a b lo w loc txs,
  consistent hdr (p ++ a) lo w -> p <> [] -> (length a < length b)%nat ->
  headers_known hdr (p ++ b) ->
  Forall (fun x : rtx => on_chain (p ++ b) (m_height x.2) (m_hash x.2)) txs ->
  exists w', startup_rec_with true false true (p ++ b) hdr loc txs w = (w', false) /\
    consistent hdr (p ++ a ++ drop (length a) b) (lo_ext lo (tip_height (p ++ a)) (length b - length a)) w' /\
    m_height (synced w') = tip_height (p ++ b) /\
    chain_synced w' = chain_synced w /\
    (forall r, r ∈ mined w -> r ∈ mined w').
Proof. exact startup_recovery_first. Qed.
Print Assumptions C15_startup_recovery_before_rollback_partial.

(** What the code as built gives ([startup_rec] = the order found in the
    source): whichever of the two applies. *)
Theorem C15_startup_with_recovery_window_as_built : forall hdr p a b lo w loc txs,
  consistent hdr (p ++ a) lo w -> p <> [] -> diverge a b -> (length a < length b)%nat ->
  headers_known hdr (p ++ b) -> (a = [] \/ disc_ok lo (tip_height p + 1) = true) ->
  Forall (fun x : rtx => on_chain (p ++ b) (m_height x.2) (m_hash x.2)) txs ->
  exists w', startup_rec false true (p ++ b) hdr loc txs w = (w', false) /\
    (recovery_before_rollback = false -> consistent hdr (p ++ b) (lo_ext lo (tip_height p) (length b)) w') /\
    (recovery_before_rollback = true ->
       consistent hdr (p ++ a ++ drop (length a) b) (lo_ext lo (tip_height (p ++ a)) (length b - length a)) w' /\
       (forall r, r ∈ mined w -> r ∈ mined w')).
Proof.
  intros hdr p a b lo w loc txs Hc Hp Hdiv Hlen Hk Hok Htxs. unfold startup_rec.
  destruct recovery_before_rollback.
  - destruct (startup_recovery_first hdr p a b lo w loc txs Hc Hp Hlen Hk Htxs) as (w' & H1 & H2 & _ & _ & H5).
    exists w'. split; [done|]. split; [discriminate|]. done.
  - destruct (startup_rollback_first hdr p a b lo w loc txs Hc Hp Hdiv ltac:(lia) Hk Hok Htxs) as (w' & H1 & H2 & _).
    exists w'. split; [done|]. split; [done|discriminate].
Qed.
Print Assumptions C15_startup_with_recovery_window_as_built.

(** RescanProgress / RescanFinished naming a height the wallet has already
    reached (the only ones the dispatch switch can meet outside a start-up
    without a race): catchUpHashes changes nothing. *)
Theorem C15_rescan_notification_behind : forall hdr B height w,
  height <= m_height (synced w) ->
  catch_up B hdr height w = (w, false) /\
  rescan_finished B hdr height w = (set_chain_synced true w, false).
Proof.
  intros hdr B height w H. pose proof (catch_up_behind hdr B height w H) as E.
  split; [done|]. unfold rescan_finished. by rewrite E.
Qed.
Print Assumptions C15_rescan_notification_behind.

(** * The pinned tree (finding S1) *)

Definition ex_hdr : gmap N Z :=
  list_to_map (map (fun i => (N.of_nat i, 600 * Z.of_nat i)) (seq 1 12)).
Definition ex_blk (i : nat) : blk := {| bh := N.of_nat i; bt := 600 * Z.of_nat i |}.
Definition ex_plain (i : nat) : nblk := {| nb_blk := ex_blk i; nb_pre := []; nb_post := [] |}.

(** With [disconnect_records_parent_hash = false] (the source as pinned:
    `b.Hash = *hash` instead of `bs.Hash = *hash`) the statement fails on
    [connect 1..5; disconnect 5; disconnect 4]: after the first disconnect
    the synced-to hash and the hash stored for height 4 are the all-zero
    hash, the second disconnect is ignored - the wallet stays at height 4
    while the backend's tip is block 3, and nothing was rolled back. *)
Theorem C15_refuted_at_pinned :
  let c0 := [ex_blk 1] in
  let e1 := {| e_depth := 0; e_new := map ex_plain [2; 3; 4; 5; 6]%nat |} in
  let c1 := apply_evo c0 e1 in
  let e2 := {| e_depth := 2; e_new := [] |} in
  let w0 := set_chain_synced true (new_wallet (ex_blk 1)) in
  valid_evo ex_hdr c0 0 e1 /\ valid_evo ex_hdr c1 0 e2 /\
  tip_height (apply_evo c1 e2) = 3 /\
  exists w', run_with false ex_hdr (emit c0 e1 ++ emit c1 e2) w0 = (w', false) /\
    synced w' = {| m_height := 4; m_hash := 0%N; m_time := 3000 |} /\
    hashes w' !! 4 = Some 0%N.
Proof.
  cbv zeta. split; [|split; [|split]].
  - split; [simpl; lia|]. split; [by left|]. intros b Hb.
    repeat (apply elem_of_cons in Hb as [->|Hb]; [vm_compute; eauto|]). by apply elem_of_nil in Hb.
  - split; [simpl; lia|]. split; [by right|]. intros b Hb. by apply elem_of_nil in Hb.
  - reflexivity.
  - eexists. split; [vm_compute; reflexivity|]. split; reflexivity.
Qed.
Print Assumptions C15_refuted_at_pinned.

(** * The bitcoind backend as the PRODUCER of the notifications

    With the bitcoind backend it is btcwallet's own client
    (chain/bitcoind_client.go: ntfnHandler, reorg) that turns the node's new
    best chain into the BlockConnected / BlockDisconnected stream; the model is
    Sync/BitcoindReorg.v, the proofs are in Sync/BitcoindReorgProofs.v.

    Premise regenerated from the source (Generated/SyncFacts.v):
    [bitcoind_reorg_disconnects_own_hash = true] - inside the walk-back loop
    the next block to disconnect is named by its own hash.  Discharged by
    [eq_refl]; against a tree where the fact is [false] this file does not
    compile (see [C15_bitcoind_reorg_refuted_at_pinned]).

    For every block tree that knows both branches (old branch [o :: os] above
    the common ancestor, tip first; new branch [nhi ++ nsame :: ns], at least
    as high, pairwise different from the old one at equal heights): handed the
    new tip, the reorg procedure emits exactly the stream [emit c e] that
    [C15_follows_evolution] is about - one BlockDisconnected per detached
    block, tip first, each with its own hash, height and time, then one
    BlockConnected per block of the new branch upward - and ends on the new
    tip.  Any depth, any branch lengths. *)
Theorem C15_bitcoind_reorg_emits_the_evolution : forall t anc o os nhi nsame ns base,
  let h := tip_height (anc ++ rev (o :: os)) in
  anc <> [] ->
  dlinked t (o :: os) h base ->
  dlinked t (nhi ++ nsame :: ns) (h + Z.of_nat (length nhi)) base ->
  differ os ns ->
  let c := anc ++ rev (o :: os) in
  let e := evo_of (o :: os) (nhi ++ nsame :: ns) in
  reorg t (meta_of h o) (bh (new_tip nhi nsame)) =
  Some (emit c e, meta_of (tip_height (apply_evo c e)) (new_tip nhi nsame)) /\
  apply_evo c e = anc ++ rev (nhi ++ nsame :: ns).
Proof.
  intros t anc o os nhi nsame ns base. unfold reorg.
  rewrite (eq_refl : bitcoind_reorg_disconnects_own_hash = true).
  exact (reorg_is_emit t anc o os nhi nsame ns base).
Qed.
Print Assumptions C15_bitcoind_reorg_emits_the_evolution.

(** The height-based poller hands over one block per height above the
    client's: [b1] (off the client's branch: the reorg procedure runs up to its
    height) and then its successors [rest].  Together the client emits the
    disconnects of the whole old branch and the connects of the whole new one. *)
Theorem C15_bitcoind_poller_handover : forall t o os b1 nsame ns rest h base,
  0 <= h - Z.of_nat (length os) ->
  dlinked t (o :: os) h base ->
  dlinked t ([b1] ++ nsame :: ns) (h + 1) base ->
  differ os ns -> bh nsame <> bh o ->
  alinked t (bh b1) (h + 2) rest ->
  exists best,
    on_blocks t (meta_of h o) (map bh (b1 :: rest)) =
    Some (discs h (o :: os) ++ conns (h - Z.of_nat (length os)) (rev (b1 :: nsame :: ns) ++ rest), best) /\
    m_hash best = bh (match list.last rest with Some b => b | None => b1 end).
Proof.
  intros t o os b1 nsame ns rest h base. unfold on_blocks.
  rewrite (eq_refl : bitcoind_reorg_disconnects_own_hash = true).
  exact (poller_handover_emits t o os b1 nsame ns rest h base).
Qed.
Print Assumptions C15_bitcoind_poller_handover.

(** Composition with the wallet: a wallet consistent with the old best chain
    that is handed what the client emits for the new tip ends consistent with
    the new best chain - synced-to is the new tip, the stored hashes are those
    of the new chain, no transaction stays confirmed in a detached block. *)
Theorem C15_wallet_follows_bitcoind_reorg : forall hdr t anc o os nhi nsame ns base lo w,
  let h := tip_height (anc ++ rev (o :: os)) in
  let c := anc ++ rev (o :: os) in
  let e := evo_of (o :: os) (nhi ++ nsame :: ns) in
  anc <> [] ->
  dlinked t (o :: os) h base ->
  dlinked t (nhi ++ nsame :: ns) (h + Z.of_nat (length nhi)) base ->
  differ os ns ->
  consistent hdr c lo w -> chain_synced w = true -> valid_evo hdr c lo e ->
  exists stream best w',
    reorg t (meta_of h o) (bh (new_tip nhi nsame)) = Some (stream, best) /\
    m_hash best = bh (new_tip nhi nsame) /\
    run hdr stream w = (w', false) /\ chain_synced w' = true /\
    consistent hdr (anc ++ rev (nhi ++ nsame :: ns))
      (Z.max lo (tip_height (anc ++ rev (nhi ++ nsame :: ns)) - max_reorg_depth + 1)) w'.
Proof.
  intros hdr t anc o os nhi nsame ns base lo w. unfold reorg.
  rewrite (eq_refl : bitcoind_reorg_disconnects_own_hash = true).
  exact (wallet_follows_bitcoind_reorg hdr t anc o os nhi nsame ns base lo w eq_refl).
Qed.
Print Assumptions C15_wallet_follows_bitcoind_reorg.

(** What the pinned code did (fact [false]): old branch 4,5 above block 3, new
    branch 6,7,8: the second BlockDisconnected carries hash 3 - the common
    ancestor's - at height 3 instead of hash 4; the wallet ignores a
    disconnect whose hash is not the one it stored, so the transactions of
    block 4 stayed confirmed there (replay corpus/C15/bd_*.json). *)
Theorem C15_bitcoind_reorg_refuted_at_pinned :
  reorg_with false t_ex {| m_height := 4; m_hash := 5%N; m_time := 104 |} 8%N =
  Some ([NDisconnect {| m_height := 4; m_hash := 5%N; m_time := 104 |};
         NDisconnect {| m_height := 3; m_hash := 3%N; m_time := 103 |};
         NConnect {| m_height := 3; m_hash := 6%N; m_time := 113 |};
         NConnect {| m_height := 4; m_hash := 7%N; m_time := 114 |};
         NConnect {| m_height := 5; m_hash := 8%N; m_time := 115 |}],
        {| m_height := 5; m_hash := 8%N; m_time := 115 |}) /\
  reorg_with true t_ex {| m_height := 4; m_hash := 5%N; m_time := 104 |} 8%N =
  Some ([NDisconnect {| m_height := 4; m_hash := 5%N; m_time := 104 |};
         NDisconnect {| m_height := 3; m_hash := 4%N; m_time := 103 |};
         NConnect {| m_height := 3; m_hash := 6%N; m_time := 113 |};
         NConnect {| m_height := 4; m_hash := 7%N; m_time := 114 |};
         NConnect {| m_height := 5; m_hash := 8%N; m_time := 115 |}],
        {| m_height := 5; m_hash := 8%N; m_time := 115 |}).
Proof. exact reorg_refuted_at_pinned. Qed.
Print Assumptions C15_bitcoind_reorg_refuted_at_pinned.

(** The premises of [C15_bitcoind_reorg_emits_the_evolution] are satisfiable:
    the tree above, ancestor chain 1,2,3, old branch 5,4, new branch 8,7,6. *)
Example C15_bitcoind_nonvacuous :
  let b (i : N) (tm : Z) := {| bh := i; bt := tm |} in
  let anc := [b 1%N 100; b 2%N 101; b 3%N 102] in
  tip_height (anc ++ rev [b 5%N 104; b 4%N 103]) = 4 /\
  anc <> [] /\
  dlinked t_ex [b 5%N 104; b 4%N 103] 4 3%N /\
  dlinked t_ex ([b 8%N 115] ++ b 7%N 114 :: [b 6%N 113]) (4 + 1) 3%N /\
  differ [b 4%N 103] [b 6%N 113].
Proof.
  cbv zeta. split; [reflexivity|]. split; [discriminate|].
  split; [|split].
  - repeat split; vm_compute; reflexivity.
  - repeat split; vm_compute; reflexivity.
  - split; [discriminate|exact I].
Qed.

(** * The bitcoind client's RESCAN under a reorganisation during the rescan

    A wallet that starts against a bitcoind backend is brought to the node's
    tip by BitcoindClient.rescan (model Sync/BitcoindRescan.v, proofs
    Sync/BitcoindRescanProofs.v).  Premise regenerated from the source:
    [bitcoind_rescan_steps_down = true] - the walk back decrements the loop
    height for every block it disconnects and asks the node for the header
    below the start block as soon as its header list is empty.

    The rescan has notified the old branch [old_top] (tip first, above the
    common ancestor [fork], all still in its header list); the node's best
    chain is now [fork], [rev new_low] (new blocks at the heights of
    [old_top], pairwise different from them), then [nb :: new_high].  For
    every such tree, every depth and every length of the new branch, the loop
    emits exactly [emit c e]: one BlockDisconnected per notified block of the
    old branch, tip first, each with its own hash and height, then one
    BlockConnected per block of the new branch upward. *)
Theorem C15_bitcoind_rescan_follows_reorg : forall t anc fork rest deeper old_top new_low nb new_high,
  let c := anc ++ rev old_top in
  let j := tip_height c in
  let new := rev new_low ++ nb :: new_high in
  let e := evo_of old_top (rev new) in
  dlinked t old_top j (bh fork) ->
  alinked t (bh fork) (j - Z.of_nat (length old_top) + 1) new ->
  differ2 old_top new_low ->
  exists s',
    rescan t
      {| r_prev := top_hash old_top (bh fork); r_prevh := j;
         r_stack := stk j old_top ++ (bh fork, j - Z.of_nat (length old_top)) :: rest;
         r_i := j + 1; r_below := map bh new_low ++ bh fork :: deeper; r_above := map bh (nb :: new_high) |} =
    Some (emit c e, s').
Proof.
  intros t anc fork rest deeper old_top new_low nb new_high. unfold rescan.
  rewrite (eq_refl : bitcoind_rescan_steps_down = true).
  exact (rescan_is_emit t anc fork rest deeper old_top new_low nb new_high).
Qed.
Print Assumptions C15_bitcoind_rescan_follows_reorg.

(** The general case: the header list [st] may stop anywhere above the common
    ancestor - the rescan started there ([stack_agrees st j old_top fork]: as far as
    it goes, it lists the blocks of the old branch downwards and then the
    ancestor).  When it runs out during the walk back the loop asks the node
    for the headers below (the node knows the ancestor with its height).  A
    reorganisation that reaches BELOW the block the rescan started from is
    therefore covered: same stream, [emit c e]. *)
Theorem C15_bitcoind_rescan_follows_reorg_from_any_start : forall t anc fork fhd deeper old_top new_low nb new_high st,
  let c := anc ++ rev old_top in
  let j := tip_height c in
  let new := rev new_low ++ nb :: new_high in
  let e := evo_of old_top (rev new) in
  t !! bh fork = Some fhd -> p_height fhd = j - Z.of_nat (length old_top) ->
  dlinked t old_top j (bh fork) ->
  alinked t (bh fork) (j - Z.of_nat (length old_top) + 1) new ->
  differ2 old_top new_low ->
  stack_agrees st j old_top fork ->
  exists s',
    rescan t
      {| r_prev := top_hash old_top (bh fork); r_prevh := j; r_stack := st;
         r_i := j + 1; r_below := map bh new_low ++ bh fork :: deeper; r_above := map bh (nb :: new_high) |} =
    Some (emit c e, s').
Proof.
  intros t anc fork fhd deeper old_top new_low nb new_high st. unfold rescan.
  rewrite (eq_refl : bitcoind_rescan_steps_down = true).
  exact (rescan_is_emit_gen t anc fork fhd deeper old_top new_low nb new_high st).
Qed.
Print Assumptions C15_bitcoind_rescan_follows_reorg_from_any_start.

(** Non-vacuity of the general case: rescan started at block 5 (height 4),
    which is itself replaced: header list [(5, 4)] only; old branch 5,4 above
    block 3; new branch 6,7,8. *)
Example C15_bitcoind_rescan_below_start_nonvacuous :
  let b (i : N) (tm : Z) := {| bh := i; bt := tm |} in
  t_ex !! 3%N = Some {| p_prev := 2%N; p_height := 2; p_time := 102 |} /\
  stack_agrees [(5%N, 4)] 4 [b 5%N 104; b 4%N 103] (b 3%N 102) /\
  exists s', rescan_with true t_ex
    {| r_prev := 5%N; r_prevh := 4; r_stack := [(5%N, 4)]; r_i := 5;
       r_below := [7%N; 6%N; 3%N; 2%N; 1%N]; r_above := [8%N] |} =
    Some ([NDisconnect {| m_height := 4; m_hash := 5%N; m_time := 104 |};
           NDisconnect {| m_height := 3; m_hash := 4%N; m_time := 103 |};
           NConnect {| m_height := 3; m_hash := 6%N; m_time := 113 |};
           NConnect {| m_height := 4; m_hash := 7%N; m_time := 114 |};
           NConnect {| m_height := 5; m_hash := 8%N; m_time := 115 |}], s').
Proof.
  cbv zeta. split; [vm_compute; reflexivity|]. split; [repeat split|].
  eexists. vm_compute. reflexivity.
Qed.

(** What the pinned code did (fact [false]): rescan from block 1, old branch
    2,3,4,5 notified, node now on 1,2,3,6,7,8: the walk back never leaves the
    loop height, disconnects every block down to the genesis block and fails
    on the request below it ([None]; replay corpus/C15/bd_rescan_*.json shows
    the stream of the real client); the repaired loop disconnects 5 and 4 and
    connects 6, 7, 8. *)
Theorem C15_bitcoind_rescan_refuted_at_pinned :
  rescan_with false t_ex rs_ex = None /\
  (exists s' out, rescan_with true t_ex rs_ex = Some (out, s') /\
     disconnected out = [(4, 5%N); (3, 4%N)] /\
     out = [NDisconnect {| m_height := 4; m_hash := 5%N; m_time := 104 |};
            NDisconnect {| m_height := 3; m_hash := 4%N; m_time := 103 |};
            NConnect {| m_height := 3; m_hash := 6%N; m_time := 113 |};
            NConnect {| m_height := 4; m_hash := 7%N; m_time := 114 |};
            NConnect {| m_height := 5; m_hash := 8%N; m_time := 115 |}]).
Proof. exact rescan_refuted_at_pinned. Qed.
Print Assumptions C15_bitcoind_rescan_refuted_at_pinned.

(** The premises of [C15_bitcoind_rescan_follows_reorg] are satisfiable: tree
    [t_ex], fork = block 3 at height 2, old branch 5,4, new branch 6,7 then 8. *)
Example C15_bitcoind_rescan_nonvacuous :
  let b (i : N) (tm : Z) := {| bh := i; bt := tm |} in
  let anc := [b 1%N 100; b 2%N 101; b 3%N 102] in
  tip_height (anc ++ rev [b 5%N 104; b 4%N 103]) = 4 /\
  dlinked t_ex [b 5%N 104; b 4%N 103] 4 3%N /\
  alinked t_ex 3%N (4 - 2 + 1) (rev [b 7%N 114; b 6%N 113] ++ b 8%N 115 :: []) /\
  differ2 [b 5%N 104; b 4%N 103] [b 7%N 114; b 6%N 113].
Proof.
  cbv zeta. split; [reflexivity|]. split; [|split].
  - repeat split; vm_compute; reflexivity.
  - repeat split; vm_compute; reflexivity.
  - repeat split; discriminate.
Qed.

(** * Non-vacuity *)

(** A reorganisation of depth 3 with wallet transactions in the replaced
    blocks (tx 1 is mined again in the new branch, tx 2 and the coinbase 9 are
    not), one transaction announced ahead of its block, a repeated disconnect
    of an already disconnected block, a disconnect for a future height and a
    redundant transaction notification: all premises of
    [C15_follows_evolution] hold, and the run ends at the new tip with the
    store rolled back. *)
Example C15_nonvacuous :
  let c0 := [ex_blk 1] in
  let e1 := {| e_depth := 0; e_new :=
      [ex_plain 2; ex_plain 3;
       {| nb_blk := ex_blk 4; nb_pre := [(1, false)]; nb_post := [] |};
       {| nb_blk := ex_blk 5; nb_pre := []; nb_post := [(9, true)] |};
       {| nb_blk := ex_blk 6; nb_pre := []; nb_post := [(2, false)] |}]%N |} in
  let c1 := apply_evo c0 e1 in
  let e2 := {| e_depth := 3; e_new :=
      [ex_plain 7;
       {| nb_blk := ex_blk 8; nb_pre := [(1, false)]; nb_post := [(3, false)] |};
       ex_plain 9; ex_plain 10]%N |} in
  let m (h : Z) (i : nat) := meta_of h (ex_blk i) in
  let stream :=
    [NDisconnect (m 5 6%nat);
     NDisconnect (m 5 6%nat);                              (* repeated *)
     NDisconnect (m 4 5%nat);
     NDisconnect {| m_height := 9; m_hash := 77; m_time := 0 |};   (* future height, unknown block *)
     NDisconnect (m 3 4%nat);
     NConnect (m 3 7%nat);
     NDisconnect (m 3 4%nat);                              (* stale: replaced block *)
     NTx 1 false (Some (m 4 8%nat));                       (* ahead of its block *)
     NConnect (m 4 8%nat);
     NTx 3 false (Some (m 4 8%nat));
     NTx 3 false (Some (m 4 8%nat));                       (* redundant *)
     NConnect (m 5 9%nat);
     NConnect (m 6 10%nat)] in
  let w0 := set_chain_synced true (new_wallet (ex_blk 1)) in
  valid_evo ex_hdr c0 0 e1 /\ valid_evo ex_hdr c1 0 e2 /\
  noisy ex_hdr {| nc := c1; npend := None; nlo := 0 |} (emit c1 e2) stream /\
  exists w1 w2,
    run_with true ex_hdr (emit c0 e1) w0 = (w1, false) /\
    map (fun r => (r_tx r, r_height r, r_hash r)) (mined w1) = [(1%N, 3, 4%N); (9%N, 4, 5%N); (2%N, 5, 6%N)] /\
    run_with true ex_hdr stream w1 = (w2, false) /\
    synced w2 = m 6 10%nat /\
    map (fun h => hashes w2 !! h) [2; 3; 4; 5; 6] = [Some 3; Some 7; Some 8; Some 9; Some 10]%N /\
    map (fun r => (r_tx r, r_height r, r_hash r)) (mined w2) = [(1%N, 4, 8%N); (3%N, 4, 8%N)] /\
    unmined w2 = [2]%N.
Proof.
  cbv zeta. split; [|split; [|split]].
  - split; [simpl; lia|]. split; [by left|]. intros b Hb. simpl in Hb.
    repeat (apply elem_of_cons in Hb as [->|Hb]; [vm_compute; eauto|]). by apply elem_of_nil in Hb.
  - split; [simpl; lia|]. split; [by right|]. intros b Hb. simpl in Hb.
    repeat (apply elem_of_cons in Hb as [->|Hb]; [vm_compute; eauto|]). by apply elem_of_nil in Hb.
  - vm_compute emit. vm_compute apply_evo.
    eapply noisy_keep; [vm_compute; reflexivity|].
    eapply noisy_add; [vm_compute; reflexivity|].
    eapply noisy_keep; [vm_compute; reflexivity|].
    eapply noisy_add; [vm_compute; reflexivity|].
    eapply noisy_keep; [vm_compute; reflexivity|].
    eapply noisy_keep; [vm_compute; reflexivity|].
    eapply noisy_add; [vm_compute; reflexivity|].
    eapply noisy_keep; [vm_compute; reflexivity|].
    eapply noisy_keep; [vm_compute; reflexivity|].
    eapply noisy_keep; [vm_compute; reflexivity|].
    eapply noisy_add; [vm_compute; reflexivity|].
    eapply noisy_keep; [vm_compute; reflexivity|].
    eapply noisy_keep; [vm_compute; reflexivity|].
    apply noisy_nil.
  - eexists. eexists. split; [vm_compute; reflexivity|]. vm_compute. repeat split.
Qed.

(** Start-up after an offline reorganisation of depth 2 (tx 2 was confirmed
    in a replaced block): the loop stops at the fork point, height 3. *)
Example C15_nonvacuous_startup :
  let p := map ex_blk [1; 2; 3; 4]%nat in
  let a := map ex_blk [5; 6]%nat in
  let b := map ex_blk [7; 8; 9]%nat in
  let w := {| synced := meta_of 5 (ex_blk 6);
              hashes := list_to_map [(0, 1%N); (1, 2%N); (2, 3%N); (3, 4%N); (4, 5%N); (5, 6%N)];
              birthday_set := true; bday := meta_of 0 (ex_blk 1); chain_synced := false;
              mined := [{| r_tx := 1%N; r_height := 3; r_hash := 4%N; r_cb := false |};
                        {| r_tx := 2%N; r_height := 4; r_hash := 5%N; r_cb := false |}];
              unmined := [] |} in
  diverge a b /\ disc_ok 0 (tip_height p + 1) = true /\
  exists w', sync_rollback (p ++ b) ex_hdr w = (w', false) /\
    synced w' = meta_of 3 (ex_blk 4) /\
    map r_tx (mined w') = [1%N] /\ unmined w' = [2%N].
Proof.
  cbv zeta. split; [|split; [reflexivity|]].
  - intros i x y Hx Hy. destruct i as [|[|[|i]]]; simpl in *; simplify_eq; done.
  - eexists. split; [vm_compute; reflexivity|]. vm_compute. repeat split.
Qed.

(** First start of a new wallet on a chain of 7 blocks, located birthday
    block 3; tx 1 is found by the rescan in block 5. *)
Example C15_nonvacuous_first_sync :
  let B := map ex_blk [1; 2; 3; 4; 5; 6; 7]%nat in
  let loc := meta_of 3 (ex_blk 4) in
  let w := new_wallet (ex_blk 1) in
  exists w0 w1 w2,
    startup true B ex_hdr loc w = (w0, false) /\ synced w0 = loc /\ bday w0 = loc /\
    run_with true ex_hdr [NTx 1 false (Some (meta_of 5 (ex_blk 6)))] w0 = (w1, false) /\
    rescan_finished B ex_hdr 6 w1 = (w2, false) /\
    synced w2 = meta_of 6 (ex_blk 7) /\
    map (fun h => hashes w2 !! h) [0; 1; 2; 3; 4; 5; 6] = [Some 1; None; None; Some 4; Some 5; Some 6; Some 7]%N /\
    map r_tx (mined w2) = [1%N].
Proof.
  cbv zeta. eexists _, _, _.
  split; [vm_compute; reflexivity|]. split; [vm_compute; reflexivity|]. split; [vm_compute; reflexivity|].
  split; [vm_compute; reflexivity|]. split; [vm_compute; reflexivity|].
  vm_compute. repeat split.
Qed.

(** The start-up rollback crosses the birthday block: a wallet whose birthday
    block is block 1 (height 1), synced to height 3; offline every block
    above genesis was replaced.  The loop stops at genesis, the birthday
    block becomes the genesis block, tx 2 (confirmed at height 2) is
    unconfirmed again. *)
Example C15_nonvacuous_birthday_crossed :
  let p := [ex_blk 1] in
  let a := map ex_blk [2; 3; 4]%nat in
  let b := map ex_blk [5; 6; 7]%nat in
  let w := {| synced := meta_of 3 (ex_blk 4);
              hashes := list_to_map [(0, 1%N); (1, 2%N); (2, 3%N); (3, 4%N)];
              birthday_set := true; bday := meta_of 1 (ex_blk 2); chain_synced := false;
              mined := [{| r_tx := 2%N; r_height := 2; r_hash := 3%N; r_cb := false |}];
              unmined := [] |} in
  diverge a b /\ disc_ok 0 (tip_height p + 1) = true /\ crosses_birthday (meta_of 0 (ex_blk 1)) w = true /\
  exists w', sync_rollback (p ++ b) ex_hdr w = (w', false) /\
    synced w' = meta_of 0 (ex_blk 1) /\ bday w' = meta_of 0 (ex_blk 1) /\
    mined w' = [] /\ unmined w' = [2%N].
Proof.
  cbv zeta. split; [|split; [reflexivity|split; [reflexivity|]]].
  - intros i x y Hx Hy. destruct i as [|[|[|i]]]; simpl in *; simplify_eq; done.
  - eexists. split; [vm_compute; reflexivity|]. vm_compute. repeat split.
Qed.

(** The two partial cases: the backend two blocks lower than the wallet; and
    a wallet that remembers heights 0 and 3..5 (birthday block at 3) whose
    chain was replaced from height 2 up. *)
Example C15_nonvacuous_partial :
  let w := {| synced := meta_of 5 (ex_blk 6);
              hashes := list_to_map [(0, 1%N); (3, 4%N); (4, 5%N); (5, 6%N)];
              birthday_set := true; bday := meta_of 3 (ex_blk 4); chain_synced := false;
              mined := []; unmined := [] |} in
  sync_rollback (map ex_blk [1; 2; 3; 4]%nat) ex_hdr w = (w, true) /\
  sync_rollback (map ex_blk [1; 2; 8; 9; 10; 11; 12]%nat) ex_hdr w = (w, true).
Proof. cbv zeta. split; vm_compute; reflexivity. Qed.

(** Finding S16 on the model (corpus/C15/s16_recovery_before_rollback.json):
    the wallet is at height 5 on blocks 1..6 (tx 2 confirmed at height 4, tx 3
    at height 5); offline, heights 3..5 were replaced and three more blocks
    mined (tx 2 again at height 4, tx 4 at height 7).  Recovery first: the
    attempt succeeds, synced-to is the backend's tip (8, #12), heights 3..5
    still hold the old hashes, tx 2 and tx 3 stay confirmed in the old blocks.
    Rollback loop first: the wallet goes back to height 2 and recovery finds
    tx 2 and tx 4 on the new branch. *)
Example C15_nonvacuous_recovery :
  let old := map ex_blk [1; 2; 3; 4; 5; 6]%nat in
  let B := map ex_blk [1; 2; 3; 7; 8; 9; 10; 11; 12]%nat in
  let w := {| synced := meta_of 5 (ex_blk 6);
              hashes := list_to_map [(0, 1%N); (1, 2%N); (2, 3%N); (3, 4%N); (4, 5%N); (5, 6%N)];
              birthday_set := true; bday := meta_of 0 (ex_blk 1); chain_synced := false;
              mined := [{| r_tx := 2%N; r_height := 4; r_hash := 5%N; r_cb := false |};
                        {| r_tx := 3%N; r_height := 5; r_hash := 6%N; r_cb := false |}];
              unmined := [] |} in
  let txs : list rtx := [(2%N, false, meta_of 4 (ex_blk 8)); (4%N, false, meta_of 7 (ex_blk 11))] in
  let loc := meta_of 0 (ex_blk 1) in
  (exists w', startup_rec_with true false true B ex_hdr loc txs w = (w', false) /\
     synced w' = meta_of 8 (ex_blk 12) /\
     map (fun h => hashes w' !! h) [2; 3; 4; 5; 6] = [Some 3; Some 4; Some 5; Some 6; Some 10]%N /\
     map (fun r => (r_tx r, r_height r, r_hash r)) (mined w') = [(2%N, 4, 5%N); (3%N, 5, 6%N); (4%N, 7, 11%N)]) /\
  (exists w', startup_rec_with false false true B ex_hdr loc txs w = (w', false) /\
     synced w' = meta_of 8 (ex_blk 12) /\
     map (fun h => hashes w' !! h) [2; 3; 4; 5; 6] = [Some 3; Some 7; Some 8; Some 9; Some 10]%N /\
     map (fun r => (r_tx r, r_height r, r_hash r)) (mined w') = [(2%N, 4, 8%N); (4%N, 7, 11%N)] /\
     unmined w' = [3%N]).
Proof.
  cbv zeta. split.
  - eexists. split; [vm_compute; reflexivity|]. vm_compute. repeat split.
  - eexists. split; [vm_compute; reflexivity|]. vm_compute. repeat split.
Qed.

(** * Composition with the transaction-store development (Sync/SyncStore.v)

    The handlers' effect on the transaction store is a history of
    [Tx.Hist.event]s ([store_events], [startup_events]); the statements below
    are about the model of the REAL store ([Tx.Store], run by [Hist.run] on
    that history) and the ledger ([Hist.spec_run]), not about the
    (txid, block) projection kept in the wallet state of Sync/Sync.v. *)

(** The projection is the ledger: for any notification stream whose store
    history is chain-consistent, the wallet's confirmed records are exactly
    the ledger's confirmed facts; its unconfirmed records contain the
    ledger's unconfirmed set (the ledger additionally drops conflicting
    unconfirmed transactions with their descendants, and the unconfirmed
    descendants of detached coinbase transactions). *)
Theorem C15_projection_follows_ledger : forall U hdr l w m,
  agrees U w (Hist.fs m) -> Forall (flag_ok U) l ->
  Hist.consistent_from U m (run_events hdr l w) = true ->
  agrees U (run hdr l w).1 (Hist.fs (foldl (Hist.spec_step U) m (run_events hdr l w))).
Proof. intros U hdr l. exact (projection_follows_ledger U hdr l). Qed.
Print Assumptions C15_projection_follows_ledger.

(** Every history of a wallet that follows a placed best chain - valid
    evolutions with stale disconnects interleaved, unconfirmed notifications,
    offline periods; wallet transactions placed consistently with the
    universe ([placed_ok]: each transaction once on the best chain, no double
    spend, parents first, coinbase first in its block, unique block hashes) -
    is a history the abstract validating node of Tx/Node.v emits, hence
    chain-consistent; the Sync invariant holds and the projection is the ledger. *)
Theorem C15_store_history_consistent : forall U hdr pc lo w evs,
  follows U hdr pc lo w evs ->
  Node.emits U evs /\ Hist.chain_consistent U evs = true /\
  consistent hdr (chain_of pc) lo w /\ chain_synced w = true /\
  agrees U w (Hist.fs (Hist.spec_run U evs)).
Proof.
  intros U hdr pc lo w evs H.
  destruct (follows_emits U hdr eq_refl _ _ _ _ H) as [He Hc].
  destruct (follows_sim U hdr eq_refl _ _ _ _ H) as [[Hs1 Hs2 _] Ha]. done.
Qed.
Print Assumptions C15_store_history_consistent.

(** The ledger's confirmed facts are exactly the members of the placed best chain. *)
Theorem C15_ledger_confirmed_is_best_chain : forall U hdr pc lo w evs t h hash,
  follows U hdr pc lo w evs ->
  (Ledger.f_conf (Hist.fs (Hist.spec_run U evs)) !! t = Some (h, hash) <->
   1 <= h /\ exists nb, pc !! Z.to_nat h = Some nb /\ bh (nb_blk nb) = hash /\ t ∈ members nb).
Proof.
  intros U hdr pc lo w evs t h hash H.
  destruct (follows_sim U hdr eq_refl _ _ _ _ H) as [Hs _].
  destruct (sim_facts U hdr _ _ _ _ Hs) as [_ Hc]. apply Hc.
Qed.
Print Assumptions C15_ledger_confirmed_is_best_chain.

(** End to end, on the store model: after processing the notifications, every
    block that [tx_details] reports for a transaction is a block of the
    backend's best chain - the one the transaction is a member of - at a
    height the wallet is synced to. *)
Theorem C15_store_confirmed_only_on_best_chain : forall U hdr pc lo w evs t d h hash,
  Hist.wf_universe U = true -> follows U hdr pc lo w evs ->
  Store.tx_details U (Hist.st (Hist.run U evs)) t = Some d ->
  Store.d_block d = Some (h, hash) ->
  on_chain (chain_of pc) h hash /\
  (exists nb, pc !! Z.to_nat h = Some nb /\ bh (nb_blk nb) = hash /\ t ∈ members nb) /\
  1 <= h <= m_height (synced w).
Proof.
  intros U hdr pc lo w evs t d h hash Hwf H.
  destruct (follows_sim U hdr eq_refl _ _ _ _ H) as [Hs _].
  exact (store_confirmed_only_on_best_chain U hdr pc lo w evs t d h hash Hwf Hs).
Qed.
Print Assumptions C15_store_confirmed_only_on_best_chain.

(** The balance and the spendable set of the store model, at the wallet's own
    synced-to height, are those of the ledger whose confirmed facts are the
    placed best chain. *)
Theorem C15_wallet_balance_is_ledger_balance : forall U hdr pc lo w evs minconf,
  Hist.wf_universe U = true -> follows U hdr pc lo w evs -> 0 <= minconf ->
  let s := Hist.st (Hist.run U evs) in
  let F := Hist.fs (Hist.spec_run U evs) in
  let now := Hist.clock (Hist.run U evs) in
  Store.balance U s minconf (m_height (synced w)) now
    = Ledger.spec_balance U F minconf (m_height (synced w)) now /\
  Store.unspent_outputs U s now ≡ₚ Ledger.spec_utxos U F now.
Proof.
  intros U hdr pc lo w evs minconf Hwf H Hmc.
  destruct (follows_sim U hdr eq_refl _ _ _ _ H) as [Hs _].
  exact (wallet_balance_is_ledger_balance U hdr pc lo w evs minconf Hwf Hs Hmc).
Qed.
Print Assumptions C15_wallet_balance_is_ledger_balance.

(** Non-vacuity of the composition: the history of [C15_nonvacuous] (a
    reorganisation of depth 3; tx 1 confirmed in a replaced block and again in
    the new branch together with its child tx 3; tx 2 and the coinbase 9 only
    in replaced blocks; a repeated, a future-height and a replaced-block
    disconnect interleaved) over a concrete universe satisfies [follows];
    on the store model, tx 1 is reported in block (4, #8) of the new best
    chain, tx 2 is unconfirmed again, the coinbase 9 is gone. *)
Definition ex_tx (id : N) (ins : list (N * N)) (cb : bool) : Store.tx :=
  {| Store.t_id := id; Store.t_ins := ins; Store.t_outs := [1000]; Store.t_creds := [(0%N, false)];
     Store.t_coinbase := cb |}.
Definition ex_U : gmap N Store.tx :=
  Hist.universe_of_list [ex_tx 1 [(0, 0)%N] false; ex_tx 2 [(0, 1)%N] false; ex_tx 3 [(1, 0)%N] false; ex_tx 9 [] true].

Definition ex_e1 : evo := {| e_depth := 0; e_new :=
  [ex_plain 2; ex_plain 3;
   {| nb_blk := ex_blk 4; nb_pre := [(1, false)]; nb_post := [] |};
   {| nb_blk := ex_blk 5; nb_pre := []; nb_post := [(9, true)] |};
   {| nb_blk := ex_blk 6; nb_pre := []; nb_post := [(2, false)] |}]%N |}.
Definition ex_e2 : evo := {| e_depth := 3; e_new :=
  [ex_plain 7;
   {| nb_blk := ex_blk 8; nb_pre := [(1, false)]; nb_post := [(3, false)] |};
   ex_plain 9; ex_plain 10]%N |}.
Definition ex_m (h : Z) (i : nat) : bmeta := meta_of h (ex_blk i).
Definition ex_stream : list ntfn :=
  [NDisconnect (ex_m 5 6%nat);
   NDisconnect (ex_m 5 6%nat);                                      (* repeated *)
   NDisconnect (ex_m 4 5%nat);
   NDisconnect {| m_height := 9; m_hash := 77; m_time := 0 |};      (* future height *)
   NDisconnect (ex_m 3 4%nat);
   NConnect (ex_m 3 7%nat);
   NDisconnect (ex_m 3 4%nat);                                      (* replaced block *)
   NTx 1 false (Some (ex_m 4 8%nat));
   NConnect (ex_m 4 8%nat);
   NTx 3 false (Some (ex_m 4 8%nat));
   NConnect (ex_m 5 9%nat);
   NConnect (ex_m 6 10%nat)].

Example C15_store_nonvacuous :
  let pc1 := papply [ex_plain 1] ex_e1 in
  Hist.wf_universe ex_U = true /\
  exists lo w evs d d2,
    follows ex_U ex_hdr (papply pc1 ex_e2) lo w evs /\
    Store.tx_details ex_U (Hist.st (Hist.run ex_U evs)) 1 = Some d /\ Store.d_block d = Some (4, 8%N) /\
    Store.tx_details ex_U (Hist.st (Hist.run ex_U evs)) 2 = Some d2 /\ Store.d_block d2 = None /\
    Store.tx_details ex_U (Hist.st (Hist.run ex_U evs)) 9 = None.
Proof.
  cbv zeta. split; [vm_compute; reflexivity|].
  set (w0 := set_chain_synced true (new_wallet (nb_blk (ex_plain 1)))).
  set (w1 := (run ex_hdr (emit (chain_of [ex_plain 1]) ex_e1) w0).1).
  set (w2 := (run ex_hdr ex_stream w1).1).
  assert (F0 : follows ex_U ex_hdr [ex_plain 1] 0 w0 []).
  { apply fo_init. vm_compute. eauto. }
  assert (Hok : forall pc, Node.chain_ok_b ex_U (node_chain pc) = true ->
                bool_decide (NoDup (Node.chain_hashes (node_chain pc))) = true -> placed_ok ex_U pc).
  { intros pc H1 H2. split; [by apply NodeProofs.chain_ok_b_sound|by apply bool_decide_eq_true in H2]. }
  assert (Hk : forall l, forallb (fun b => bool_decide (is_Some (ex_hdr !! bh b))) l = true -> headers_known ex_hdr l).
  { intros l H b Hb. rewrite forallb_forall in H. apply elem_of_list_In in Hb.
    specialize (H b Hb). by apply bool_decide_eq_true in H. }
  assert (F1 : follows ex_U ex_hdr (papply [ex_plain 1] ex_e1)
                 (Z.max 0 (tip_height (chain_of (papply [ex_plain 1] ex_e1)) - max_reorg_depth + 1)) w1
                 ([] ++ run_events ex_hdr (emit (chain_of [ex_plain 1]) ex_e1) w0)).
  { apply (fo_evolve ex_U ex_hdr _ _ _ _ ex_e1 (emit (chain_of [ex_plain 1]) ex_e1) w1 F0).
    - split; [simpl; lia|]. split; [by left|]. apply Hk. vm_compute. reflexivity.
    - apply Hok; vm_compute; reflexivity.
    - eapply stale_noisy_refl. vm_compute. reflexivity.
    - repeat constructor.
    - unfold w1. vm_compute. reflexivity. }
  eexists _, w2, _, _, _. split.
  - apply (fo_evolve ex_U ex_hdr _ _ _ _ ex_e2 ex_stream w2 F1).
    + split; [simpl; lia|]. split; [by right|]. apply Hk. vm_compute. reflexivity.
    + apply Hok; vm_compute; reflexivity.
    + vm_compute emit. vm_compute chain_of. vm_compute papply. unfold ex_stream.
      eapply sn_keep; [vm_compute; reflexivity|].
      eapply sn_stale; [vm_compute; reflexivity|vm_compute; discriminate|].
      eapply sn_keep; [vm_compute; reflexivity|].
      eapply sn_stale; [vm_compute; reflexivity|vm_compute; discriminate|].
      eapply sn_keep; [vm_compute; reflexivity|].
      eapply sn_keep; [vm_compute; reflexivity|].
      eapply sn_stale; [vm_compute; reflexivity|vm_compute; discriminate|].
      eapply sn_keep; [vm_compute; reflexivity|].
      eapply sn_keep; [vm_compute; reflexivity|].
      eapply sn_keep; [vm_compute; reflexivity|].
      eapply sn_keep; [vm_compute; reflexivity|].
      eapply sn_keep; [vm_compute; reflexivity|].
      apply sn_nil.
    + repeat constructor.
    + unfold w2, w1. vm_compute. reflexivity.
  - vm_compute. repeat split.
Qed.
