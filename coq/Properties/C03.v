(** C03 - Every issued address is the seed's BIP32 child and the wallet can sign
    for it.  Property theorems only; proofs are in Addr/MgrProofs.v.

    The theorems are about [step current], the address-manager model
    (Addr/Mgr.v) instantiated with what waddrmgr/scoped_manager.go says NOW
    (Generated/AddrFacts.v): [current] tells whether extendAddresses decides
    "derive from the account private key / queue for unlock" with the same
    watch-only test as nextAddresses.  The theorems about WHAT is derived hold
    for either value.  The theorems about the AVAILABILITY of private keys need
    [current = true]; that fact is discharged by computation ([source_fact]),
    so this file stops compiling when the source uses the inverted test, and
    [C03_refuted_when_false] shows that the statement is then indeed false.

    "For every history": [reach sl cg seed pass st] = [st] is reached from
    waddrmgr.Create(seed) by any sequence of the modelled operations
    (restart, unlock/lock with any passphrase, passphrase change, new scope,
    new account, imported xpub account, next addresses, extend, lookup, mark
    used, derive from path, import private key / public key / script (P2SH,
    witness, taproot; secret or public), change of the private or the public
    passphrase, getters), account creation being considered only in scopes
    whose last-account counter is initialised ([adm]; see
    [custom_scope_account_zero_reused] for what happens otherwise).
    Keys are symbolic (root + derivation path): a name denotes the key the
    SPECIFICATION assigns to the path (rule of every hardened step:
    [Keys.spec_rule]); the model tracks how hdkeychain holds every parent key
    and leaves the key tree as soon as a hardened step is made with another
    rule ([Keys.ckd], worst case [all_lz]), so "the address encodes the key
    named by its path" includes "every hardened step on the way followed the
    specified rule" - [C03_rule_*] state this per step, for every assignment of
    leading zero bytes.  Which bytes a path denotes is checked on the real
    code by the harness' independent oracle (harness/internal/hdoracle). *)
From Verif Require Import Base.Prelude Addr.Keys Addr.Mgr Addr.MgrProofs Generated.AddrFacts.
Local Open Scope N_scope.

Definition sl : bool := new_scope_stores_last_account.
Definition cg : bool := derive_cache_checks_account_key.
Definition current : facts := mkFacts extend_derives_private_when_unlocked sl cg.

(** The source fact the theorems depend on (Generated/AddrFacts.v, regenerated
    from waddrmgr/scoped_manager.go on every run): extendAddresses uses the
    same watch-only test as nextAddresses.  (The other regenerated facts may
    have either value: [sl] = whether NewScopedKeyManager stores the new
    scope's lastAccount only decides which histories are admissible, see [adm];
    [cg] = whether DeriveFromKeyPathCache looks at the account private key
    before deriving privately only decides between an error and a nil
    dereference for watch-only accounts.) *)
Lemma source_fact : current = mkFacts true sl cg.
Proof. exact eq_refl. Qed.

(** Accounts created from the seed hold the key m/purpose'/coin'/account'
    (as xpub and, encrypted, as xprv); imported accounts hold the imported
    xpub and no private key. *)
Theorem C03_account_keys : forall seed pass st s a row,
  reach sl cg seed pass st -> aget sa_dec (d_accts (st_disk st)) (s, a) = Some row ->
  match ar_kind row with
  | ADefault => ar_pub row = acct_key seed (fst s) (snd s) a /\ ar_priv row = Some (ar_pub row) /\ ar_schema row = None
  | AWatchOnly => (exists x cn, ar_pub row = xpub_key x cn) /\ ar_priv row = None
  end.
Proof. exact (account_keys sl cg). Qed.
Print Assumptions C03_account_keys.

(** NextExternalAddresses / NextInternalAddresses(scope s, account a, n):
    the n addresses returned have exactly the indices next, next+1, ...,
    next+n-1 where next is the number issued so far on that branch, and the
    stored count becomes next+n; each address encodes, in the format of the
    scope's (or the account's overriding) schema for that branch, the public
    key CKDpub(CKDpub(account key, branch), index); the reported derivation
    path (internal account, account child number, branch, index) and the
    internal flag are the true ones. *)
Theorem C03_next_addresses : forall seed pass st s a internal n st' rs row sch,
  reach sl cg seed pass st -> step current st (ONext s a internal n) = (st', OutAddrs rs) ->
  acct_of st' s a row sch ->
  let branch := if internal then internal_branch else external_branch in
  let next := disk_next (st_disk st) s a internal in
  disk_next (st_disk st') s a internal = next + n /\
  Forall2 (fun r idx => exists i, r = RKey i /\ chain_info_ok row sch s a branch idx i /\
                                  dp_acct (r_path i) = child_num (ar_pub row) /\
                                  r_pub i = ckd_pub (ckd_pub (Pub (ar_pub row)) branch) idx)
          rs (index_range next (N.to_nat n)).
Proof. rewrite source_fact. exact (next_addresses_correct sl cg). Qed.
Print Assumptions C03_next_addresses.

(** Indices are issued consecutively without repetition: the stored count of
    an existing account's branch is changed by NextAddresses (+n, returning
    exactly those indices) and by Extend (raised to last+1) and by nothing
    else - not by lookups, locking, restart, imports or account creation. *)
Theorem C03_indices_only_move_by_issuing : forall seed pass st o s a i row,
  reach sl cg seed pass st -> adm st o = true -> aget sa_dec (d_accts (st_disk st)) (s, a) = Some row ->
  disk_next (st_disk (fst (step current st o))) s a i =
  match o, snd (step current st o) with
  | ONext s' a' i' n, OutAddrs _ =>
    if sab_dec (s, a, i) (s', a', i') then disk_next (st_disk st) s a i + n else disk_next (st_disk st) s a i
  | OExtend s' a' i' last, OutOk =>
    if sab_dec (s, a, i) (s', a', i') then N.max (disk_next (st_disk st) s a i) (last + 1)
    else disk_next (st_disk st) s a i
  | _, _ => disk_next (st_disk st) s a i
  end.
Proof. rewrite source_fact. exact (index_frame sl cg). Qed.
Print Assumptions C03_indices_only_move_by_issuing.

(** Manager.Address (lookup later, after extend, after restart): the managed
    address found stands for the queried address, and if it is a chain address
    it is the child of its account key at its reported, true path. *)
Theorem C03_lookup : forall seed pass st ad st' r,
  reach sl cg seed pass st -> step current st (OLookup ad) = (st', OutAddrs [r]) ->
  rinfo_akey r = addr_key ad /\
  forall i row sch, r = RKey i -> r_imported i = false -> acct_of st' (r_scope i) (r_iacct i) row sch ->
    chain_info_ok row sch (r_scope i) (r_iacct i) (dp_branch (r_path i)) (dp_index (r_path i)) i /\
    dp_acct (r_path i) = child_num (ar_pub row).
Proof. rewrite source_fact. exact (lookup_correct sl cg). Qed.
Print Assumptions C03_lookup.

(** DeriveFromKeyPath. *)
Theorem C03_derive_from_path : forall seed pass st s p st' r row sch,
  reach sl cg seed pass st -> step current st (ODerive s p) = (st', OutAddrs [r]) ->
  acct_of st' s (dp_iacct p) row sch ->
  exists i, r = RKey i /\ r_path i = p /\ chain_info_ok row sch s (dp_iacct p) (dp_branch p) (dp_index p) i.
Proof. rewrite source_fact. exact (derive_correct sl cg). Qed.
Print Assumptions C03_derive_from_path.

(** Two wallets created independently from the same seed (any passphrases, any
    histories): every seed-derived account they both have holds the key the
    specification assigns to m/purpose'/coin'/account' (a function of seed and
    path alone), and where the scope has the same address schema in both - the
    schema is an input: a constant of Create for the default scopes, the
    argument of NewScopedKeyManager otherwise - the address of every branch and
    index is the same in both.  With [C03_next_addresses] (indices are issued
    0, 1, 2, ... on every branch): the re-created wallet issues the same
    addresses in the same order. *)
Theorem C03_recreated_wallet_same_addresses : forall seed pass1 pass2 st1 st2 s a row1 row2 sch b i,
  reach sl cg seed pass1 st1 -> reach sl cg seed pass2 st2 ->
  acct_of st1 s a row1 sch -> acct_of st2 s a row2 sch ->
  ar_kind row1 = ADefault -> ar_kind row2 = ADefault ->
  ar_pub row1 = acct_key seed (fst s) (snd s) a /\ ar_pub row2 = acct_key seed (fst s) (snd s) a /\
  chain_addr sch row1 b i = chain_addr sch row2 b i.
Proof. exact (same_seed_same_addresses sl cg sl cg). Qed.
Print Assumptions C03_recreated_wallet_same_addresses.

(** The rule of every hardened step, for EVERY assignment [lz] of leading zero
    bytes to private keys: DeriveNonStandard on the parent as the wallet holds
    it (full width when it comes from NewMaster or was read back from the
    database, shortened when it is the result of the step before) IS the rule
    the specification demands at that step, hence yields the specified child. *)
Theorem C03_rule_purpose_step : forall lz seed pu,
  spec_rule (master seed) (pu + hardened_start) = Std /\
  ckd lz (rule_of_width Full) (master seed) (pu + hardened_start) = child (master seed) pu true.
Proof. exact rule_purpose_step. Qed.
Print Assumptions C03_rule_purpose_step.

Theorem C03_rule_coin_step : forall lz seed pu co,
  spec_rule (child (master seed) pu true) (co + hardened_start) = Leg /\
  ckd lz (rule_of_width Short) (child (master seed) pu true) (co + hardened_start) = coin_key seed pu co.
Proof. exact rule_coin_step. Qed.
Print Assumptions C03_rule_coin_step.

Theorem C03_rule_account0_step : forall lz seed pu co,
  spec_rule (coin_key seed pu co) (0 + hardened_start) = Leg /\
  ckd lz (rule_of_width Short) (coin_key seed pu co) (0 + hardened_start) = acct_key seed pu co 0.
Proof. exact rule_account0_step. Qed.
Print Assumptions C03_rule_account0_step.

Theorem C03_rule_later_account_step : forall lz seed pu co a,
  a <> 0 ->
  spec_rule (coin_key seed pu co) (a + hardened_start) = Std /\
  ckd lz (rule_of_width Full) (coin_key seed pu co) (a + hardened_start) = acct_key seed pu co a.
Proof. exact rule_later_account_step. Qed.
Print Assumptions C03_rule_later_account_step.

Theorem C03_rule_branch_step : forall lz seed pu co a b,
  spec_rule (acct_key seed pu co a) b = Std /\
  ckd lz (rule_of_width Full) (acct_key seed pu co a) b = raw_child (acct_key seed pu co a) b.
Proof. exact rule_branch_step. Qed.
Print Assumptions C03_rule_branch_step.

Theorem C03_rule_index_step : forall lz seed pu co a b i,
  spec_rule (raw_child (acct_key seed pu co a) b) i = Leg /\
  ckd lz (rule_of_width Short) (raw_child (acct_key seed pu co a) b) i = raw_child (raw_child (acct_key seed pu co a) b) i.
Proof. exact rule_index_step. Qed.
Print Assumptions C03_rule_index_step.

(** ... and the rule matters: below a private key with a leading zero byte a
    hardened step made at the other width yields another key. *)
Theorem C03_other_rule_other_key : forall lz w k i,
  is_hardened i = true -> lz k = true -> rule_of_width w <> spec_rule k i -> ckd lz (rule_of_width w) k i <> raw_child k i.
Proof. exact other_rule_other_key. Qed.
Print Assumptions C03_other_rule_other_key.

(** The model of createManagerKeyScope (three steps from the root key, each on
    the result of the one before) stores exactly the specified coin-type and
    account-0 keys ... *)
Theorem C03_create_scope_keys : forall seed pu co,
  let coin := hard_child (hard_child (XPriv (master seed) Full) pu) co in
  coin = XPriv (coin_key seed pu co) Short /\ hard_child coin 0 = XPriv (acct_key seed pu co 0) Short.
Proof. exact create_scope_keys. Qed.
Print Assumptions C03_create_scope_keys.

(** ... in the model's worst case, a derivation names the child iff it is
    unhardened or made with the specified rule, and then it names it for every
    assignment of leading zeros. *)
Theorem C03_on_spec_iff_rule : forall r k i,
  (ckd all_lz r k i = raw_child k i <-> (is_hardened i = false \/ r = spec_rule k i)) /\
  (ckd all_lz r k i = raw_child k i -> forall lz, ckd lz r k i = raw_child k i).
Proof. intros r k i. split; [exact (ckd_all_lz_iff r k i)|exact (ckd_all_lz r k i)]. Qed.
Print Assumptions C03_on_spec_iff_rule.

(** A private key that is returned is the key of the returned public key. *)
Theorem C03_private_key_never_wrong : forall seed pass st o st' rs i k,
  reach sl cg seed pass st -> adm st o = true -> step current st o = (st', OutAddrs rs) -> In (RKey i) rs ->
  (match o with ONext _ _ _ _ | OLookup _ | ODerive _ _ | OImportKey _ _ => True | _ => False end) ->
  r_priv i = POk k -> pub_of_priv k = r_pub i.
Proof. rewrite source_fact. exact (priv_never_wrong sl cg). Qed.
Print Assumptions C03_private_key_never_wrong.

(** Imported keys and scripts are returned unchanged, at import and later. *)
Theorem C03_imported_key_unchanged : forall seed pass st s k st' rs,
  reach sl cg seed pass st -> step current st (OImportKey s k) = (st', OutAddrs rs) ->
  exists i, rs = [RKey i] /\ r_imported i = true /\ r_pub i = Pub (imp_key k) /\ r_priv i = POk (Priv (imp_key k)).
Proof. rewrite source_fact. exact (imported_key_unchanged sl cg). Qed.
Print Assumptions C03_imported_key_unchanged.

Theorem C03_imported_key_later : forall seed pass st ad st' i,
  reach sl cg seed pass st -> step current st (OLookup ad) = (st', OutAddrs [RKey i]) -> r_imported i = true ->
  exists k po, r_pub i = Pub (imp_name po k) /\ addr_key (AKey (r_fmt i) (Pub (imp_name po k))) = addr_key ad /\
            (m_locked (st_mem st) = false -> r_priv i = if po then PErr EWatching else POk (Priv (imp_key k))).
Proof. rewrite source_fact. exact (imported_key_later sl cg). Qed.
Print Assumptions C03_imported_key_later.

(** ImportPublicKey (the scope's external format; needs no unlocked manager):
    the public key is returned unchanged and no private key is ever returned. *)
Theorem C03_imported_public_key_unchanged : forall seed pass st s k st' rs,
  reach sl cg seed pass st -> step current st (OImportPub s k) = (st', OutAddrs rs) ->
  exists i sch, rs = [RKey i] /\ r_imported i = true /\ r_pub i = Pub (imp_pub_key k) /\
                aget scope_eq_dec (m_scopes (st_mem st)) s = Some sch /\ r_fmt i = ext_fmt sch /\
                r_priv i = PErr (if m_locked (st_mem st) then ELocked else EWatching).
Proof. rewrite source_fact. exact (imported_pub_unchanged sl cg). Qed.
Print Assumptions C03_imported_public_key_unchanged.

(** Scripts (P2SH, witness, taproot; secret or public): returned unchanged at
    import; later, whenever the manager is unlocked, and at any time for a
    script imported as public. *)
Theorem C03_imported_script_unchanged : forall seed pass st s sc secret st' rs h oid sa,
  reach sl cg seed pass st ->
  (step current st (OImportScript s sc secret) = (st', OutAddrs rs) -> rs = [RScr s sc (SOk sc)]) /\
  (nth_error (m_handles (st_mem st)) h = Some oid -> nth_error (m_heap (st_mem st)) oid = Some (MScript sa) ->
   (m_locked (st_mem st) = false \/ sa_secret sa = false) -> snd (step current st (OScript h)) = OutScript (sa_script sa)).
Proof.
  rewrite source_fact. intros seed pass st s sc secret st' rs h oid sa R. split.
  - exact (imported_script_unchanged sl cg seed pass st s sc secret st' rs R).
  - exact (script_later sl cg seed pass st h oid sa R).
Qed.
Print Assumptions C03_imported_script_unchanged.

(* ------------------------------------------------------------------------- *)
(** What the inverted test in extendAddresses breaks (model instance
    [false]): unlock, extend the external branch of account 0 of the BIP84
    scope to index 2, look address 0 up: its PrivKey() fails with
    ErrWatchingOnly although the manager is unlocked and the account has its
    private key. *)
Theorem C03_refuted_when_false :
  exists (h : list op) (i : ainfo),
    let '(st, outs) := run (mkFacts false false false) (init 7 1) h in
    run_adm (mkFacts false false false) (init 7 1) h = true /\ m_locked (st_mem st) = false /\
    last outs OutOk = OutAddrs [RKey i] /\ r_imported i = false /\
    r_pub i = Pub (addr_skey (acct_key 7 84 0 0) 0 0) /\ r_priv i = PErr EWatching.
Proof.
  exists [OUnlock 1; OExtend (84, 0) 0 false 2; OLookup (AKey P2WKH (Pub (addr_skey (acct_key 7 84 0 0) 0 0)))].
  eexists. vm_compute. repeat split.
Qed.
Print Assumptions C03_refuted_when_false.

(** The same history on the instance [true]: the key is there. *)
Example extend_unlocked_when_true :
  exists i, last (snd (run (mkFacts true false false) (init 7 1)
        [OUnlock 1; OExtend (84, 0) 0 false 2; OLookup (AKey P2WKH (Pub (addr_skey (acct_key 7 84 0 0) 0 0)))])) OutOk
      = OutAddrs [RKey i] /\ r_priv i = POk (Priv (addr_skey (acct_key 7 84 0 0) 0 0)).
Proof. eexists. vm_compute. split; reflexivity. Qed.

(** Why account creation is restricted to scopes with an initialised counter
    ([adm]): NewScopedKeyManager does not store lastAccount, so the first
    NewAccount in a custom scope returns account 0 again and resets its stored
    next indices: after a restart index 0 is issued a second time. *)
Example custom_scope_account_zero_reused :
  let h := [OUnlock 1; ONewScope (1017, 0) (mkSchema P2WKH P2WKH); ONext (1017, 0) 0 false 2;
            ONewAccount (1017, 0) 11; OOpen; OProps (1017, 0) 0] in
  run_adm (mkFacts true false false) (init 7 1) h = false /\
  nth 3 (snd (run (mkFacts true false false) (init 7 1) h)) OutOk = OutAcct 0 /\
  nth 5 (snd (run (mkFacts true false false) (init 7 1) h)) OutOk = OutProps 0 0 /\
  (* when NewScopedKeyManager stores lastAccount: account 1, counts kept *)
  run_adm (mkFacts true true false) (init 7 1) h = true /\
  nth 3 (snd (run (mkFacts true true false) (init 7 1) h)) OutOk = OutAcct 1 /\
  nth 5 (snd (run (mkFacts true true false) (init 7 1) h)) OutOk = OutProps 2 0.
Proof. vm_compute. repeat split. Qed.

(** DESIGN S14 (repaired in the source): the address objects made by
    extendAddresses report the account row's MasterKeyFingerprint, like the ones
    made by nextAddresses and the ones reloaded after a restart. *)
Example extend_reports_fingerprint :
  let a1 := AKey P2WKH (Pub (addr_skey (xpub_key 3 2147483651) 0 1)) in
  let h := [OImportXpub (84, 0) 11 3 2147483651 77 None; OExtend (84, 0) 1 false 1; OLookup a1; OOpen; OLookup a1] in
  exists i j, nth 2 (snd (run (mkFacts true false false) (init 7 1) h)) OutOk = OutAddrs [RKey i] /\
              nth 4 (snd (run (mkFacts true false false) (init 7 1) h)) OutOk = OutAddrs [RKey j] /\
              r_path i = mkPath 1 2147483651 0 1 77 /\ r_path j = mkPath 1 2147483651 0 1 77.
Proof. do 2 eexists. vm_compute. repeat split. Qed.

(** Non-vacuity: a history through every kind of operation is admissible and
    ends unlocked with a private key returned for an address that was issued
    while locked. *)
Example C03_nonvacuous :
  let h := [ONext (84, 0) 0 false 2; ONext (49, 0) 0 true 1; OUnlock 1; ONewAccount (44, 0) 11;
            OImportXpub (86, 0) 12 5 2147483649 9 (Some (mkSchema NP2WKH NP2WKH)); ONext (86, 0) 1 false 1;
            ONewScope (1017, 0) (mkSchema P2TR P2PKH); OExtend (44, 0) 1 true 3; OImportKey (84, 0) 4;
            OImportScript (44, 0) 6 true; OImportScript (84, 0) 9 false; OImportPub (86, 0) 3; OChangePubPass 0 5;
            OChangePass 1 2; OLock; ODerive (84, 0) (mkPath 0 2147483648 1 5 0);
            OMarkUsed (AKey P2WKH (Pub (addr_skey (acct_key 7 84 0 0) 0 1))); OOpen; OUnlock 2;
            OLookup (AKey P2WKH (Pub (addr_skey (acct_key 7 84 0 0) 0 1))); OPriv 0; ODeriveCache (84, 0) (mkPath 0 2147483648 0 1 0)] in
  run_adm (mkFacts true false false) (init 7 1) h = true /\
  nth 20 (snd (run (mkFacts true false false) (init 7 1) h)) OutOk = OutKey (Priv (addr_skey (acct_key 7 84 0 0) 0 1)).
Proof. vm_compute. split; reflexivity. Qed.


(** The rest of the alphabet, on the model: a public key imported while locked
    (no private key, before and after a restart), a public witness script
    readable while locked and a secret one refused, a count of zero (the commit
    hook of the code indexes the last of zero addresses: a crash, modelled as
    [EPanic]), counts beyond MaxAddressesPerAccount refused, a hardened
    branch/index request refused while locked (public derivation) and answered
    with the specified hardened children while unlocked, the public passphrase
    changed (wrong old one refused). *)
Example C03_alphabet_nonvacuous :
  let h := [OImportPub (44, 0) 3; OImportScript (84, 0) 9 false; OScript 1; OImportScript (84, 0) 10 true;
            ONext (84, 0) 0 false 0; ONext (84, 0) 0 false 2147483648; OExtend (84, 0) 0 true 2147483648;
            ODerive (84, 0) (mkPath 0 2147483648 2147483648 1 0); OUnlock 1;
            ODerive (84, 0) (mkPath 0 2147483648 2147483648 2147483649 0); OChangePubPass 3 4; OChangePubPass 0 4; OOpen;
            OLookup (AKey P2PKH (Pub (imp_pub_key 3))); OUnlock 1; OPriv 0] in
  let outs := snd (run (mkFacts true true true) (init 7 1) h) in
  run_adm (mkFacts true true true) (init 7 1) h = true /\
  firstn 7 (skipn 1 outs) = [OutAddrs [RScr (84, 0) 9 (SOk 9)]; OutScript 9; OutErr ELocked; OutErr EPanic; OutErr ETooMany;
                             OutErr ETooMany; OutErr EKeyChain] /\
  (exists i, nth 9 outs OutOk = OutAddrs [RKey i] /\
             r_pub i = Pub (child (child (acct_key 7 84 0 0) 0 true) 1 true) /\
             r_priv i = POk (Priv (child (child (acct_key 7 84 0 0) 0 true) 1 true))) /\
  firstn 2 (skipn 10 outs) = [OutErr EWrongPass; OutOk] /\
  (exists i, nth 13 outs OutOk = OutAddrs [RKey i] /\ r_pub i = Pub (imp_pub_key 3) /\ r_priv i = PErr ELocked) /\
  nth 15 outs OutOk = OutErr EWatching.
Proof. vm_compute. repeat split; try reflexivity; eexists; repeat split. Qed.

(** Whenever the manager is unlocked, PrivKey() of ANY address object the
    caller holds - just issued, looked up later, created while locked and
    unlocked afterwards, extended, reloaded after a restart - that belongs to an
    account with a private key, or is a key imported WITH its private key
    (WIF), returns exactly the private key of the object's public key. *)
Theorem C03_private_key_available : forall seed pass st h ma,
  reach sl cg seed pass st -> handle_obj st h ma -> m_locked (st_mem st) = false ->
  (ma_imported ma = false ->
   exists row, aget sa_dec (d_accts (st_disk st)) (ma_scope ma, dp_iacct (ma_path ma)) = Some row /\
               ar_priv row <> None) ->
  (ma_imported ma = true -> exists k, ma_pub ma = Pub (imp_key k)) ->
  snd (step current st (OPriv h)) = OutKey (Priv (skey_of_pub (ma_pub ma))).
Proof. rewrite source_fact. exact (priv_key_available sl cg). Qed.
Print Assumptions C03_private_key_available.

(** ... and every such object is what the address theorems say: *)
Theorem C03_held_address_is_account_child : forall seed pass st h ma,
  reach sl cg seed pass st -> handle_obj st h ma ->
  if ma_imported ma then (exists k, ma_pub ma = Pub (imp_key k)) \/ (exists k, ma_pub ma = Pub (imp_pub_key k))
  else exists row sch, acct_of st (ma_scope ma) (dp_iacct (ma_path ma)) row sch /\
         ma_pub ma = Pub (path_skey (ar_pub row) (dp_branch (ma_path ma)) (dp_index (ma_path ma))) /\
         ma_fmt ma = row_fmt sch row (dp_branch (ma_path ma)).
Proof. exact (handle_obj_ok sl cg). Qed.
Print Assumptions C03_held_address_is_account_child.

(** The addresses an operation hands out while unlocked already carry their key. *)
Theorem C03_reported_private_key_available : forall seed pass st o st' rs i row,
  reach sl cg seed pass st -> adm st o = true -> step current st o = (st', OutAddrs rs) -> In (RKey i) rs ->
  (match o with ONext _ _ _ _ | OLookup _ | ODerive _ _ => True | _ => False end) ->
  m_locked (st_mem st) = false -> r_imported i = false ->
  aget sa_dec (d_accts (st_disk st')) (r_scope i, r_iacct i) = Some row -> ar_priv row <> None ->
  r_priv i = POk (Priv (skey_of_pub (r_pub i))).
Proof. rewrite source_fact. exact (reported_priv_available sl cg). Qed.
Print Assumptions C03_reported_private_key_available.
