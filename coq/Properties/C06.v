(** C06 - Created transactions spend only eligible own coins, once.
    Property theorems only; proofs are in Select/EligibleProofs.v.

    Model: Select/Eligible.v ([create] = the selection part of
    wallet.txToOutputs over the candidates [wallet_cands] = wtxmgr
    UnspentOutputs of Tx/Store.v decorated by the address manager lookup;
    publication of a created transaction = the history events
    [publish_accepted] / [publish_rejected]).
    Ledger: Tx/Ledger.v ([known], [spent_by_known], [leased], credited
    outputs); histories and [chain_consistent]: Tx/Hist.v; the store refines
    the ledger on every chain-consistent history (Tx/RefineAll.v).

    Quantifiers: every universe and chain-consistent history (receipts,
    spends, confirmations, reorgs, removals, leases - by this wallet and by
    anybody else), every request (account, key scope = (purpose, coin type),
    minconf, fee rate, strategy, filter, explicit selection, dry run), every
    lock set and chain height ([wctx]; a restart empties the in-memory lock
    set and leaves the store as it is, so it is covered by the quantifier over
    [x_locked]), every address-manager lookup [own], every shuffle that is a
    permutation ([is_shuffle]: the random strategy) and every sequence of
    targets the authoring loop may ask for.

    Build order: after Tx/RefineAll.v (theorem [refinement]) and Tx/InvObs.v,
    Generated/SelectFacts.v, Select/Eligible.v, Select/EligibleProofs.v.

    Two regenerated facts are discharged here by computation ([eq_refl]):
    [explicit_selection_rejects_duplicates] and
    [explicit_selection_requires_eligible] (Generated/SelectFacts.v, read from
    the source of the explicit selection loop by harness/cmd/extract-c06 or,
    when its shape is not recognised, determined by running the witness
    scenarios below on the built code: c06 -probe).  While the code does not
    reject a repeated / an ineligible outpoint in an explicit selection this
    file does not compile and the check reports the broken obligation
    ([C06_refuted_duplicate_selection], [C06_refuted_ineligible_selection] are
    the witnesses).

    KNOWN LIMITATIONS (also in the check's evidence):
    - S13 (DESIGN section 6): [Wallet.FundPsbt] with CALLER-SUPPLIED inputs
      (wallet/psbt.go, the `default:` arm) does not go through [create]: it
      only establishes that the inputs belong to the wallet (DecorateInputs)
      and are named once; spent, leased, locked, unconfirmed or immature
      inputs are accepted there (callers lease their inputs first).  The
      theorems below are about [create] = CreateSimpleTx / SendOutputs /
      SendOutputsWithInput / FundPsbt WITHOUT inputs; for FundPsbt-with-inputs
      only ownership and single use are asserted at run time.
    - NOT proved here: signature validity (cryptographic).  It is exercised at
      run time on every input of every signed result with the txscript engine
      (lib/c06.py).  [cr_signed] only records the sign / skip decision.
    - [own], the address manager's script -> (scope, account) lookup, is a
      parameter (property C03 is about it); at run time the oracle uses an
      independent BIP32 derivation, the keys it imported itself and the
      accounts it imported as watch-only.
    - The imported account ([ImportedAddrAccount]) is reported watch-only by the
      address manager whatever keys it holds; since commit 7cd4d93 the
      sign / skip decision looks at the keys of the inputs ([skip_signing]).
      FinalizePsbt still skips every input of the imported account.
    - A watch-only ACCOUNT in a wallet that has private keys: SendOutputs tests
      the wallet-level flag only and hands the unsigned result to the backend
      instead of returning ErrTxUnsigned (observation
      unsigned_transaction_handed_to_backend; watch-only results are outside
      the property's signature clause).
    - Concurrency: requests are modelled one at a time.  The serialised
      section of the code (txCreator) ends BEFORE SendOutputs records the
      spend, so two SendOutputs calls issued at once can select the same coin
      (observed on the unchanged tree, recorded as concurrent_sends_shared_coin);
      the reuse theorems are about creations AFTER the publication is recorded.
    - "Reuse" is excluded while the ledger knows the publishing transaction:
      a conflicting transaction confirmed by the chain, a detached coinbase
      ancestor or an explicit removal displaces it and frees its other inputs
      ([displaced]).
    - int32/int64 wrap-around is outside the model. *)
From stdpp Require Import gmap list numbers sorting.
From Coq Require Import ZArith NArith.
From Verif Require Import Tx.Store Tx.Ledger Tx.Hist Generated.SelectFacts
  Select.Eligible Select.EligibleProofs.
Local Open Scope Z_scope.

(** Every input of a created transaction, in any state reached by a
    chain-consistent history:
    - is a credited output of a known transaction that no known (confirmed or
      unconfirmed) transaction spends and that is not leased
      ([ledger_spendable], in the terms of Tx/Ledger.v);
    - belongs, by the address manager's lookup, to the requested account and,
      when one is requested, key scope; passed the caller's filter; is not
      locked; has at least minconf confirmations and, if coinbase, at least
      the maturity ([eligible_P]);
    - where "confirmations" is the ledger's count for the confirming block. *)
Theorem C06_inputs_are_eligible_own_unspent_coins :
  ∀ U h x r shuffle targets own aty vsz cr c,
    wf_universe U = true → chain_consistent U h = true → is_shuffle shuffle →
    let m := run U h in let F := fs (spec_run U h) in let now := clock m in
    create x r shuffle targets (wallet_cands U m own aty vsz) = Some cr → c ∈ cr_inputs cr →
    ledger_spendable U F now (c_utxo c) ∧
    own (c_op c) = c_owner c ∧
    eligible_P x r c ∧
    confirms (u_height (c_utxo c)) (x_height x) = ledger_confs F (c_op c).1 (x_height x).
Proof. exact created_inputs_ledger. Qed.
Print Assumptions C06_inputs_are_eligible_own_unspent_coins.

(** The same for an arbitrary candidate list (no hypothesis on the store):
    inputs are candidates that pass every test of the filter. *)
Theorem C06_inputs_pass_the_filter :
  ∀ x r shuffle targets cs cr c,
    is_shuffle shuffle → create x r shuffle targets cs = Some cr → c ∈ cr_inputs cr →
    c ∈ cs ∧ eligible_P x r c.
Proof. exact create_inputs_eligible. Qed.
Print Assumptions C06_inputs_pass_the_filter.

(** No output is used twice: automatic selection (any strategy = any
    permutation, any targets). *)
Theorem C06_no_output_twice_automatic :
  ∀ U h x r shuffle targets own aty vsz cr,
    wf_universe U = true → chain_consistent U h = true → is_shuffle shuffle →
    r_explicit r = [] →
    create x r shuffle targets (wallet_cands U (run U h) own aty vsz) = Some cr →
    NoDup (map c_op (cr_inputs cr)).
Proof. exact created_auto_inputs_NoDup. Qed.
Print Assumptions C06_no_output_twice_automatic.

(** No output is used twice: explicit selection.  The premise
    [explicit_selection_rejects_duplicates = true] of the lemma is what the
    source says now. *)
Theorem C06_no_output_twice_explicit :
  ∀ x r shuffle targets cs cr,
    r_explicit r ≠ [] → create x r shuffle targets cs = Some cr →
    NoDup (map c_op (cr_inputs cr)).
Proof.
  intros x r shuffle targets cs cr.
  exact (create_explicit_NoDup x r shuffle targets cs cr eq_refl).
Qed.
Print Assumptions C06_no_output_twice_explicit.

(** An explicit selection is used as given, and one that names an outpoint
    outside the eligible set - unknown, spent, leased (not a candidate), or a
    candidate failing any test of the filter - is refused.  Both rest on the
    regenerated fact [explicit_selection_requires_eligible = true]. *)
Theorem C06_explicit_selection_used_as_given :
  ∀ x r shuffle targets cs cr,
    r_explicit r ≠ [] → create x r shuffle targets cs = Some cr →
    map c_op (cr_inputs cr) = r_explicit r.
Proof.
  intros x r shuffle targets cs cr.
  exact (create_explicit_exact x r shuffle targets cs cr eq_refl).
Qed.
Print Assumptions C06_explicit_selection_used_as_given.

Theorem C06_ineligible_explicit_input_refused :
  ∀ x r shuffle targets cs op,
    op ∈ r_explicit r →
    (op ∉ map c_op cs ∨ ∀ c, c ∈ cs → c_op c = op → ¬ eligible_P x r c) →
    create x r shuffle targets cs = None.
Proof.
  intros x r shuffle targets cs op Hin Hwhy.
  apply (create_explicit_refused x r shuffle targets cs op eq_refl Hin).
  destruct Hwhy as [Hn|Hn].
  - intros H. apply Hn. eapply elem_of_submseteq; [exact H|].
    apply fmap_submseteq, sublist_submseteq, eligible_sublist.
  - by apply not_eligible_not_in.
Qed.
Print Assumptions C06_ineligible_explicit_input_refused.

(** In particular, across whole histories: an explicit selection naming an
    output that a known (confirmed or unconfirmed) transaction spends, or an
    output under an unexpired lease, is refused. *)
Theorem C06_spent_or_leased_explicit_input_refused :
  ∀ U h x r shuffle targets own aty vsz op,
    wf_universe U = true → chain_consistent U h = true → op ∈ r_explicit r →
    ((∃ t, known (fs (spec_run U h)) t = true ∧ op ∈ tx_ins U t) ∨
     leased (fs (spec_run U h)) op (clock (run U h)) = true) →
    create x r shuffle targets (wallet_cands U (run U h) own aty vsz) = None.
Proof.
  intros U h x r shuffle targets own aty vsz op Hwf Hcons Hsel [(t & Hk & Hop)|Hl].
  - exact (explicit_spent_refused U h x r shuffle targets own aty vsz t op eq_refl Hwf Hcons Hk Hop Hsel).
  - exact (explicit_leased_refused U h x r shuffle targets own aty vsz op eq_refl Hwf Hcons Hl Hsel).
Qed.
Print Assumptions C06_spent_or_leased_explicit_input_refused.

(** PUBLISHED INPUTS ARE NEVER REUSED.  A request creates a transaction in the
    state after [h0]; [t] is that transaction ([is_tx_of]: its inputs are the
    selected ones); the wallet publishes it and the backend accepts
    ([publish_accepted t] = it is recorded).  Then, after ANY later events -
    this wallet's further publications (accepted or rejected), leases, clock;
    the chain's confirmations and reorganisations; other wallets' receipts and
    spends; removals - that do not displace [t] ([never_displaced]: no
    conflicting transaction gets confirmed, no coinbase it descends from is
    detached, neither it nor an ancestor is removed), no later creation -
    whatever the request, strategy, shuffle, targets, locks (so also after a
    restart) - selects any of the inputs of the first one. *)
Theorem C06_published_inputs_never_reused :
  ∀ U h0 t later x0 r0 sh0 tg0 cr0 x r shuffle targets own aty vsz cr c0,
    wf_universe U = true → is_shuffle shuffle →
    create x0 r0 sh0 tg0 (wallet_cands U (run U h0) own aty vsz) = Some cr0 →
    is_tx_of U t cr0 = true →
    chain_consistent U (h0 ++ publish_accepted t ++ later) = true →
    never_displaced U (spec_run U (h0 ++ publish_accepted t)) t later = true →
    create x r shuffle targets (wallet_cands U (run U (h0 ++ publish_accepted t ++ later)) own aty vsz) = Some cr →
    c0 ∈ cr_inputs cr0 → c_op c0 ∉ map c_op (cr_inputs cr).
Proof. exact created_then_published_never_reused. Qed.
Print Assumptions C06_published_inputs_never_reused.

(** The same for any recorded transaction [t] (not only one this wallet
    created), in terms of its inputs. *)
Theorem C06_recorded_inputs_never_reused :
  ∀ U h0 t later x r shuffle targets own aty vsz cr op,
    wf_universe U = true → is_shuffle shuffle →
    chain_consistent U (h0 ++ publish_accepted t ++ later) = true →
    never_displaced U (spec_run U (h0 ++ publish_accepted t)) t later = true →
    op ∈ tx_ins U t →
    create x r shuffle targets (wallet_cands U (run U (h0 ++ publish_accepted t ++ later)) own aty vsz) = Some cr →
    op ∉ map c_op (cr_inputs cr).
Proof. exact published_inputs_never_reused_gen. Qed.
Print Assumptions C06_recorded_inputs_never_reused.

(** What can displace a transaction: only a confirmation, a reorganisation or
    a removal; the wallet's own events (further publications, leases,
    releases, clock advances, sweeps) never do. *)
Theorem C06_wallet_side_events_displace_nothing :
  ∀ U sm t later, forallb wallet_side later = true → never_displaced U sm t later = true.
Proof. exact wallet_side_never_displaced. Qed.
Print Assumptions C06_wallet_side_events_displace_nothing.

(** A REJECTED PUBLICATION LEAVES NO TRACE.  When the backend refuses a fresh
    transaction (the ledger does not know it, nothing spends it yet) the
    wallet removes it again: the candidates afterwards are the candidates
    before - its inputs are spendable again and nothing else changed. *)
Theorem C06_rejected_publication_restores_candidates :
  ∀ U h t own aty vsz,
    wf_universe U = true →
    chain_consistent U (h ++ publish_rejected t) = true →
    known (fs (spec_run U h)) t = false →
    (∀ u, u ∈ f_unconf (fs (spec_run U h)) → spends_output_of U u t = false) →
    wallet_cands U (run U (h ++ publish_rejected t)) own aty vsz ≡ₚ wallet_cands U (run U h) own aty vsz.
Proof. exact rejected_publish_restores_candidates. Qed.
Print Assumptions C06_rejected_publication_restores_candidates.

(** More generally, across chain events too: as long as the ledger knows a
    transaction (confirmed or unconfirmed), none of its inputs is selected. *)
Theorem C06_inputs_of_known_transactions_excluded :
  ∀ U h x r shuffle targets own aty vsz cr t op,
    wf_universe U = true → chain_consistent U h = true → is_shuffle shuffle →
    known (fs (spec_run U h)) t = true → op ∈ tx_ins U t →
    create x r shuffle targets (wallet_cands U (run U h) own aty vsz) = Some cr →
    op ∉ map c_op (cr_inputs cr).
Proof. exact known_spender_excludes. Qed.
Print Assumptions C06_inputs_of_known_transactions_excluded.

(** The automatic selection hands out a prefix of the arrangement; for the
    largest-first strategy the arrangement is the eligible set in descending
    order of amount. *)
Theorem C06_automatic_inputs_are_a_prefix_of_the_arrangement :
  ∀ x r shuffle targets cs cr,
    r_explicit r = [] → create x r shuffle targets cs = Some cr →
    cr_inputs cr `prefix_of` arrange (r_strategy r) (r_rate r) shuffle (eligible x r cs) ∧
    (r_strategy r = Largest →
       arrange (r_strategy r) (r_rate r) shuffle (eligible x r cs) ≡ₚ eligible x r cs ∧
       Sorted amt_ge (arrange (r_strategy r) (r_rate r) shuffle (eligible x r cs))).
Proof.
  intros x r shuffle targets cs cr Hsel Hc. split.
  - rewrite (create_auto x r shuffle targets cs cr Hsel Hc). apply inputs_after_prefix.
  - intros ->. split; [apply arrange_largest_perm|apply arrange_largest_sorted].
Qed.
Print Assumptions C06_automatic_inputs_are_a_prefix_of_the_arrangement.

(** The sign / skip decision of txToOutputs: a result is signed iff it is not
    a dry run and either the address manager does not report the account as
    watch-only, or it is the imported account of a wallet that holds private
    keys and the key of every input is held (commit 7cd4d93: before it the
    imported account was never signed).  The tie to the code is the
    correspondence (code 6 of Select/EligibleCorr.v, on normal, custom-scope,
    imported-key - private and public-only - and watch-only accounts and a
    watch-only wallet) and the run-time oracle, which also verifies every
    signature. *)
Theorem C06_signed_unless_dry_or_watch_only :
  ∀ x r shuffle targets cs cr,
    create x r shuffle targets cs = Some cr →
    cr_signed cr = true ↔
    r_dry r = false ∧
    (x_watch_only x = false ∨
     (r_acct r = imported_account ∧ x_wallet_wo x = false ∧ ∀ c, c ∈ cr_inputs cr → has_priv c = true)).
Proof. exact create_signed_iff. Qed.
Print Assumptions C06_signed_unless_dry_or_watch_only.

(** ** Non-vacuity *)

Definition mk (id : N) (ins : list (N * N)) (outs : list Z) (creds : list (N * bool)) (cb : bool) : tx :=
  {| t_id := id; t_ins := ins; t_outs := outs; t_creds := creds; t_coinbase := cb |}.

(** tx 2: two receipts of account 0, confirmed at height 10; tx 4: a coinbase
    paying account 0 at height 11; tx 6: an unconfirmed receipt of account 1;
    tx 8: a transaction the wallet creates from (2,0), with change (8,1). *)
Definition ex_U : universe := universe_of_list
  [ mk 2%N [(1, 0)]%N [50000; 30000] [(0, false); (1, false)]%N false;
    mk 4%N [] [100000] [(0, false)]%N true;
    mk 6%N [(1, 1)]%N [20000] [(0, false)]%N false;
    mk 8%N [(2, 0)]%N [10000; 39000] [(1, true)]%N false;
    (* tx 9: a receipt of account 0 of the custom scope (84, 1) *)
    mk 9%N [(1, 2)]%N [70000] [(0, false)]%N false;
    (* tx 10: spends (2,0) too (a third party's conflicting spend) *)
    mk 10%N [(2, 0)]%N [49000] []%N false ].
Definition ex_h : list event := [ Confirm 2%N 10 1%N 0; Confirm 4%N 11 2%N 0; Seen 6%N ].
Definition ex_own (op : N * N) : option owner :=
  if (op.1 =? 6)%N then Some {| o_scope := (84, 0)%N; o_acct := 1; o_priv := true |}
  else if (op.1 =? 9)%N then Some {| o_scope := (84, 1)%N; o_acct := 0; o_priv := true |}
  else Some {| o_scope := (84, 0)%N; o_acct := 0; o_priv := true |}.
Definition ex_cands (h : list event) : list cand :=
  wallet_cands ex_U (run ex_U h) ex_own (fun _ => P2WPKH) (fun _ => 68).
Definition ex_x (height : Z) (lk : list (N * N)) : wctx :=
  {| x_height := height; x_maturity := 100; x_locked := lk; x_watch_only := false; x_wallet_wo := false |}.
Definition ex_r (acct : N) (minconf : Z) (sel : list (N * N)) : request :=
  {| r_acct := acct; r_scope := None; r_change_scope := None; r_minconf := minconf; r_rate := 1000; r_strategy := Largest;
     r_explicit := sel; r_allow := fun _ => true; r_dry := false |}.
Definition ex_rs (sc : kscope) (minconf : Z) : request :=
  {| r_acct := 0; r_scope := Some sc; r_change_scope := Some sc; r_minconf := minconf; r_rate := 1000; r_strategy := Largest;
     r_explicit := []; r_allow := fun _ => true; r_dry := false |}.
Definition ins_of (o : option created) : option (list (N * N)) :=
  match o with Some cr => Some (map c_op (cr_inputs cr)) | None => None end.
Definition id_shuffle (l : list cand) : list cand := l.

Example C06_nonvacuous :
  wf_universe ex_U = true ∧ chain_consistent ex_U (ex_h ++ [Seen 8%N]) = true ∧
  (* candidates; eligible for account 0, minconf 1 at height 11: the immature
     coinbase, the unconfirmed receipt and the other account are left out *)
  map c_op (ex_cands ex_h) = [(2, 1); (2, 0); (4, 0); (6, 0)]%N ∧
  map c_op (eligible (ex_x 11 []) (ex_r 0 1 []) (ex_cands ex_h)) = [(2, 1); (2, 0)]%N ∧
  (* largest first, growing targets *)
  ins_of (create (ex_x 11 []) (ex_r 0 1 []) id_shuffle [15000] (ex_cands ex_h)) = Some [(2, 0)]%N ∧
  ins_of (create (ex_x 11 []) (ex_r 0 1 []) id_shuffle [15000; 60000] (ex_cands ex_h)) = Some [(2, 0); (2, 1)]%N ∧
  (* a locked output is skipped; the coinbase is used once mature; account 1 at minconf 0 *)
  ins_of (create (ex_x 11 [(2, 0)%N]) (ex_r 0 1 []) id_shuffle [15000; 60000] (ex_cands ex_h)) = Some [(2, 1)]%N ∧
  ins_of (create (ex_x 110 []) (ex_r 0 1 []) id_shuffle [15000] (ex_cands ex_h)) = Some [(4, 0)]%N ∧
  ins_of (create (ex_x 11 []) (ex_r 1 0 []) id_shuffle [15000] (ex_cands ex_h)) = Some [(6, 0)]%N ∧
  (* after publishing tx 8 (spends (2,0)): (2,0) is gone, the change (8,1) is there *)
  ins_of (create (ex_x 11 []) (ex_r 0 0 []) id_shuffle [100000] (ex_cands (ex_h ++ [Seen 8%N]))) = Some [(8, 1); (2, 1)]%N ∧
  (* explicit selections: eligible; containing the immature coinbase; a spent one *)
  ins_of (create (ex_x 11 []) (ex_r 0 1 [(2, 1)]%N) id_shuffle [] (ex_cands ex_h)) = Some [(2, 1)]%N ∧
  ins_of (create (ex_x 11 []) (ex_r 0 1 [(2, 1); (4, 0)]%N) id_shuffle [] (ex_cands ex_h)) = None ∧
  ins_of (create (ex_x 11 []) (ex_r 0 1 [(2, 0)]%N) id_shuffle [] (ex_cands (ex_h ++ [Seen 8%N]))) = None.
Proof. vm_compute. repeat split. Qed.

Example C06_nonvacuous_shuffle : is_shuffle id_shuffle ∧ is_shuffle (@rev cand).
Proof. split; intros l; [done|]. symmetry. apply Permutation_rev. Qed.

(** The sign / skip decision: a normal account is signed; an account imported
    by public key is not; the imported account is signed exactly when the
    wallet has private keys at all and holds the key of every input. *)
Example C06_nonvacuous_signing :
  let x wo ww := {| x_height := 11; x_maturity := 100; x_locked := []; x_watch_only := wo; x_wallet_wo := ww |} in
  let c p := {| c_utxo := {| u_op := (2, 0)%N; u_amt := 1; u_height := 1; u_hash := 0%N; u_coinbase := false |};
                c_owner := Some {| o_scope := (84, 0)%N; o_acct := imported_account; o_priv := p |};
                c_atype := P2WPKH; c_vsize := 68 |} in
  skip_signing (x false false) (ex_r 0 1 []) [c true] = false ∧
  skip_signing (x true false) (ex_r 3 1 []) [c true] = true ∧
  skip_signing (x true false) (ex_r imported_account 1 []) [c true] = false ∧
  skip_signing (x true false) (ex_r imported_account 1 []) [c true; c false] = true ∧
  skip_signing (x true true) (ex_r imported_account 1 []) [c true] = true.
Proof. vm_compute. repeat split. Qed.

(** Key scopes are pairs: a request for BIP84 (84, 0) does not see the output
    of the custom scope (84, 1) that shares its purpose, and vice versa; a
    request without a scope sees both. *)
Definition ex_h9 : list event := ex_h ++ [Confirm 9%N 11 2%N 0].
Example C06_nonvacuous_scopes :
  chain_consistent ex_U ex_h9 = true ∧
  map c_op (eligible (ex_x 11 []) (ex_rs (84, 0)%N 1) (ex_cands ex_h9)) = [(2, 1); (2, 0)]%N ∧
  map c_op (eligible (ex_x 11 []) (ex_rs (84, 1)%N 1) (ex_cands ex_h9)) = [(9, 0)]%N ∧
  map c_op (eligible (ex_x 11 []) (ex_r 0 1 []) (ex_cands ex_h9)) = [(9, 0); (2, 1); (2, 0)]%N ∧
  (* a change scope of its own does not move the selection: BIP84 coins, change to (84, 1) *)
  map c_op (eligible (ex_x 11 []) {| r_acct := 0; r_scope := Some (84, 0)%N; r_change_scope := Some (84, 1)%N;
                                     r_minconf := 1; r_rate := 1000; r_strategy := Largest; r_explicit := [];
                                     r_allow := fun _ => true; r_dry := false |} (ex_cands ex_h9)) = [(2, 1); (2, 0)]%N.
Proof. vm_compute. repeat split. Qed.

(** Publication: tx 8 is the transaction created from (2,0) in the state after
    [ex_h]; after its accepted publication and a mix of later events by the
    chain and by others (a block confirming tx 9 and then tx 8 itself, a lease,
    the clock, the unconfirmed receipt tx 6 confirmed) it is never displaced
    and (2,0) is not selected again; a rejected publication gives (2,0) back;
    the confirmation of the conflicting tx 10 displaces tx 8 - only then is
    the other party's double spend what keeps (2,0) away. *)
Definition ex_later : list event :=
  [ Confirm 9%N 12 3%N 0; Lease 1%N (2, 1)%N 600; Tick 700; Confirm 8%N 13 4%N 0; Confirm 6%N 13 4%N 0; Sweep ].
Example C06_nonvacuous_publication :
  let cr0 := create (ex_x 11 []) (ex_r 0 1 []) id_shuffle [15000] (ex_cands ex_h) in
  ins_of cr0 = Some [(2, 0)]%N ∧
  (match cr0 with Some cr => is_tx_of ex_U 8%N cr | None => false end) = true ∧
  chain_consistent ex_U (ex_h ++ publish_accepted 8%N ++ ex_later) = true ∧
  never_displaced ex_U (spec_run ex_U (ex_h ++ publish_accepted 8%N)) 8%N ex_later = true ∧
  ins_of (create (ex_x 13 []) (ex_r 0 0 []) id_shuffle [1000000]
            (ex_cands (ex_h ++ publish_accepted 8%N ++ ex_later))) = Some [(9, 0); (8, 1); (2, 1)]%N ∧
  (* rejected: the candidates are back *)
  chain_consistent ex_U (ex_h ++ publish_rejected 8%N) = true ∧
  map c_op (ex_cands (ex_h ++ publish_rejected 8%N)) = map c_op (ex_cands ex_h) ∧
  (* displaced by the confirmation of the conflicting tx 10 *)
  chain_consistent ex_U (ex_h ++ publish_accepted 8%N ++ [Confirm 10%N 12 3%N 0]) = true ∧
  never_displaced ex_U (spec_run ex_U (ex_h ++ publish_accepted 8%N)) 8%N [Confirm 10%N 12 3%N 0] = false.
Proof. vm_compute. repeat split. Qed.

(** Witness for the code WITHOUT a duplicate test in the explicit selection
    loop ([explicit_selection_rejects_duplicates = false], the pinned
    commit): the eligible output (2,1), named twice, is spent twice; with the
    test the selection is refused. *)
Example C06_refuted_duplicate_selection :
  let elig := eligible (ex_x 11 []) (ex_r 0 1 []) (ex_cands ex_h) in
  option_map (map c_op) (explicit_select_gen false true elig [(2, 1); (2, 1)]%N) = Some [(2, 1); (2, 1)]%N ∧
  ¬ NoDup [(2, 1); (2, 1)]%N ∧
  explicit_select_gen true true elig [(2, 1); (2, 1)]%N = None.
Proof.
  vm_compute. split_and!; [done| |done].
  intros H. apply NoDup_cons in H as [H _]. apply H. by left.
Qed.

(** In general: without the test every eligible outpoint can be spent twice. *)
Theorem C06_refuted_duplicate_selection_general :
  ∀ q elig c, c ∈ elig → NoDup (map c_op elig) →
    explicit_select_gen false q elig [c_op c; c_op c] = Some [c; c].
Proof. exact explicit_select_gen_duplicate. Qed.
Print Assumptions C06_refuted_duplicate_selection_general.

(** Witness for the code WITHOUT the miss test
    ([explicit_selection_requires_eligible = false]): a selection naming the
    immature coinbase output (4,0) next to the eligible (2,1) is not refused;
    with the test it is. *)
Example C06_refuted_ineligible_selection :
  let elig := eligible (ex_x 11 []) (ex_r 0 1 []) (ex_cands ex_h) in
  option_map (map c_op) (explicit_select_gen true false elig [(4, 0); (2, 1)]%N) = Some [(2, 1)]%N ∧
  explicit_select_gen true true elig [(4, 0); (2, 1)]%N = None.
Proof. vm_compute. done. Qed.

(** In general: without the miss test an outpoint outside the eligible set
    does not make the selection fail. *)
Theorem C06_refuted_ineligible_selection_general :
  ∀ b elig sel op,
    op ∉ map c_op elig → op ∉ sel → NoDup sel → (∀ o, o ∈ sel → o ∈ map c_op elig) →
    is_Some (explicit_select_gen b false elig (op :: sel)).
Proof. exact explicit_select_gen_passes_over. Qed.
Print Assumptions C06_refuted_ineligible_selection_general.
