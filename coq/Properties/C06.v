(** C06 - Created transactions spend only eligible own coins, once.
    Property theorems only; proofs are in Select/EligibleProofs.v.

    Model: Select/Eligible.v ([create] = the selection part of
    wallet.txToOutputs over the candidates [wallet_cands] = wtxmgr
    UnspentOutputs of Tx/Store.v decorated by the address manager lookup).
    Ledger: Tx/Ledger.v ([known], [spent_by_known], [leased], credited
    outputs); histories and [chain_consistent]: Tx/Hist.v; the store refines
    the ledger on every chain-consistent history (Tx/RefineAll.v).

    Quantifiers: every universe and chain-consistent history (receipts,
    spends, confirmations, reorgs, leases), every request (account, scope,
    minconf, fee rate, strategy, filter, explicit selection, dry run), every
    lock set and chain height ([wctx]), every address-manager lookup [own],
    every shuffle that is a permutation ([is_shuffle]: the random strategy)
    and every sequence of targets the authoring loop may ask for.

    Build order: after Tx/RefineAll.v (theorem [refinement]) and Tx/InvObs.v,
    Generated/SelectFacts.v, Select/Eligible.v, Select/EligibleProofs.v.

    One regenerated fact is discharged here by computation ([eq_refl]):
    [explicit_selection_rejects_duplicates] (Generated/SelectFacts.v, read
    from wallet/createtx.go by harness/cmd/extract-c06).  While the source
    does not reject a repeated outpoint in an explicit selection this file
    does not compile and the check reports the broken obligation
    ([C06_refuted_duplicate_selection] is the witness).

    NOT proved here: signature validity (cryptographic).  It is exercised at
    run time on every created input with the txscript engine (lib/c06.py). *)
From stdpp Require Import gmap list numbers sorting.
From Coq Require Import ZArith NArith.
From Verif Require Import Tx.Store Tx.Ledger Tx.Hist Generated.SelectFacts
  Select.Eligible Select.EligibleProofs.
Local Open Scope Z_scope.

(** Every input of a created transaction, in any state reached by a
    chain-consistent history:
    - is a credited output of a known transaction that no known (confirmed or
      unconfirmed) transaction spends and that is not leased
      ([ledger_spendable], in the terms of Tx/Ledger.v);
    - belongs, by the address manager's lookup, to the requested account and,
      when one is requested, key scope; passed the caller's filter; is not
      locked; has at least minconf confirmations and, if coinbase, at least
      the maturity ([eligible_P]);
    - where "confirmations" is the ledger's count for the confirming block. *)
Theorem C06_inputs_are_eligible_own_unspent_coins :
  ∀ U h x r shuffle targets own aty vsz cr c,
    wf_universe U = true → chain_consistent U h = true → is_shuffle shuffle →
    let m := run U h in let F := fs (spec_run U h) in let now := clock m in
    create x r shuffle targets (wallet_cands U m own aty vsz) = Some cr → c ∈ cr_inputs cr →
    ledger_spendable U F now (c_utxo c) ∧
    own (c_op c) = c_owner c ∧
    eligible_P x r c ∧
    confirms (u_height (c_utxo c)) (x_height x) = ledger_confs F (c_op c).1 (x_height x).
Proof. exact created_inputs_ledger. Qed.
Print Assumptions C06_inputs_are_eligible_own_unspent_coins.

(** The same for an arbitrary candidate list (no hypothesis on the store):
    inputs are candidates that pass every test of the filter. *)
Theorem C06_inputs_pass_the_filter :
  ∀ x r shuffle targets cs cr c,
    is_shuffle shuffle → create x r shuffle targets cs = Some cr → c ∈ cr_inputs cr →
    c ∈ cs ∧ eligible_P x r c.
Proof. exact create_inputs_eligible. Qed.
Print Assumptions C06_inputs_pass_the_filter.

(** No output is used twice: automatic selection (any strategy = any
    permutation, any targets). *)
Theorem C06_no_output_twice_automatic :
  ∀ U h x r shuffle targets own aty vsz cr,
    wf_universe U = true → chain_consistent U h = true → is_shuffle shuffle →
    r_explicit r = [] →
    create x r shuffle targets (wallet_cands U (run U h) own aty vsz) = Some cr →
    NoDup (map c_op (cr_inputs cr)).
Proof. exact created_auto_inputs_NoDup. Qed.
Print Assumptions C06_no_output_twice_automatic.

(** No output is used twice: explicit selection.  The premise
    [explicit_selection_rejects_duplicates = true] of the lemma is what the
    source says now. *)
Theorem C06_no_output_twice_explicit :
  ∀ x r shuffle targets cs cr,
    r_explicit r ≠ [] → create x r shuffle targets cs = Some cr →
    NoDup (map c_op (cr_inputs cr)).
Proof.
  intros x r shuffle targets cs cr.
  exact (create_explicit_NoDup x r shuffle targets cs cr eq_refl).
Qed.
Print Assumptions C06_no_output_twice_explicit.

(** An explicit selection is used as given, and one that names an outpoint
    outside the eligible set - unknown, spent, leased (not a candidate), or a
    candidate failing any test of the filter - is refused. *)
Theorem C06_explicit_selection_used_as_given :
  ∀ x r shuffle targets cs cr,
    r_explicit r ≠ [] → create x r shuffle targets cs = Some cr →
    map c_op (cr_inputs cr) = r_explicit r.
Proof. exact create_explicit_exact. Qed.
Print Assumptions C06_explicit_selection_used_as_given.

Theorem C06_ineligible_explicit_input_refused :
  ∀ x r shuffle targets cs op,
    op ∈ r_explicit r →
    (op ∉ map c_op cs ∨ ∀ c, c ∈ cs → c_op c = op → ¬ eligible_P x r c) →
    create x r shuffle targets cs = None.
Proof.
  intros x r shuffle targets cs op Hin Hwhy.
  apply (create_explicit_refused x r shuffle targets cs op Hin).
  destruct Hwhy as [Hn|Hn].
  - intros H. apply Hn. eapply elem_of_submseteq; [exact H|].
    apply fmap_submseteq, sublist_submseteq, eligible_sublist.
  - by apply not_eligible_not_in.
Qed.
Print Assumptions C06_ineligible_explicit_input_refused.

(** In particular, across whole histories: an explicit selection naming an
    output that a known (confirmed or unconfirmed) transaction spends, or an
    output under an unexpired lease, is refused. *)
Theorem C06_spent_or_leased_explicit_input_refused :
  ∀ U h x r shuffle targets own aty vsz op,
    wf_universe U = true → chain_consistent U h = true → op ∈ r_explicit r →
    ((∃ t, known (fs (spec_run U h)) t = true ∧ op ∈ tx_ins U t) ∨
     leased (fs (spec_run U h)) op (clock (run U h)) = true) →
    create x r shuffle targets (wallet_cands U (run U h) own aty vsz) = None.
Proof.
  intros U h x r shuffle targets own aty vsz op Hwf Hcons Hsel [(t & Hk & Hop)|Hl].
  - exact (explicit_spent_refused U h x r shuffle targets own aty vsz t op Hwf Hcons Hk Hop Hsel).
  - exact (explicit_leased_refused U h x r shuffle targets own aty vsz op Hwf Hcons Hl Hsel).
Qed.
Print Assumptions C06_spent_or_leased_explicit_input_refused.

(** Once a created transaction [t] has been published (recorded as an
    unconfirmed transaction: [Seen t]), after ANY later sequence of
    wallet-side events - further publications, leases, releases, clock
    advances, sweeps - no created transaction spends an input of [t]. *)
Theorem C06_published_inputs_never_reused :
  ∀ U h0 t later x r shuffle targets own aty vsz cr op,
    wf_universe U = true → is_shuffle shuffle →
    chain_consistent U (h0 ++ Seen t :: later) = true →
    forallb wallet_side later = true →
    op ∈ tx_ins U t →
    create x r shuffle targets (wallet_cands U (run U (h0 ++ Seen t :: later)) own aty vsz) = Some cr →
    op ∉ map c_op (cr_inputs cr).
Proof. exact published_inputs_never_reused. Qed.
Print Assumptions C06_published_inputs_never_reused.

(** More generally, across chain events too: as long as the ledger knows a
    transaction (confirmed or unconfirmed), none of its inputs is selected. *)
Theorem C06_inputs_of_known_transactions_excluded :
  ∀ U h x r shuffle targets own aty vsz cr t op,
    wf_universe U = true → chain_consistent U h = true → is_shuffle shuffle →
    known (fs (spec_run U h)) t = true → op ∈ tx_ins U t →
    create x r shuffle targets (wallet_cands U (run U h) own aty vsz) = Some cr →
    op ∉ map c_op (cr_inputs cr).
Proof. exact known_spender_excludes. Qed.
Print Assumptions C06_inputs_of_known_transactions_excluded.

(** The automatic selection hands out a prefix of the arrangement; for the
    largest-first strategy the arrangement is the eligible set in descending
    order of amount. *)
Theorem C06_automatic_inputs_are_a_prefix_of_the_arrangement :
  ∀ x r shuffle targets cs cr,
    r_explicit r = [] → create x r shuffle targets cs = Some cr →
    cr_inputs cr `prefix_of` arrange (r_strategy r) (r_rate r) shuffle (eligible x r cs) ∧
    (r_strategy r = Largest →
       arrange (r_strategy r) (r_rate r) shuffle (eligible x r cs) ≡ₚ eligible x r cs ∧
       Sorted amt_ge (arrange (r_strategy r) (r_rate r) shuffle (eligible x r cs))).
Proof.
  intros x r shuffle targets cs cr Hsel Hc. split.
  - rewrite (create_auto x r shuffle targets cs cr Hsel Hc). apply inputs_after_prefix.
  - intros ->. split; [apply arrange_largest_perm|apply arrange_largest_sorted].
Qed.
Print Assumptions C06_automatic_inputs_are_a_prefix_of_the_arrangement.

(** Signing is attempted exactly for results that are neither a dry run nor
    from a watch-only account (validity of the signatures is run-time only). *)
Theorem C06_signed_unless_dry_or_watch_only :
  ∀ x r shuffle targets cs cr,
    create x r shuffle targets cs = Some cr →
    cr_signed cr = negb (r_dry r) && negb (x_watch_only x).
Proof. exact create_signed. Qed.
Print Assumptions C06_signed_unless_dry_or_watch_only.

(** ** Non-vacuity *)

Definition mk (id : N) (ins : list (N * N)) (outs : list Z) (creds : list (N * bool)) (cb : bool) : tx :=
  {| t_id := id; t_ins := ins; t_outs := outs; t_creds := creds; t_coinbase := cb |}.

(** tx 2: two receipts of account 0, confirmed at height 10; tx 4: a coinbase
    paying account 0 at height 11; tx 6: an unconfirmed receipt of account 1;
    tx 8: a transaction the wallet creates from (2,0), with change (8,1). *)
Definition ex_U : universe := universe_of_list
  [ mk 2%N [(1, 0)]%N [50000; 30000] [(0, false); (1, false)]%N false;
    mk 4%N [] [100000] [(0, false)]%N true;
    mk 6%N [(1, 1)]%N [20000] [(0, false)]%N false;
    mk 8%N [(2, 0)]%N [10000; 39000] [(1, true)]%N false ].
Definition ex_h : list event := [ Confirm 2%N 10 1%N 0; Confirm 4%N 11 2%N 0; Seen 6%N ].
Definition ex_own (op : N * N) : option owner :=
  if (op.1 =? 6)%N then Some {| o_scope := 84; o_acct := 1 |} else Some {| o_scope := 84; o_acct := 0 |}.
Definition ex_cands (h : list event) : list cand :=
  wallet_cands ex_U (run ex_U h) ex_own (fun _ => P2WPKH) (fun _ => 68).
Definition ex_x (height : Z) (lk : list (N * N)) : wctx :=
  {| x_height := height; x_maturity := 100; x_locked := lk; x_watch_only := false |}.
Definition ex_r (acct : N) (minconf : Z) (sel : list (N * N)) : request :=
  {| r_acct := acct; r_scope := None; r_minconf := minconf; r_rate := 1000; r_strategy := Largest;
     r_explicit := sel; r_allow := fun _ => true; r_dry := false |}.
Definition ins_of (o : option created) : option (list (N * N)) :=
  match o with Some cr => Some (map c_op (cr_inputs cr)) | None => None end.
Definition id_shuffle (l : list cand) : list cand := l.

Example C06_nonvacuous :
  wf_universe ex_U = true ∧ chain_consistent ex_U (ex_h ++ [Seen 8%N]) = true ∧
  (* candidates; eligible for account 0, minconf 1 at height 11: the immature
     coinbase, the unconfirmed receipt and the other account are left out *)
  map c_op (ex_cands ex_h) = [(2, 1); (2, 0); (4, 0); (6, 0)]%N ∧
  map c_op (eligible (ex_x 11 []) (ex_r 0 1 []) (ex_cands ex_h)) = [(2, 1); (2, 0)]%N ∧
  (* largest first, growing targets *)
  ins_of (create (ex_x 11 []) (ex_r 0 1 []) id_shuffle [15000] (ex_cands ex_h)) = Some [(2, 0)]%N ∧
  ins_of (create (ex_x 11 []) (ex_r 0 1 []) id_shuffle [15000; 60000] (ex_cands ex_h)) = Some [(2, 0); (2, 1)]%N ∧
  (* a locked output is skipped; the coinbase is used once mature; account 1 at minconf 0 *)
  ins_of (create (ex_x 11 [(2, 0)%N]) (ex_r 0 1 []) id_shuffle [15000; 60000] (ex_cands ex_h)) = Some [(2, 1)]%N ∧
  ins_of (create (ex_x 110 []) (ex_r 0 1 []) id_shuffle [15000] (ex_cands ex_h)) = Some [(4, 0)]%N ∧
  ins_of (create (ex_x 11 []) (ex_r 1 0 []) id_shuffle [15000] (ex_cands ex_h)) = Some [(6, 0)]%N ∧
  (* after publishing tx 8 (spends (2,0)): (2,0) is gone, the change (8,1) is there *)
  ins_of (create (ex_x 11 []) (ex_r 0 0 []) id_shuffle [100000] (ex_cands (ex_h ++ [Seen 8%N]))) = Some [(8, 1); (2, 1)]%N ∧
  (* explicit selections: eligible; containing the immature coinbase; a spent one *)
  ins_of (create (ex_x 11 []) (ex_r 0 1 [(2, 1)]%N) id_shuffle [] (ex_cands ex_h)) = Some [(2, 1)]%N ∧
  ins_of (create (ex_x 11 []) (ex_r 0 1 [(2, 1); (4, 0)]%N) id_shuffle [] (ex_cands ex_h)) = None ∧
  ins_of (create (ex_x 11 []) (ex_r 0 1 [(2, 0)]%N) id_shuffle [] (ex_cands (ex_h ++ [Seen 8%N]))) = None.
Proof. vm_compute. repeat split. Qed.

Example C06_nonvacuous_shuffle : is_shuffle id_shuffle ∧ is_shuffle (@rev cand).
Proof. split; intros l; [done|]. symmetry. apply Permutation_rev. Qed.

(** Witness for the code WITHOUT a duplicate test in the explicit selection
    loop ([explicit_selection_rejects_duplicates = false], the pinned
    commit): the eligible output (2,1), named twice, is spent twice; with the
    test the selection is refused. *)
Example C06_refuted_duplicate_selection :
  let elig := eligible (ex_x 11 []) (ex_r 0 1 []) (ex_cands ex_h) in
  option_map (map c_op) (explicit_select_gen false elig [(2, 1); (2, 1)]%N) = Some [(2, 1); (2, 1)]%N ∧
  ¬ NoDup [(2, 1); (2, 1)]%N ∧
  explicit_select_gen true elig [(2, 1); (2, 1)]%N = None.
Proof.
  vm_compute. split_and!; [done| |done].
  intros H. apply NoDup_cons in H as [H _]. apply H. by left.
Qed.

(** In general: without the test every eligible outpoint can be spent twice. *)
Theorem C06_refuted_duplicate_selection_general :
  ∀ elig c, c ∈ elig → NoDup (map c_op elig) →
    explicit_select_gen false elig [c_op c; c_op c] = Some [c; c].
Proof. exact explicit_select_gen_duplicate. Qed.
Print Assumptions C06_refuted_duplicate_selection_general.
