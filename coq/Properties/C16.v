(** C16 - Recovery from seed finds every used address within the look-ahead
    window; the birthday block is never later than the first block that could
    pay the wallet.  Property theorems only; proofs are in
    Recovery/RecoveryProofs.v, the model in Recovery/Recovery.v. *)
From Verif Require Import Base.Prelude Recovery.Recovery Recovery.RecoveryProofs.
Local Open Scope N_scope.

(** (a) Completeness of recovery.  For every predicate of invalid children
    (bounded by some index), every set of active scopes, every window [W]
    (the property needs W >= 1; the statement holds for 0 as well), every
    batch size [bs], every birthday height, every chain and every sequence of
    interruption points [cuts] (recovery is run against the chain truncated at
    each height in turn, each time on a freshly resurrected state, the last
    one being the full chain):
    if every scanned block pays, on each branch, only valid indices of active
    scopes that lie - counted in valid indices - less than [W] beyond
    1 + the highest index paid on that branch in EARLIER scanned blocks
    ([within_window], DESIGN A.5), and transaction ids are distinct and no
    outpoint is spent twice ([chain_wf]), then after recovery of a fresh
    wallet
    - every paid path is known to the address manager and marked used,
    - the recorded transactions and the unspent outputs are exactly the
      ledger's (see C16_recorded_* below for what that list is),
    - each branch's next index is 1 + the highest paid index, hence above
      every paid index,
    - the wallet is synced to the tip. *)
Theorem C16_recovery_complete :
  forall (invalid_child : scope -> bool -> index -> bool) (inv_bound : N),
    (forall s b i, invalid_child s b i = true -> i < inv_bound) ->
  forall scopes : list scope, NoDup scopes ->
  forall (W : N) (bs : nat) (bday : N) (chain : list block) (cuts : list N),
    let all := scanned_chain bday chain in
    within_window invalid_child scopes W all ->
    chain_wf all ->
    (forall c, In c cuts -> c <= N.of_nat (length chain)) ->
    In (N.of_nat (length chain)) cuts ->
    let p := recovery_runs invalid_child inv_bound scopes W bs bday cuts chain fresh_pstate in
    (forall x k, In x all -> In k (block_keys (snd x)) ->
       In k (p_used p) /\ known invalid_child scopes p k = true) /\
    (p_txs p, p_unspent p) = ledger (txs_of all) /\
    (forall k, In (fst k) scopes -> get_next k p = found_before k all) /\
    (forall x k i, In x all -> In i (paid_on k (snd x)) -> i < get_next k p) /\
    p_synced p = N.of_nat (length chain).
Proof. exact recovery_complete. Qed.
Print Assumptions C16_recovery_complete.

(** The hypothesis, unfolded once, for the reader: *)
Theorem C16_within_window_unfold :
  forall invalid_child scopes W all,
    within_window invalid_child scopes W all <->
    (forall pre x post, all = pre ++ x :: post ->
       forall k i, In i (paid_on k (snd x)) ->
         In (fst k) scopes /\ valid invalid_child k i = true /\
         rank invalid_child k i < rank invalid_child k (found_before k pre) + W).
Proof. intros. unfold within_window, block_within. tauto. Qed.
Print Assumptions C16_within_window_unfold.

(** What "the ledger's recorded transactions" are: in chain order, each at
    most once (exactly once with distinct ids); every transaction that pays a
    wallet path, or spends a wallet output created earlier and not spent
    before, is among them with its block height; and nothing else is. *)
Theorem C16_recorded_in_chain_order_once :
  forall l, subseq (fst (ledger l)) (tx_tags l) /\
            (NoDup (ids l) -> NoDup (map snd (fst (ledger l)))).
Proof. intros l. split; [exact (ledger_rec_subseq l)|exact (ledger_rec_nodup l)]. Qed.
Print Assumptions C16_recorded_in_chain_order_once.

Theorem C16_recorded_every_relevant :
  forall l1 h t l2,
    has_keys t = true \/
    (exists o, In o (t_ins t) /\ In o (created l1) /\ ~ In o (inputs l1)) ->
    In (h, t_id t) (fst (ledger (l1 ++ (h, t) :: l2))).
Proof. exact ledger_records. Qed.
Print Assumptions C16_recorded_every_relevant.

Theorem C16_recorded_only_relevant :
  forall l r, In r (fst (ledger l)) ->
    exists l1 h t l2, l = l1 ++ (h, t) :: l2 /\ r = (h, t_id t) /\
      (has_keys t = true \/ exists o, In o (t_ins t) /\ In o (created l1)).
Proof. exact ledger_records_only. Qed.
Print Assumptions C16_recorded_only_relevant.

(** The unspent set of the ledger: created wallet outputs that no input of
    the chain spends are in it, and it holds only created wallet outputs
    (its sum is the balance). *)
Theorem C16_ledger_unspent :
  forall l o,
    (In o (created l) -> ~ In o (inputs l) -> In o (map fst (snd (ledger l)))) /\
    (In o (map fst (snd (ledger l))) -> In o (created l)).
Proof. intros l o. split; [apply ledger_utxo_complete|apply ledger_utxo_created]. Qed.
Print Assumptions C16_ledger_unspent.

(** The horizon rule of ExtendHorizon, invalid children counted as the code
    does: after expanding a consistent branch state, every valid index below
    the horizon is watched and at least [window] valid indices lie between
    nextUnfound and the horizon (the derivation loop never runs out of fuel). *)
Theorem C16_window_fully_expanded :
  forall (invalid_child : scope -> bool -> index -> bool) (inv_bound : N),
    (forall s b i, invalid_child s b i = true -> i < inv_bound) ->
  forall k W st,
    br_ok invalid_child k W st ->
    let st' := expand_branch invalid_child inv_bound k st in
    br_ok invalid_child k W st' /\
    b_next st' <= b_horizon st' /\
    rank invalid_child k (b_next st') + W <= rank invalid_child k (b_horizon st') /\
    b_next st' = b_next st.
Proof.
  intros ic ib Hb k W st Hok.
  destruct (expand_branch_ok ic ib Hb k W st Hok) as (H1 & (H2 & H3) & H4 & _).
  cbv zeta. fold (expand_branch' ic ib k st).
  destruct H1 as (Hw & Hrest). rewrite Hw in H3.
  split; [exact (conj Hw Hrest)|]. split; [exact H2|]. split; [exact H3|exact H4].
Qed.
Print Assumptions C16_window_fully_expanded.

(** (b) The birthday block search.  For EVERY timestamp sequence and birthday
    the search returns a block of the chain (its loop terminates) that is the
    genesis block or is stamped no later than birthday + 2h. *)
Theorem C16_birthday_search_total :
  forall ts bday, ts <> [] ->
    exists h, locate_birthday ts bday = Some h /\
              (0 <= h < Z.of_nat (length ts))%Z /\
              (h = 0 \/ ts_at ts h <= bday + birthday_block_delta)%Z.
Proof. exact locate_birthday_total. Qed.
Print Assumptions C16_birthday_search_total.

(** Hence, for non-decreasing block timestamps, it is not later than any
    block stamped later than birthday + 2h - the blocks that could pay the
    wallet (the wallet's stored birthday is its creation time - 48h). *)
Theorem C16_birthday_block_not_late :
  forall ts bday h,
    monotone_ts ts ->
    locate_birthday ts bday = Some h ->
    forall j, (0 <= j < Z.of_nat (length ts))%Z ->
      (bday + birthday_block_delta < ts_at ts j)%Z -> (h <= j)%Z.
Proof. exact locate_birthday_not_late. Qed.
Print Assumptions C16_birthday_block_not_late.

(** * Non-vacuity and exactness of the hypotheses *)

Definition ex_scopes : list scope := [0; 1; 2; 3].
Definition no_inv : scope -> bool -> index -> bool := fun _ _ _ => false.
(** child 1 of the external branch of scope 0 is invalid *)
Definition ex_inv : scope -> bool -> index -> bool :=
  fun s b i => (s =? 0) && negb b && (i =? 1).

Definition pay (k : key) (v : Z) : txout := {| o_key := Some k; o_val := v |}.
Definition other (v : Z) : txout := {| o_key := None; o_val := v |}.

(** W = 2 with an invalid child: block 1 pays external indices 0 and 2 of
    scope 0 (index 2 is the second VALID index, so it is inside the window
    only because the invalid child is counted), block 2 spends one of these
    outputs with change to internal index 1, block 3 is empty. *)
Definition ex_chain : list block :=
  [ [ {| t_id := 1; t_ins := [(100, 0)];
         t_outs := [pay (0, false, 0) 5000; other 7; pay (0, false, 2) 600] |} ];
    [ {| t_id := 2; t_ins := [(1, 0)]; t_outs := [other 4000; pay (0, true, 1) 900] |};
      {| t_id := 3; t_ins := [(101, 0)]; t_outs := [other 1] |} ];
    [] ].

Example C16_hypotheses_satisfiable :
  within_window ex_inv ex_scopes 2 (scanned_chain 0 ex_chain) /\ chain_wf (scanned_chain 0 ex_chain).
Proof.
  split.
  - intros pre x post E. unfold scanned_chain, ex_chain in E. simpl in E.
    intros k i Hi. unfold paid_on in Hi. apply found_indices_In in Hi.
    destruct pre as [|x1 pre]; [|destruct pre as [|x2 pre]; [|destruct pre as [|x3 pre]]].
    + injection E as E1 E2. subst x. simpl in Hi.
      destruct Hi as [Hi|[Hi|[]]]; injection Hi as Hk Hi'; subst k i; vm_compute; repeat split; auto 10.
    + injection E as E1 E2 E3. subst x x1. simpl in Hi.
      destruct Hi as [Hi|[]]; injection Hi as Hk Hi'; subst k i; vm_compute; repeat split; auto 10.
    + injection E as E1 E2 E3 E4. subst x. simpl in Hi. destruct Hi.
    + exfalso. injection E as E1 E2 E3 E4. destruct pre; discriminate.
  - split; vm_compute; repeat constructor; simpl; intuition discriminate.
Qed.

(** ... and on it the model, interrupted after block 1 and resumed, with a
    batch size of 1, ends as the theorem says. *)
Example C16_nonvacuous_run :
  let p := recovery_runs ex_inv 2 ex_scopes 2 1 0 [1; 3] ex_chain fresh_pstate in
  p_used p = [(0, true, 1); (0, false, 0); (0, false, 2)] /\
  p_txs p = [(1, 1); (2, 2)] /\
  p_unspent p = [((1, 2), 600%Z); ((2, 1), 900%Z)] /\
  get_next (0, false) p = 3 /\ get_next (0, true) p = 2 /\ p_synced p = 3.
Proof. vm_compute. repeat split. Qed.

(** Exactness of "EARLIER blocks": with W = 2 and no invalid children, paying
    indices 1 and 2 of one branch in the SAME block (2 comes into the window
    only through the payment to 1 in that very block) loses the payment to 2:
    the filter reports only matches inside the current horizon and the batch
    continues after the block.  The hypothesis excludes this chain
    (2 < 0 + 2 fails); the same payments in two consecutive blocks are found. *)
Definition ex_same_block : list block :=
  [ [ {| t_id := 1; t_ins := [(100, 0)]; t_outs := [pay (2, false, 1) 10; pay (2, false, 2) 20] |} ] ].
Definition ex_two_blocks : list block :=
  [ [ {| t_id := 1; t_ins := [(100, 0)]; t_outs := [pay (2, false, 1) 10] |} ];
    [ {| t_id := 2; t_ins := [(101, 0)]; t_outs := [pay (2, false, 2) 20] |} ] ].

Example C16_same_block_beyond_window_is_missed :
  let p := recovery_runs no_inv 0 ex_scopes 2 2000 0 [1] ex_same_block fresh_pstate in
  p_used p = [(2, false, 1)] /\ get_next (2, false) p = 2 /\
  p_unspent p = [((1, 0), 10%Z)] /\
  let q := recovery_runs no_inv 0 ex_scopes 2 2000 0 [2] ex_two_blocks fresh_pstate in
  p_used q = [(2, false, 2); (2, false, 1)] /\ get_next (2, false) q = 3 /\
  p_unspent q = [((1, 0), 10%Z); ((2, 0), 20%Z)].
Proof. vm_compute. repeat split. Qed.

(** The birthday search: a chain on which the result is later than the first
    block stamped after the birthday itself (every block lies within the
    two-hour tolerance); the guarantee is relative to birthday + 2h. *)
Example C16_birthday_within_tolerance_not_first :
  locate_birthday [0; 100; 200; 300; 400]%Z 50%Z = Some 2%Z /\
  (ts_at [0; 100; 200; 300; 400] 1 > 50)%Z.
Proof. vm_compute. split; reflexivity. Qed.

(** plateaus, a jump, birthday before genesis / after the tip *)
Example C16_birthday_examples :
  locate_birthday [0; 10; 10; 10; 9000; 9000; 20000; 50000]%Z 9000%Z = Some 5%Z /\
  locate_birthday [0; 10; 10; 10; 9000; 9000; 20000; 50000]%Z (-100000)%Z = Some 0%Z /\
  locate_birthday [0; 10; 10; 10; 9000; 9000; 20000; 50000]%Z 100000%Z = Some 6%Z /\
  locate_birthday [5]%Z 0%Z = Some 0%Z.
Proof. vm_compute. repeat split. Qed.

(** * (c) From the recovered state to the balance the wallet reports (C01)

    The chain is translated into a universe of the transaction-store model
    ([universe_of]: same ids and inputs, output amounts, credited outputs =
    the outputs paying a wallet path with the change flag of the branch,
    coinbase flag [cb id]) and the transactions recovery records ([p_txs], in
    order, with their heights) into the history of [Confirm] events that
    addRelevantTx applies to the store ([history_of]).  Under the hypotheses
    of (a) and the well-formedness the store model asks of a universe
    ([chain_txs_wf]: ids increase along the chain and every input names a
    smaller id - the rank convention of Tx/Hist.v -, inputs that name a chain
    transaction name one of its outputs, amounts positive, no outpoint spent
    twice, coinbase transactions without inputs), this history is
    chain-consistent for a well-formed universe; hence by C01 the store's
    Balance(minconf 1) at the tip equals the ledger balance of the history's
    facts, and that is the sum of the model's final unspent wallet outputs
    that are mature (not an immature coinbase output) - the chain's true
    wallet balance. *)
From Verif Require Import Tx.Store Tx.Ledger Tx.Hist Recovery.RecoveryLedger.

Theorem C16_recovered_balance_is_ledger_balance :
  forall (invalid_child : scope -> bool -> index -> bool) (inv_bound : N),
    (forall s b i, invalid_child s b i = true -> (i < inv_bound)%N) ->
  forall scopes : list scope, List.NoDup scopes ->
  forall (W : N) (bs : nat) (bday : N) (chain : list block) (cuts : list N) (cb : N -> bool),
    let all := scanned_chain bday chain in
    within_window invalid_child scopes W all ->
    chain_txs_wf cb (txs_of all) ->
    (forall c, In c cuts -> (c <= N.of_nat (length chain))%N) ->
    In (N.of_nat (length chain)) cuts ->
    let p := recovery_runs invalid_child inv_bound scopes W bs bday cuts chain fresh_pstate in
    let U := universe_of cb (txs_of all) in
    let H := history_of (p_txs p) in
    let tip := Z.of_nat (length chain) in
    wf_universe U = true /\ chain_consistent U H = true /\
    balance U (st (run U H)) 1 tip (clock (run U H)) =
      spec_balance U (fs (spec_run U H)) 1 tip (clock (run U H)) /\
    spec_balance U (fs (spec_run U H)) 1 tip (clock (run U H)) =
      mature_sum cb (p_txs p) tip (p_unspent p).
Proof. exact recovered_balance_is_ledger_balance. Qed.
Print Assumptions C16_recovered_balance_is_ledger_balance.

(** Parts of it that hold for every well-formed chain, whatever was recorded:
    the translated universe is well formed and the ledger's recorded list is a
    chain-consistent history. *)
Theorem C16_translation_wellformed_and_consistent :
  forall cb txs, ledger_wf cb txs ->
    wf_universe (universe_of cb txs) = true /\
    chain_consistent (universe_of cb txs) (history_of (fst (ledger txs))) = true.
Proof. intros cb txs Hwf. split; [exact (universe_wf cb txs Hwf)|exact (history_consistent cb txs Hwf)]. Qed.
Print Assumptions C16_translation_wellformed_and_consistent.

(** Non-vacuity: ids are ranks (the foreign funding outpoint has id 1);
    block 1 funds external index 0, block 2 spends it with change to internal
    index 0, block 3 holds a coinbase (id 30) paying external index 1 - still
    immature at the tip, so the balance is the change output alone. *)
Definition bal_chain : list block :=
  [ [ {| Recovery.t_id := 10; Recovery.t_ins := [(1, 0)]%N;
         Recovery.t_outs := [pay (0, false, 0)%N 5000] |} ];
    [ {| Recovery.t_id := 20; Recovery.t_ins := [(10, 0)]%N;
         Recovery.t_outs := [other 4000; pay (0, true, 0)%N 900] |} ];
    [ {| Recovery.t_id := 30; Recovery.t_ins := [];
         Recovery.t_outs := [pay (0, false, 1)%N 50] |} ] ]%N.
Definition bal_cb (id : N) : bool := N.eqb id 30.

Example C16_balance_nonvacuous :
  let p := recovery_runs no_inv 0 ex_scopes 2 2000 0 [3%N] bal_chain fresh_pstate in
  let U := universe_of bal_cb (txs_of (scanned_chain 0 bal_chain)) in
  let H := history_of (p_txs p) in
  wf_universe U = true /\ chain_consistent U H = true /\
  p_unspent p = [((20, 1)%N, 900%Z); ((30, 0)%N, 50%Z)] /\
  balance U (st (run U H)) 1 3 (clock (run U H)) = 900%Z /\
  mature_sum bal_cb (p_txs p) 3 (p_unspent p) = 900%Z /\
  balance U (st (run U H)) 1 102 (clock (run U H)) = 950%Z /\
  mature_sum bal_cb (p_txs p) 102 (p_unspent p) = 950%Z.
Proof. vm_compute. repeat split. Qed.

(** ... and the chain satisfies the hypotheses of the theorem. *)
Example C16_balance_hypotheses_satisfiable :
  chain_txs_wf bal_cb (txs_of (scanned_chain 0 bal_chain)) /\
  within_window no_inv ex_scopes 2 (scanned_chain 0 bal_chain).
Proof.
  split.
  - assert (E : txs_of (scanned_chain 0 bal_chain) =
                [ (1%N, {| Recovery.t_id := 10; Recovery.t_ins := [(1, 0)]%N;
                           Recovery.t_outs := [pay (0, false, 0)%N 5000] |});
                  (2%N, {| Recovery.t_id := 20; Recovery.t_ins := [(10, 0)]%N;
                           Recovery.t_outs := [other 4000; pay (0, true, 0)%N 900] |});
                  (3%N, {| Recovery.t_id := 30; Recovery.t_ins := [];
                           Recovery.t_outs := [pay (0, false, 1)%N 50] |}) ]) by reflexivity.
    rewrite E. clear E.
    split.
    + vm_compute. repeat constructor.
    + intros x Hx. apply In_elem_of in Hx; simpl in Hx. destruct Hx as [<- | [<- | [<- | [] ] ] ]; simpl; (split; [discriminate|]);
        intros o Ho; apply In_elem_of in Ho; simpl in Ho; try (destruct Ho as [<- | [] ]; vm_compute; reflexivity); destruct Ho.
    + intros x y o Hx Hy Ho Ey. apply In_elem_of in Hx; simpl in Hx. apply In_elem_of in Hy; simpl in Hy.
      destruct Hx as [<- | [<- | [<- | [] ] ] ]; apply In_elem_of in Ho; simpl in Ho;
        try (destruct Ho as [<- | [] ]); try (destruct Ho);
        destruct Hy as [<- | [<- | [<- | [] ] ] ]; simpl in Ey; try discriminate Ey; simpl; lia.
    + intros x o Hx Ho. apply In_elem_of in Hx; simpl in Hx.
      destruct Hx as [<- | [<- | [<- | [] ] ] ]; apply In_elem_of in Ho; simpl in Ho;
        repeat (destruct Ho as [<-|Ho]; [simpl; lia|]); destruct Ho.
    + apply NoDup_iff_ListNoDup. vm_compute. repeat constructor; simpl; intuition discriminate.
    + intros x Hx Hcb. apply In_elem_of in Hx; simpl in Hx. destruct Hx as [<- | [<- | [<- | [] ] ] ]; simpl in *; try discriminate Hcb; reflexivity.
  - intros pre x post E. unfold scanned_chain, bal_chain in E. simpl in E.
    intros k i Hi. unfold paid_on in Hi. apply found_indices_In in Hi.
    destruct pre as [|x1 pre]; [|destruct pre as [|x2 pre]; [|destruct pre as [|x3 pre]]].
    + injection E as E1 E2. subst x. simpl in Hi.
      destruct Hi as [Hi | [] ]; injection Hi as Hk Hi'; subst k i; vm_compute; repeat split; auto 10.
    + injection E as E1 E2 E3. subst x x1. simpl in Hi.
      destruct Hi as [Hi | [] ]; injection Hi as Hk Hi'; subst k i; vm_compute; repeat split; auto 10.
    + injection E as E1 E2 E3 E4. subst x x1 x2. simpl in Hi.
      destruct Hi as [Hi | [] ]; injection Hi as Hk Hi'; subst k i; vm_compute; repeat split; auto 10.
    + exfalso. injection E as E1 E2 E3 E4. destruct pre; discriminate.
Qed.

(** * (d) The production entry point

    Production does not call [recovery] on a wallet at height 0 with a
    birthday block handed in: handleChainNotifications, on ClientConnected,
    runs birthdaySanityCheck and syncWithChain.  For a wallet restored from
    seed no birthday block is stored, so syncWithChain locates it on the
    backend's chain, stores it as synced-to AND as verified birthday block,
    and recovery then scans from synced-to + 1 ([startup], [first_start] in
    Recovery.v).  Every later start finds the stored block and resumes from
    the stored synced-to height.

    The exact boundary: the blocks scanned are those STRICTLY AFTER the
    located birthday block, heights b+1 .. tip ([blocks_after b chain]); the
    located block itself is never scanned.  That loses nothing the property
    promises: the located block is the genesis block or is stamped no later
    than the stored birthday + 2h, hence is not a block that could pay the
    wallet, and the first scanned block b+1 is still not later than the first
    block that could (C16_first_scanned_block_not_late). *)

(** [blocks_after b chain] is the chain without its first [b] blocks,
    numbered from height b+1: each later block once, in chain order. *)
Theorem C16_blocks_after_unfold :
  forall b (chain : list block),
    blocks_after b chain = number_from (b + 1) (skipn (N.to_nat b) chain).
Proof. exact (blocks_after_numbered no_inv 0 (fun _ _ _ H => False_ind _ (Bool.diff_false_true H))). Qed.
Print Assumptions C16_blocks_after_unfold.

(** One run of [recovery] is: resurrect the recovery state, then for every
    entry of [loop_flushes] - which depends on the heights, the batch size
    and the birthday height only - recover that batch and set synced-to. *)
Theorem C16_recovery_run_is_fold_of_flushes :
  forall invalid_child inv_bound scopes w bs bday best chain p,
    recovery invalid_child inv_bound scopes w bs bday best chain p =
    snd (fold_left (flush invalid_child inv_bound scopes)
           (loop_flushes (heights_to_scan chain (p_synced p) best) best bs bday [])
           (resurrect invalid_child scopes w p, p)).
Proof. intros. unfold recovery. f_equal. apply recovery_loop_flushes. Qed.
Print Assumptions C16_recovery_run_is_fold_of_flushes.

(** The batches of one run from synced-to height [synced] (at least the
    birthday height - 1, as it always is once syncWithChain has stored the
    birthday block as synced-to), concatenated in flushing order, are exactly
    the blocks at heights synced+1 .. best: every block once, in order, none
    skipped, for every batch size. *)
Theorem C16_run_scans_each_later_block_once_in_order :
  forall (bs : nat) (bday best : N) (chain : list block) (synced : N),
    bday <= synced + 1 -> best <= N.of_nat (length chain) ->
    concat (map snd (loop_flushes (heights_to_scan chain synced best) best bs bday [])) =
    firstn (N.to_nat (best - synced)) (blocks_after synced chain).
Proof. exact (run_scans no_inv 0 (fun _ _ _ H => False_ind _ (Bool.diff_false_true H))). Qed.
Print Assumptions C16_run_scans_each_later_block_once_in_order.

(** ... and over all starts (synced-to follows the maximum of the heights the
    chain had, [runs_scanned]) the scanned blocks are exactly the blocks
    after the height synced-to started at - for the first start of a restored
    wallet, the located birthday block. *)
Theorem C16_all_runs_scan_exactly_the_blocks_after :
  forall (bs : nat) (bday : N) (chain : list block) (cuts : list N) (synced : N),
    bday <= synced + 1 ->
    (forall c, In c cuts -> c <= N.of_nat (length chain)) ->
    fold_left N.max cuts synced = N.of_nat (length chain) ->
    runs_scanned bs bday cuts chain synced = blocks_after synced chain.
Proof. exact (runs_scanned_all no_inv 0 (fun _ _ _ H => False_ind _ (Bool.diff_false_true H))). Qed.
Print Assumptions C16_all_runs_scan_exactly_the_blocks_after.

(** Completeness from the production entry.  [ts] = block timestamps by
    height, [birthday] the stored birthday; the wallet is first started when
    the chain is [c0] blocks long (the search then returns height [b]) and
    again at each height of [cuts], the last start seeing the whole chain.
    If the blocks after [b] satisfy the look-ahead hypothesis, the start-ups
    succeed, store [b] as birthday block, and end with every path paid after
    block [b] discovered and used, the recorded transactions and unspent
    outputs those of the ledger of the blocks after [b], each branch's next
    index above every paid index, and the wallet synced to the tip. *)
Theorem C16_first_sync_recovery_complete :
  forall (invalid_child : scope -> bool -> index -> bool) (inv_bound : N),
    (forall s b i, invalid_child s b i = true -> i < inv_bound) ->
  forall scopes : list scope, NoDup scopes ->
  forall (W : N) (bs : nat) (ts : list Z) (birthday : Z) (chain : list block)
         (c0 : N) (cuts : list N) (hz : Z),
    locate_birthday (firstn (S (N.to_nat c0)) ts) birthday = Some hz ->
    let b := Z.to_N hz in
    let all := blocks_after b chain in
    within_window invalid_child scopes W all ->
    chain_wf all ->
    (forall c, In c (c0 :: cuts) -> c <= N.of_nat (length chain)) ->
    In (N.of_nat (length chain)) (c0 :: cuts) ->
    exists p,
      startups invalid_child inv_bound scopes W bs ts birthday (c0 :: cuts) chain fresh_wstate =
        Some {| w_bblock := Some b; w_p := p |} /\
      b <= c0 /\
      (forall x k, In x all -> In k (block_keys (snd x)) ->
         In k (p_used p) /\ Recovery.known invalid_child scopes p k = true) /\
      (p_txs p, p_unspent p) = ledger (txs_of all) /\
      (forall k, In (fst k) scopes -> get_next k p = found_before k all) /\
      (forall x k i, In x all -> In i (paid_on k (snd x)) -> i < get_next k p) /\
      p_synced p = N.of_nat (length chain).
Proof. exact startups_complete. Qed.
Print Assumptions C16_first_sync_recovery_complete.

(** The search always returns a block ([C16_birthday_search_total]), so the
    premise [locate_birthday ... = Some hz] only names its result. *)

(** The first block scanned from the production entry, b+1, is not later
    than any block after genesis stamped later than birthday + 2h, also when
    the search ran on a chain that ended at height [c0] and grew afterwards
    (timestamps non-decreasing). *)
Theorem C16_first_scanned_block_not_late :
  forall ts bday (c0 : nat) h,
    monotone_ts ts ->
    locate_birthday (firstn (S c0) ts) bday = Some h ->
    (h <= Z.of_nat c0)%Z /\
    forall j, (1 <= j < Z.of_nat (length ts))%Z ->
      (bday + birthday_block_delta < ts_at ts j)%Z -> (h + 1 <= j)%Z.
Proof. exact first_scanned_not_late_truncated. Qed.
Print Assumptions C16_first_scanned_block_not_late.

(** End to end from the production entry: the balance the transaction store
    reports after the start-ups is the ledger balance of the blocks after the
    located birthday block (hypotheses as in (c), over [blocks_after b]). *)
Theorem C16_first_sync_balance_is_ledger_balance :
  forall (invalid_child : scope -> bool -> index -> bool) (inv_bound : N),
    (forall s b i, invalid_child s b i = true -> (i < inv_bound)%N) ->
  forall scopes : list scope, List.NoDup scopes ->
  forall (W : N) (bs : nat) (ts : list Z) (birthday : Z) (chain : list block)
         (c0 : N) (cuts : list N) (hz : Z) (cb : N -> bool),
    locate_birthday (firstn (S (N.to_nat c0)) ts) birthday = Some hz ->
    let b := Z.to_N hz in
    let all := blocks_after b chain in
    within_window invalid_child scopes W all ->
    chain_txs_wf cb (txs_of all) ->
    (forall c, In c (c0 :: cuts) -> (c <= N.of_nat (length chain))%N) ->
    In (N.of_nat (length chain)) (c0 :: cuts) ->
    exists p,
      startups invalid_child inv_bound scopes W bs ts birthday (c0 :: cuts) chain fresh_wstate =
        Some {| w_bblock := Some b; w_p := p |} /\
      let U := universe_of cb (txs_of all) in
      let H := history_of (p_txs p) in
      let tip := Z.of_nat (length chain) in
      wf_universe U = true /\ chain_consistent U H = true /\
      balance U (st (run U H)) 1 tip (clock (run U H)) =
        spec_balance U (fs (spec_run U H)) 1 tip (clock (run U H)) /\
      spec_balance U (fs (spec_run U H)) 1 tip (clock (run U H)) =
        mature_sum cb (p_txs p) tip (p_unspent p).
Proof. exact first_sync_balance_is_ledger_balance. Qed.
Print Assumptions C16_first_sync_balance_is_ledger_balance.

(** Non-vacuity and exactness of the boundary.  Timestamps: blocks 0..2 lie
    more than 2h before the birthday (100000), blocks 3..5 more than 2h
    after; the search returns block 2.  Block 2 (the birthday block) pays
    external index 0, block 3 - the first block scanned - pays index 1,
    block 5 spends that output with change.  W = 2, batch size 2, first start
    at height 4, second at 5.  The payment in block 2 is not found (it is not
    promised: block 2 is stamped before the birthday); everything after is. *)
Definition sync_ts : list Z := [0; 600; 1200; 200000; 200600; 201200]%Z.
Definition sync_chain : list block :=
  [ []; [ {| Recovery.t_id := 1; Recovery.t_ins := [(100, 0)]; Recovery.t_outs := [pay (0, false, 0) 111] |} ];
    [ {| Recovery.t_id := 2; Recovery.t_ins := [(101, 0)]; Recovery.t_outs := [pay (0, false, 1) 5000] |} ];
    [];
    [ {| Recovery.t_id := 3; Recovery.t_ins := [(2, 0)]; Recovery.t_outs := [other 4000; pay (0, true, 0) 900] |} ] ]%N.

Example C16_first_sync_nonvacuous :
  locate_birthday (firstn 5 sync_ts) 100000%Z = Some 2%Z /\
  match startups no_inv 0 ex_scopes 2 2 sync_ts 100000%Z [4; 5] sync_chain fresh_wstate with
  | Some ws =>
      w_bblock ws = Some 2 /\
      p_used (w_p ws) = [(0, true, 0); (0, false, 1)] /\
      p_txs (w_p ws) = [(3, 2); (5, 3)] /\
      p_unspent (w_p ws) = [((3, 1), 900%Z)] /\
      get_next (0, false) (w_p ws) = 2 /\ get_next (0, true) (w_p ws) = 1 /\
      p_synced (w_p ws) = 5
  | None => False
  end /\
  blocks_after 2 sync_chain =
    [ (3, [ {| Recovery.t_id := 2; Recovery.t_ins := [(101, 0)]; Recovery.t_outs := [pay (0, false, 1) 5000] |} ]);
      (4, []);
      (5, [ {| Recovery.t_id := 3; Recovery.t_ins := [(2, 0)]; Recovery.t_outs := [other 4000; pay (0, true, 0) 900] |} ]) ] /\
  (* the batches of the two runs: heights 3,4 then 5 *)
  map (fun f => (fst f, map fst (snd f))) (loop_flushes (heights_to_scan sync_chain 2 4) 4 2 2 []) = [(4, [3; 4])] /\
  map (fun f => (fst f, map fst (snd f))) (loop_flushes (heights_to_scan sync_chain 4 5) 5 2 2 []) = [(5, [5])].
Proof. vm_compute. repeat split. Qed.

(** ... and the hypotheses of the theorem hold on it. *)
Example C16_first_sync_hypotheses_satisfiable :
  within_window no_inv ex_scopes 2 (blocks_after 2 sync_chain) /\ chain_wf (blocks_after 2 sync_chain).
Proof.
  split.
  - intros pre x post E. change (blocks_after 2 sync_chain) with
      [ (3, [ {| Recovery.t_id := 2; Recovery.t_ins := [(101, 0)]; Recovery.t_outs := [pay (0, false, 1) 5000] |} ]);
        (4, @nil Recovery.tx);
        (5, [ {| Recovery.t_id := 3; Recovery.t_ins := [(2, 0)]; Recovery.t_outs := [other 4000; pay (0, true, 0) 900] |} ]) ] in E.
    intros k i Hi. unfold paid_on in Hi. apply found_indices_In in Hi.
    destruct pre as [|x1 pre]; [|destruct pre as [|x2 pre]; [|destruct pre as [|x3 pre]]].
    + injection E as E1 E2. subst x. simpl in Hi.
      destruct Hi as [Hi | [] ]; injection Hi as Hk Hi'; subst k i; vm_compute; repeat split; auto 10.
    + injection E as E1 E2 E3. subst x. simpl in Hi. destruct Hi.
    + injection E as E1 E2 E3 E4. subst x x1 x2. simpl in Hi.
      destruct Hi as [Hi | [] ]; injection Hi as Hk Hi'; subst k i; vm_compute; repeat split; auto 10.
    + exfalso. injection E as E1 E2 E3 E4. destruct pre; discriminate.
  - split; vm_compute; repeat constructor; simpl; intuition discriminate.
Qed.
