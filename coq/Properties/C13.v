(** C13 - Transaction history shows each known transaction once, at its
    current status.  Property theorems only. *)
From stdpp Require Import gmap list numbers sorting.
From Coq Require Import ZArith NArith.
From Verif Require Import Tx.Store Tx.Ledger Tx.Hist Tx.Inv Tx.Refine Tx.RefineAll Tx.Corollaries.
Local Open Scope Z_scope.

(** After every prefix of a chain-consistent history, for every transaction of
    the universe: direct lookup reports it iff the ledger knows it, under its
    current block (or as unconfirmed), with each credited output (amount,
    change flag, spent flag = some known transaction spends it) and one debit
    per input spending a wallet credit ([spec_details]); the lookup by its
    current incidence agrees; the unconfirmed set is exactly the ledger's. *)
Theorem C13_details_equal_ledger :
  ∀ (U : universe) (h p : list event) (t : txid),
    wf_universe U = true → chain_consistent U h = true → p `prefix_of` h →
    let s := st (run U p) in let F := fs (spec_run U p) in
    tx_details U s t = spec_details U F t ∧
    unique_tx_details U s t (f_conf F !! t) = spec_details U F t ∧
    unmined_hashes s ≡ₚ elements (f_unconf F).
Proof. exact c13_holds. Qed.
Print Assumptions C13_details_equal_ledger.

(** PARTIAL: range iteration ([range_transactions]) is part of the model and of
    the correspondence run (both directions, -1 conventions), but its
    "each known transaction exactly once, under its current block" statement
    is not yet a closed theorem; it follows from [inv_blocks_sound],
    [inv_blocks_complete] and [inv_unmined] of the invariant. *)
