(** C13 - Transaction history shows each known transaction once, at its
    current status.  Property theorems only. *)
From stdpp Require Import gmap list numbers sorting.
From Coq Require Import ZArith NArith.
From Verif Require Import Tx.Store Tx.Ledger Tx.Hist Tx.Inv Tx.Refine Tx.RefineAll Tx.Corollaries Tx.InvObs Tx.InvRange
  Tx.Query Tx.QueryProofs.
Local Open Scope Z_scope.

(** After every prefix of a chain-consistent history, for every transaction of
    the universe: direct lookup reports it iff the ledger knows it, under its
    current block (or as unconfirmed), with each credited output (amount,
    change flag, spent flag = some known transaction spends it) and one debit
    per input spending a wallet credit ([spec_details]); the lookup by its
    current incidence agrees; the unconfirmed set is exactly the ledger's. *)
Theorem C13_details_equal_ledger :
  ∀ (U : universe) (h p : list event) (t : txid),
    wf_universe U = true → chain_consistent U h = true → p `prefix_of` h →
    let s := st (run U p) in let F := fs (spec_run U p) in
    tx_details U s t = spec_details U F t ∧
    unique_tx_details U s t (f_conf F !! t) = spec_details U F t ∧
    unmined_hashes s ≡ₚ elements (f_unconf F).
Proof. exact c13_holds. Qed.
Print Assumptions C13_details_equal_ledger.

(** Range iteration, in either direction: after every prefix of every
    chain-consistent history, for every (begin, end) with the -1 convention,
    the block groups correspond one-to-one and in order (ascending, or
    descending when begin >= end) to the confirmed heights inside the range,
    each group holding exactly the transactions currently confirmed at that
    height, once, with details equal to the ledger's; the unconfirmed group
    holds exactly the unconfirmed transactions, once; the full forward and
    backward iterations report every known transaction exactly once (a
    permutation of the ledger's known list: removed transactions never), the
    unconfirmed group last resp. first, the backward block groups being the
    reverse of the forward ones (confirmed heights below 2^31). *)
Theorem C13_range_iteration_equals_ledger :
  ∀ (U : universe) (h p : list event),
    wf_universe U = true → chain_consistent U h = true → p `prefix_of` h →
    let s := st (run U p) in let F := fs (spec_run U p) in
    (∀ b e, ∃ hl : list Z,
        (if bool_decide (rb_bound b < rb_bound e) then StronglySorted Z.lt hl
         else StronglySorted (flip Z.lt) hl) ∧
        (∀ hh, hh ∈ hl ↔ conf_height F hh ∧
                         Z.min (rb_bound b) (rb_bound e) <= hh <= Z.max (rb_bound b) (rb_bound e)) ∧
        Forall2 (block_group_ok U s F) hl (range_blocks U s b e)) ∧
    (range_unmined U s = [] ↔ f_unconf F = ∅) ∧
    (f_unconf F ≠ ∅ → ∃ g, range_unmined U s = [g] ∧ unmined_group_ok U s F g) ∧
    ((∀ t hh b, f_conf F !! t = Some (hh, b) → hh <= max_i32) →
     group_txids (range_transactions U s 0 (-1)) ≡ₚ known_list F ∧
     group_txids (range_transactions U s (-1) 0) ≡ₚ known_list F ∧
     range_transactions U s 0 (-1) = range_blocks U s 0 (-1) ++ range_unmined U s ∧
     range_transactions U s (-1) 0 = range_unmined U s ++ reverse (range_blocks U s 0 (-1))).
Proof.
  intros U h p Hwf Hcons Hpre.
  destruct (refinement_prefix U h p Hwf Hcons Hpre) as [HI _].
  destruct (range_correct U _ _ Hwf HI) as (H1 & _ & H3 & H4 & H5).
  split; [exact H1|]. split; [exact H3|]. split; [exact H4|].
  intros Hmax. destruct (H5 Hmax) as (Ha & Hb & Hc & _ & He). auto.
Qed.
Print Assumptions C13_range_iteration_equals_ledger.

(** What is ever watched and what is listed as leased are the ledger's too. *)
Theorem C13_watch_and_lease_lists : ∀ (U : universe) (h p : list event) (now : Z),
  wf_universe U = true → chain_consistent U h = true → p `prefix_of` h →
  let s := st (run U p) in let F := fs (spec_run U p) in
  map u_op (outputs_to_watch U s now) ≡ₚ spec_watch U F ∧
  list_locked s now ≡ₚ filter (fun kv => now < l_expiry kv.2) (map_to_list (f_leases F)).
Proof.
  intros U h p now Hwf Hcons Hpre.
  destruct (refinement_prefix U h p Hwf Hcons Hpre) as [HI _].
  split; [by apply watch_correct | by apply (locked_list_correct U)].
Qed.
Print Assumptions C13_watch_and_lease_lists.

(** Lookup qualified by a block (UniqueTxDetails with block <> nil, the
    branch RPC and GetTransactions use): after every prefix of a
    chain-consistent history, for every transaction and EVERY block (height,
    hash), the lookup returns the ledger's details iff the ledger has the
    transaction confirmed in exactly that block, and nothing otherwise - not
    for the block it was in before a reorganisation, not for a block it never
    was in, not for the right height under another hash; with block = nil it
    answers iff the transaction is unconfirmed. *)
Theorem C13_block_qualified_lookup :
  ∀ (U : universe) (h p : list event) (t : txid),
    wf_universe U = true → chain_consistent U h = true → p `prefix_of` h →
    let s := st (run U p) in let F := fs (spec_run U p) in
    (∀ bb : blockid, unique_tx_details U s t (Some bb) =
                     if bool_decide (f_conf F !! t = Some bb) then spec_details U F t else None) ∧
    unique_tx_details U s t None = if bool_decide (t ∈ f_unconf F) then spec_details U F t else None.
Proof. exact c13_block_lookup. Qed.
Print Assumptions C13_block_qualified_lookup.

(** Range iteration with its callback, full details: for every (begin, end)
    and every callback that answers "stop" on its k-th call (k = 0: never),
    the callback has seen exactly the first k groups of the iteration (all of
    them for k = 0) and no error is raised; and these groups are, in order,
    the groups the ledger prescribes ([spec_range]: unconfirmed group first
    when begin < 0, last when only end < 0; one group per confirmed height in
    the range, ascending or descending), each delivered group being a
    PERMUTATION of the prescribed one: every transaction of the group exactly
    once, with the ledger's block, credits (index, amount, spent, change) and
    debits.  The order inside a group is not fixed. *)
Theorem C13_range_groups_with_details_and_early_exit :
  ∀ (U : universe) (h p : list event) (b e : Z) (k : nat),
    wf_universe U = true → chain_consistent U h = true → p `prefix_of` h →
    let s := st (run U p) in let F := fs (spec_run U p) in
    range_collect U s b e k = take_stop k (range_transactions U s b e) ∧
    Forall2 (≡ₚ) (range_collect U s b e k) (take_stop k (spec_range U F b e)).
Proof. exact c13_range_groups. Qed.
Print Assumptions C13_range_groups_with_details_and_early_exit.

(** PreviousPkScripts for a known transaction asked at its current status
    (nil block while unconfirmed, the confirming block otherwise): exactly one
    script per input that spends a wallet credit - an output credited to the
    wallet by a known transaction - in input order, nothing for foreign
    inputs, never a data error. *)
Theorem C13_previous_scripts :
  ∀ (U : universe) (h p : list event) (t : txid),
    wf_universe U = true → chain_consistent U h = true → p `prefix_of` h →
    let s := st (run U p) in let F := fs (spec_run U p) in
    known F t = true →
    previous_pkscripts U s t (f_conf F !! t) = Some (spec_prev U F t).
Proof. exact c13_previous_scripts. Qed.
Print Assumptions C13_previous_scripts.

(** Wallet.GetTransactions: (1) it is the range iteration over the resolved
    identifiers (nil = 0 resp. -1, a height as given, a hash as the chain
    backend resolves it, a backend error is returned), every block group
    becoming one entry of the mined list in iteration order, the unconfirmed
    group the unmined list, a closed cancel channel stopping after the first
    group; (2) its result is the one the ledger prescribes
    ([spec_get_transactions], a function of the facts only) up to the order
    inside a group: each transaction in range once, under the block that
    currently confirms it or in the unmined list, with its debits (input
    index, amount), credited output indices and fee. *)
Theorem C13_get_transactions :
  ∀ (U : universe) (h p : list event) (start end_ : option bident) (cancel : bool),
    wf_universe U = true → chain_consistent U h = true → p `prefix_of` h →
    let s := st (run U p) in let F := fs (spec_run U p) in
    get_transactions U s start end_ cancel =
      match resolve_ident 0 start, resolve_ident (-1) end_ with
      | Some b, Some e =>
        GtOk (spec_gt_of_groups U (take_stop (if cancel then 1%nat else O) (range_transactions U s b e)))
      | _, _ => GtErr
      end ∧
    match spec_get_transactions U F start end_ cancel with
    | Some r' => ∃ r, get_transactions U s start end_ cancel = GtOk r ∧ gt_equiv r r'
    | None => get_transactions U s start end_ cancel = GtErr
    end.
Proof. exact c13_get_transactions. Qed.
Print Assumptions C13_get_transactions.

(** The complete listing, GetTransactions(nil, nil): every transaction the
    ledger knows is listed exactly once (the listed txids are a permutation of
    the known ones) - a confirmed one in the entry of the block that currently
    confirms it, an unconfirmed one in the unmined list; removed transactions
    nowhere (confirmed heights below 2^31). *)
Theorem C13_get_transactions_lists_each_known_transaction_once :
  ∀ (U : universe) (h p : list event),
    wf_universe U = true → chain_consistent U h = true → p `prefix_of` h →
    let s := st (run U p) in let F := fs (spec_run U p) in
    (∀ t hh b, f_conf F !! t = Some (hh, b) → hh <= max_i32) →
    ∃ r, get_transactions U s None None false = GtOk r ∧
         gt_txids r ≡ₚ known_list F ∧
         (∀ blk txs x, (blk, txs) ∈ gt_mined r → x ∈ txs → f_conf F !! sm_tx x = Some blk) ∧
         (∀ x, x ∈ gt_unmined r → sm_tx x ∈ f_unconf F).
Proof. exact c13_get_transactions_all. Qed.
Print Assumptions C13_get_transactions_lists_each_known_transaction_once.

(** Non-vacuity: a transaction confirmed in block (10, #1), detached and
    confirmed again in block (10, #2), with an unconfirmed child spending its
    first credit: the stale block and a wrong height answer nothing, the
    current block answers with the spent flag set by the unconfirmed child;
    the child's input script; GetTransactions by end hash; early exit after
    the unconfirmed group. *)
Definition ex_universe : universe := universe_of_list
  [ {| t_id := 2%N; t_ins := [(1%N, 0%N)]; t_outs := [5000; 700]; t_creds := [(0%N, false); (1%N, true)]; t_coinbase := false |};
    {| t_id := 4%N; t_ins := [(2%N, 0%N); (3%N, 1%N)]; t_outs := [4000]; t_creds := [(0%N, false)]; t_coinbase := false |} ].
Definition ex_history : list event :=
  [Confirm 2%N 10 1%N 0; Seen 4%N; Disconnect 10; Confirm 2%N 10 2%N 0].

Example C13_example_reorg_lookup :
  wf_universe ex_universe = true ∧ chain_consistent ex_universe ex_history = true ∧
  let s := st (run ex_universe ex_history) in
  unique_tx_details ex_universe s 2%N (Some (10, 1%N)) = None ∧
  unique_tx_details ex_universe s 2%N (Some (11, 2%N)) = None ∧
  unique_tx_details ex_universe s 2%N (Some (10, 2%N)) =
    Some {| d_block := Some (10, 2%N);
            d_credits := [ {| cr_index := 0; cr_amt := 5000; cr_spent := true; cr_change := false |};
                           {| cr_index := 1; cr_amt := 700; cr_spent := false; cr_change := true |} ];
            d_debits := [] |} ∧
  previous_pkscripts ex_universe s 4%N None = Some [(2%N, 0%N)] ∧
  get_transactions ex_universe s None (Some (IdHash (Some 10))) false =
    GtOk {| gt_mined := [((10, 2%N), [ {| sm_tx := 2; sm_inputs := []; sm_outputs := [0%N; 1%N]; sm_fee := 0 |} ])];
            gt_unmined := [] |} ∧
  range_collect ex_universe s (-1) 0 1 =
    [[(4%N, {| d_block := None;
               d_credits := [ {| cr_index := 0; cr_amt := 4000; cr_spent := false; cr_change := false |} ];
               d_debits := [(0%N, 5000)] |})]].
Proof. vm_compute. repeat split. Qed.
