(** C13 - Transaction history shows each known transaction once, at its
    current status.  Property theorems only. *)
From stdpp Require Import gmap list numbers sorting.
From Coq Require Import ZArith NArith.
From Verif Require Import Tx.Store Tx.Ledger Tx.Hist Tx.Inv Tx.Refine Tx.RefineAll Tx.Corollaries Tx.InvObs Tx.InvRange.
Local Open Scope Z_scope.

(** After every prefix of a chain-consistent history, for every transaction of
    the universe: direct lookup reports it iff the ledger knows it, under its
    current block (or as unconfirmed), with each credited output (amount,
    change flag, spent flag = some known transaction spends it) and one debit
    per input spending a wallet credit ([spec_details]); the lookup by its
    current incidence agrees; the unconfirmed set is exactly the ledger's. *)
Theorem C13_details_equal_ledger :
  ∀ (U : universe) (h p : list event) (t : txid),
    wf_universe U = true → chain_consistent U h = true → p `prefix_of` h →
    let s := st (run U p) in let F := fs (spec_run U p) in
    tx_details U s t = spec_details U F t ∧
    unique_tx_details U s t (f_conf F !! t) = spec_details U F t ∧
    unmined_hashes s ≡ₚ elements (f_unconf F).
Proof. exact c13_holds. Qed.
Print Assumptions C13_details_equal_ledger.

(** Range iteration, in either direction: after every prefix of every
    chain-consistent history, for every (begin, end) with the -1 convention,
    the block groups correspond one-to-one and in order (ascending, or
    descending when begin >= end) to the confirmed heights inside the range,
    each group holding exactly the transactions currently confirmed at that
    height, once, with details equal to the ledger's; the unconfirmed group
    holds exactly the unconfirmed transactions, once; the full forward and
    backward iterations report every known transaction exactly once (a
    permutation of the ledger's known list: removed transactions never), the
    unconfirmed group last resp. first, the backward block groups being the
    reverse of the forward ones (confirmed heights below 2^31). *)
Theorem C13_range_iteration_equals_ledger :
  ∀ (U : universe) (h p : list event),
    wf_universe U = true → chain_consistent U h = true → p `prefix_of` h →
    let s := st (run U p) in let F := fs (spec_run U p) in
    (∀ b e, ∃ hl : list Z,
        (if bool_decide (rb_bound b < rb_bound e) then StronglySorted Z.lt hl
         else StronglySorted (flip Z.lt) hl) ∧
        (∀ hh, hh ∈ hl ↔ conf_height F hh ∧
                         Z.min (rb_bound b) (rb_bound e) <= hh <= Z.max (rb_bound b) (rb_bound e)) ∧
        Forall2 (block_group_ok U s F) hl (range_blocks U s b e)) ∧
    (range_unmined U s = [] ↔ f_unconf F = ∅) ∧
    (f_unconf F ≠ ∅ → ∃ g, range_unmined U s = [g] ∧ unmined_group_ok U s F g) ∧
    ((∀ t hh b, f_conf F !! t = Some (hh, b) → hh <= max_i32) →
     group_txids (range_transactions U s 0 (-1)) ≡ₚ known_list F ∧
     group_txids (range_transactions U s (-1) 0) ≡ₚ known_list F ∧
     range_transactions U s 0 (-1) = range_blocks U s 0 (-1) ++ range_unmined U s ∧
     range_transactions U s (-1) 0 = range_unmined U s ++ reverse (range_blocks U s 0 (-1))).
Proof.
  intros U h p Hwf Hcons Hpre.
  destruct (refinement_prefix U h p Hwf Hcons Hpre) as [HI _].
  destruct (range_correct U _ _ Hwf HI) as (H1 & _ & H3 & H4 & H5).
  split; [exact H1|]. split; [exact H3|]. split; [exact H4|].
  intros Hmax. destruct (H5 Hmax) as (Ha & Hb & Hc & _ & He). auto.
Qed.
Print Assumptions C13_range_iteration_equals_ledger.

(** What is ever watched and what is listed as leased are the ledger's too. *)
Theorem C13_watch_and_lease_lists : ∀ (U : universe) (h p : list event) (now : Z),
  wf_universe U = true → chain_consistent U h = true → p `prefix_of` h →
  let s := st (run U p) in let F := fs (spec_run U p) in
  map u_op (outputs_to_watch U s now) ≡ₚ spec_watch U F ∧
  list_locked s now ≡ₚ filter (fun kv => now < l_expiry kv.2) (map_to_list (f_leases F)).
Proof.
  intros U h p now Hwf Hcons Hpre.
  destruct (refinement_prefix U h p Hwf Hcons Hpre) as [HI _].
  split; [by apply watch_correct | by apply (locked_list_correct U)].
Qed.
Print Assumptions C13_watch_and_lease_lists.
