(** C10 - A failed database write never leaves a half-applied or silently lost
    change.  Property theorems only; proofs are in Fault/FaultProofs.v and
    Fault/FaultSites.v.

    The programs of the model contain, at every place where the Go code
    receives an error that may stem from a database write, a [Call] whose
    semantics is READ FROM THE TABLE of Generated/ErrFlow.v (regenerated from
    the source on every run: site id -> what the caller does with the error).
    The theorems hold for a program under the hypothesis that every site it
    can reach is Propagated in the table ([sites_propagate]); without it they
    are false ([C10_dropped_site_refutes_it]).  For the transcribed operations
    the hypothesis is discharged here, PER KIND OF OPERATION, by computation on
    the regenerated table ([C10_sites_<operation>]): when an error is dropped,
    logged-and-ignored, deferred-and-discarded or handled in a way the
    extractor does not recognise at some site, exactly the obligations of the
    operations that use the site fail (this file stops compiling at the first
    of them; lib/c10.py lists them all), and the model run under the table then
    exhibits the failing input ([bad_positions]), which the check replays on
    the implementation.

    Memory clause.  Every operation of the address manager has a memory effect
    and a shape saying when the Go code applies it; the shape is regenerated
    from the source ([ErrFlow.mem_shapes]) and required here
    ([C10_memory_shapes_from_source]).  For every operation whose shape is not
    "before its own writes" - all but SetBirthday - the clause is a theorem
    ([C10_memory_after_disk_operations]).  Effects applied as soon as the
    operation's own writes are done (not at commit) survive the rollback
    caused by a LATER call of the same database transaction: those are the
    known findings; [C10_failure_in_first_call_leaks_nothing] says that this is
    the only way. *)
From stdpp Require Import gmap.
From Coq Require Import ZArith List String.
From Verif Require Import Fault.Fault Fault.FaultProofs Fault.FaultTx Fault.FaultMgr Fault.FaultSites Fault.FaultCorr.
From Verif Require Generated.ErrFlow.
Import ListNotations.

(** the table of this tree *)
Definition the_table : table := table_of ErrFlow.site_rows.

(** the table is looked up through a trie; on every site id of the table
    that is the plain association list of ErrFlow.  (A site the transcription
    names but the table lacks - restructured source - is judged by the
    whole-package condition, see [table_of]; lib/c10.py lists such sites in the
    evidence: none on this tree.) *)
Theorem C10_table_lookup_is_the_generated_list :
  forallb (fun s => match trie_find s (trie_of ErrFlow.site_rows), assoc_site s ErrFlow.site_rows with
                    | Some a, Some b => N.eqb a b
                    | None, None => true
                    | _, _ => false
                    end)
          (""%string :: "no such site"%string :: map fst ErrFlow.site_rows) = true.
Proof. vm_compute. reflexivity. Qed.
Print Assumptions C10_table_lookup_is_the_generated_list.

(** ** The premise, per kind of operation (decided on the regenerated table;
    closed computations: the two theorems that collect them carry the Print
    Assumptions) *)
Fact C10_sites_InsertTx_unmined : sites_ok the_table (tx_sites (EvSeen 0)) = true.
Proof. vm_compute. reflexivity. Qed.

Fact C10_sites_InsertTx_mined : sites_ok the_table (tx_sites (EvConfirm 0 0 0 0)) = true.
Proof. vm_compute. reflexivity. Qed.

Fact C10_sites_InsertTx_again : sites_ok the_table (tx_sites (EvRedeliver 0 0 0 0)) = true.
Proof. vm_compute. reflexivity. Qed.

Fact C10_sites_Rollback : sites_ok the_table (tx_sites (EvDisconnect 0)) = true.
Proof. vm_compute. reflexivity. Qed.

Fact C10_sites_RemoveUnminedTx : sites_ok the_table (tx_sites (EvAbandon 0)) = true.
Proof. vm_compute. reflexivity. Qed.

Fact C10_sites_LockOutput : sites_ok the_table (tx_sites (EvLease 0 0 0 0)) = true.
Proof. vm_compute. reflexivity. Qed.

Fact C10_sites_UnlockOutput : sites_ok the_table (tx_sites (EvRelease 0 0 0)) = true.
Proof. vm_compute. reflexivity. Qed.

Fact C10_sites_DeleteExpiredLockedOutputs : sites_ok the_table (tx_sites (EvSweep)) = true.
Proof. vm_compute. reflexivity. Qed.

Fact C10_sites_PutTxLabel : sites_ok the_table (tx_sites (EvLabel 0 0)) = true.
Proof. vm_compute. reflexivity. Qed.

Fact C10_sites_wtxmgr_Create : sites_ok the_table (tx_sites (EvCreate)) = true.
Proof. vm_compute. reflexivity. Qed.

Fact C10_sites_NewScopedKeyManager : sites_ok the_table (mgr_sites (MNewScope 0)) = true.
Proof. vm_compute. reflexivity. Qed.

Fact C10_sites_NewAccount : sites_ok the_table (mgr_sites (MNewAccount 0 0)) = true.
Proof. vm_compute. reflexivity. Qed.

Fact C10_sites_NewAccountWatchingOnly : sites_ok the_table (mgr_sites (MNewAccountWO 0 0)) = true.
Proof. vm_compute. reflexivity. Qed.

Fact C10_sites_NewRawAccountWatchingOnly : sites_ok the_table (mgr_sites (MNewRawAccountWO 0 0)) = true.
Proof. vm_compute. reflexivity. Qed.

Fact C10_sites_RenameAccount : sites_ok the_table (mgr_sites (MRename 0 0 0)) = true.
Proof. vm_compute. reflexivity. Qed.

Fact C10_sites_NextExternalAddresses : sites_ok the_table (mgr_sites (MNext 0 0 0 1)) = true.
Proof. vm_compute. reflexivity. Qed.

Fact C10_sites_NextInternalAddresses : sites_ok the_table (mgr_sites (MNext 0 0 1 1)) = true.
Proof. vm_compute. reflexivity. Qed.

Fact C10_sites_ExtendExternalAddresses : sites_ok the_table (mgr_sites (MExtend 0 0 0 0)) = true.
Proof. vm_compute. reflexivity. Qed.

Fact C10_sites_ExtendInternalAddresses : sites_ok the_table (mgr_sites (MExtend 0 0 1 0)) = true.
Proof. vm_compute. reflexivity. Qed.

Fact C10_sites_MarkUsed : sites_ok the_table (mgr_sites (MMarkUsed [])) = true.
Proof. vm_compute. reflexivity. Qed.

Fact C10_sites_ImportPrivateKey : sites_ok the_table (mgr_sites (MImport 0 0 0 0 true)) = true.
Proof. vm_compute. reflexivity. Qed.

Fact C10_sites_ImportScript : sites_ok the_table (mgr_sites (MImport 0 1 0 0 true)) = true.
Proof. vm_compute. reflexivity. Qed.

Fact C10_sites_ImportPublicKey : sites_ok the_table (mgr_sites (MImport 0 2 0 0 false)) = true.
Proof. vm_compute. reflexivity. Qed.

Fact C10_sites_ImportWitnessScript : sites_ok the_table (mgr_sites (MImport 0 3 0 0 true)) = true.
Proof. vm_compute. reflexivity. Qed.

Fact C10_sites_ImportTaprootScript : sites_ok the_table (mgr_sites (MImport 0 4 0 0 true)) = true.
Proof. vm_compute. reflexivity. Qed.

Fact C10_sites_SetSyncedTo : sites_ok the_table (mgr_sites (MSetSyncedTo 0 0)) = true.
Proof. vm_compute. reflexivity. Qed.

Fact C10_sites_SetBirthdayBlock : sites_ok the_table (mgr_sites (MSetBirthdayBlock 0 0 true)) = true.
Proof. vm_compute. reflexivity. Qed.

Fact C10_sites_SetBirthday : sites_ok the_table (mgr_sites (MSetBirthday 0)) = true.
Proof. vm_compute. reflexivity. Qed.

Fact C10_sites_ChangePassphrase : sites_ok the_table (mgr_sites (MChangePassphrase true 0 0)) = true.
Proof. vm_compute. reflexivity. Qed.

Fact C10_sites_ConvertToWatchingOnly : sites_ok the_table (mgr_sites (MConvertWO)) = true.
Proof. vm_compute. reflexivity. Qed.

Fact C10_sites_waddrmgr_Create : sites_ok the_table (mgr_sites (MCreate false)) = true.
Proof. vm_compute. reflexivity. Qed.

(** ... hence for every operation, whatever its arguments *)
Theorem C10_transaction_store_sites : forall e, sites_ok the_table (tx_sites e) = true.
Proof.
  apply tx_sites_by_kind. unfold tx_kinds. cbn [forallb snd].
  rewrite C10_sites_InsertTx_unmined, C10_sites_InsertTx_mined, C10_sites_InsertTx_again, C10_sites_Rollback, C10_sites_RemoveUnminedTx, C10_sites_LockOutput, C10_sites_UnlockOutput, C10_sites_DeleteExpiredLockedOutputs, C10_sites_PutTxLabel, C10_sites_wtxmgr_Create. reflexivity.
Qed.
Print Assumptions C10_transaction_store_sites.

Theorem C10_address_manager_sites : forall ops, sites_ok the_table (mgr_tx_sites ops) = true.
Proof.
  apply mgr_tx_sites_by_kind. unfold mgr_kinds. cbn [forallb snd].
  rewrite C10_sites_NewScopedKeyManager, C10_sites_NewAccount, C10_sites_NewAccountWatchingOnly, C10_sites_NewRawAccountWatchingOnly, C10_sites_RenameAccount, C10_sites_NextExternalAddresses, C10_sites_NextInternalAddresses, C10_sites_ExtendExternalAddresses, C10_sites_ExtendInternalAddresses, C10_sites_MarkUsed, C10_sites_ImportPrivateKey, C10_sites_ImportScript, C10_sites_ImportPublicKey, C10_sites_ImportWitnessScript, C10_sites_ImportTaprootScript, C10_sites_SetSyncedTo, C10_sites_SetBirthdayBlock, C10_sites_SetBirthday, C10_sites_ChangePassphrase, C10_sites_ConvertToWatchingOnly, C10_sites_waddrmgr_Create. reflexivity.
Qed.
Print Assumptions C10_address_manager_sites.

(** the source applies every operation's memory effect when the model says it does *)
Theorem C10_memory_shapes_from_source :
  forallb (fun ko => shape_ok ErrFlow.mem_shapes (snd ko)) mgr_kinds = true.
Proof. vm_compute. reflexivity. Qed.
Print Assumptions C10_memory_shapes_from_source.

(** ** The theorems, for every program whose sites propagate *)

(** Error or full effect, for every store and every fault position: the run
    reports an error, or the fault lies at or beyond the number of writes and
    result, store and call count are those of the fault-free run.  Never [Ok]
    after a strict prefix of the writes. *)
Theorem C10_error_or_full_effect : forall T A (p : prog A), sites_propagate T p -> forall s k,
  match run T p s O (Some k) with
  | (Ok r, s', n) => writes T p s <= k /\ (Ok r, s', n) = run T p s O None
  | (Err _, _, _) => True
  end.
Proof. exact fault_error_or_full_effect. Qed.
Print Assumptions C10_error_or_full_effect.

(** Every write position is covered: a fault at any of the [writes T p s]
    mutating calls is reported, as the injected error, right at that call. *)
Theorem C10_every_failed_write_is_reported : forall T A (p : prog A), sites_propagate T p -> forall s k,
  k < writes T p s -> exists s', run T p s O (Some k) = (Err Injected, s', S k).
Proof. exact fault_within_writes_is_reported. Qed.
Print Assumptions C10_every_failed_write_is_reported.

(** the model's search for a failing input finds nothing *)
Theorem C10_no_failing_position : forall T A (p : prog A), sites_propagate T p -> forall s,
  bad_positions T p s = [].
Proof. exact no_bad_position. Qed.
Print Assumptions C10_no_failing_position.

(** After the enclosing transaction is rolled back the store is the one
    before the operation (this one needs no hypothesis: it is what
    walletdb.Update does, property C11). *)
Theorem C10_rollback_restores : forall T A (p : prog A) s f e s', update T p s f = (Err e, s') -> s' = s.
Proof. exact rollback_restores. Qed.
Print Assumptions C10_rollback_restores.

(** Retrying after the rollback gives the result and the store of a run
    without the fault. *)
Theorem C10_retry_equals_clean_run : forall T A (p : prog A), sites_propagate T p -> forall s k,
  match update T p s (Some k) with
  | (Err _, s1) => update T p s1 None = update T p s None
  | (Ok r, s1) => (Ok r, s1) = update T p s None
  end.
Proof. exact retry_equals_clean_run. Qed.
Print Assumptions C10_retry_equals_clean_run.

(** The hypothesis is not decoration: with one site that returns nil on error
    the first write can fail and the run answers [Ok]; the search finds it. *)
Theorem C10_dropped_site_refutes_it :
  writes T_dropped two_puts ∅ = 2%nat /\
  fst (fst (run T_dropped two_puts ∅ O (Some O))) = Ok tt /\
  bad_positions T_dropped two_puts ∅ = [O] /\
  bad_positions all_propagate two_puts ∅ = [].
Proof. exact dropped_site_refutes. Qed.
Print Assumptions C10_dropped_site_refutes_it.

(** ** The transcribed operations, under the table of this tree *)

(** every event of the transaction store (insert unmined / mined with
    credits, the same again, rollback, remove, lease, release, sweep, label,
    creation) *)
Theorem C10_transaction_store : forall (U : universe) now (e : tx_event) s k,
  match update the_table (tx_prog U now e) s (Some k) with
  | (Ok r, s') => writes the_table (tx_prog U now e) s <= k /\
                  (Ok r, s') = update the_table (tx_prog U now e) s None
  | (Err _, s') => s' = s /\
                   update the_table (tx_prog U now e) s' None = update the_table (tx_prog U now e) s None
  end.
Proof.
  intros U now e s k.
  pose proof (tx_sites_propagate the_table U now e (C10_transaction_store_sites e)) as Hsp.
  pose proof (update_error_or_full_effect the_table _ (tx_prog U now e) Hsp s k) as H.
  destruct (update the_table (tx_prog U now e) s (Some k)) as [r s']. destruct r as [a|x].
  - exact H.
  - rewrite H. split; reflexivity.
Qed.
Print Assumptions C10_transaction_store.

(** every sequence of address-manager calls made inside one database
    transaction, from every memory the disk parts can read (lock and watch-only
    flags included): the disk side *)
Theorem C10_address_manager_disk : forall (ops : list mgr_op) m s k,
  match update the_table (mgr_tx ops m) s (Some k) with
  | (Ok r, s') => writes the_table (mgr_tx ops m) s <= k /\
                  (Ok r, s') = update the_table (mgr_tx ops m) s None
  | (Err _, s') => s' = s /\
                   update the_table (mgr_tx ops m) s' None = update the_table (mgr_tx ops m) s None
  end.
Proof.
  intros ops m s k.
  pose proof (mgr_tx_sites_propagate the_table ops m (C10_address_manager_sites ops)) as Hsp.
  pose proof (update_error_or_full_effect the_table _ (mgr_tx ops m) Hsp s k) as H.
  destruct (update the_table (mgr_tx ops m) s (Some k)) as [r s']. destruct r as [a|x].
  - exact H.
  - rewrite H. split; reflexivity.
Qed.
Print Assumptions C10_address_manager_disk.

(** the explicit-memory run of a transaction ([mgr_update], what the
    correspondence evaluates) has exactly this disk side *)
Theorem C10_explicit_memory_run_has_this_disk_side : forall T (ops : list mgr_op) m s f,
  let '(r, _, s', _) := mgr_update T ops m s f in
  update T (mgr_tx ops m) s f = (r, s').
Proof. intros T ops m s f. exact (update_steps_is_update T mem (map mgr_step_of ops) m s f). Qed.
Print Assumptions C10_explicit_memory_run_has_this_disk_side.

(** ** Memory *)

(** Managers whose memory effect follows the disk part: on error memory and
    store are as before, a retry equals the clean run. *)
Theorem C10_memory_after_disk : forall T Mem R (o : op Mem R) m, sites_propagate T (disk o m) -> forall s k,
  match run_op T o m s (Some k) with
  | (Ok r, m', s') => writes T (disk o m) s <= k /\ (Ok r, m', s') = run_op T o m s None
  | (Err _, m', s') => m' = m /\ s' = s /\ run_op T o m' s' None = run_op T o m s None
  end.
Proof.
  intros T Mem R o m Hsp s k.
  pose proof (op_error_or_full_effect T Mem R o m Hsp s k) as H.
  destruct (run_op T o m s (Some k)) as [[r m'] s']. destruct r as [a|e].
  - exact H.
  - destruct H as [-> ->]. repeat split.
Qed.
Print Assumptions C10_memory_after_disk.

(** ... instantiated: every operation of the address manager (NewScopedKeyManager,
    NewAccount, NewAccountWatchingOnly, NewRawAccountWatchingOnly, RenameAccount,
    Next / Extend addresses, MarkUsed, the five imports, SetSyncedTo,
    SetBirthdayBlock, ChangePassphrase, ConvertToWatchingOnly, Create), run in
    its own transaction under the table of this tree, from every memory
    (locked or not) and every store.  SetBirthday is excluded by its shape. *)
Theorem C10_memory_after_disk_operations : forall (o : mgr_op) m s k,
  match run_op the_table (step_op (mgr_step_of o)) m s (Some k) with
  | (Ok r, m', s') => writes the_table (mgr_disk o m) s <= k /\
                      (Ok r, m', s') = run_op the_table (step_op (mgr_step_of o)) m s None
  | (Err _, m', s') => m' = m /\ s' = s /\
                       run_op the_table (step_op (mgr_step_of o)) m' s' None =
                       run_op the_table (step_op (mgr_step_of o)) m s None
  end.
Proof.
  intros o m s k.
  apply (C10_memory_after_disk the_table mem (list key) (step_op (mgr_step_of o)) m).
  apply mgr_disk_sites_propagate.
  pose proof (C10_address_manager_sites [o]) as H. unfold mgr_tx_sites in H. simpl in H.
  rewrite app_nil_r in H. exact H.
Qed.
Print Assumptions C10_memory_after_disk_operations.

(** ... and [run_op] IS what the transaction semantics gives for a single call
    of a shape other than BeforeOwnWrites *)
Theorem C10_single_call_transaction : forall T (o : mgr_op) m s f,
  mgr_shape o <> BeforeOwnWrites ->
  let '(r, m', s', _) := mgr_update T [o] m s f in
  match run_op T (step_op (mgr_step_of o)) m s f with
  | (Ok _, m2, s2) => r = Ok tt /\ m' = m2 /\ s' = s2
  | (Err e, m2, s2) => r = Err e /\ m' = m2 /\ s' = s2
  end.
Proof. intros T o m s f Hsh. exact (single_step_is_op T mem (mgr_step_of o) m s f Hsh). Qed.
Print Assumptions C10_single_call_transaction.

(** Several calls in one transaction: when the fault fires in the FIRST call
    and that call is not SetBirthday, memory and store are as before.  (A fault
    in a later call leaves the effects of the completed calls in memory: the
    known findings, exhibited below.) *)
Theorem C10_failure_in_first_call_leaks_nothing : forall T (o : mgr_op) rest m s f x m' s',
  mgr_shape o <> BeforeOwnWrites ->
  mgr_update T (o :: rest) m s f = (Err x, m', s', O) -> m' = m /\ s' = s.
Proof.
  intros T o rest m s f x m' s' Hsh H.
  exact (first_step_failure_leaks_nothing T mem (mgr_step_of o) (map mgr_step_of rest) m s f x m' s' Hsh H).
Qed.
Print Assumptions C10_failure_in_first_call_leaks_nothing.

(** ** Non-vacuity *)
Local Open Scope Z_scope.
Local Open Scope string_scope.

Definition s0 : kv := mgr_init.
Definition m0 : mem := mem0 false.

(** waddrmgr.Create makes 94 mutating calls (13 without a root key) *)
Example create_writes : writes the_table (mgr_tx [MCreate false] m0) mgr_fresh = 94%nat
                        /\ writes the_table (mgr_tx [MCreate true] m0) mgr_fresh = 13%nat.
Proof. vm_compute. split; reflexivity. Qed.
(** issuing two addresses makes ten mutating calls; failing the 7th (index 6)
    is reported; failing beyond the 10th changes nothing *)
Example next_two_addresses_writes : writes the_table (mgr_tx [MNext 0 0 0 2] m0) s0 = 10%nat.
Proof. vm_compute. reflexivity. Qed.
Example next_two_addresses_fault_6 :
  fst (update the_table (mgr_tx [MNext 0 0 0 2] m0) s0 (Some 6%nat)) = Err Injected.
Proof. vm_compute. reflexivity. Qed.
Example next_two_addresses_fault_10 :
  let '(r1, s1) := update the_table (mgr_tx [MNext 0 0 0 2] m0) s0 (Some 10%nat) in
  let '(r2, s2) := update the_table (mgr_tx [MNext 0 0 0 2] m0) s0 None in
  r1 = r2 /\ dump s1 = dump s2 /\ dump s1 <> dump s0.
Proof. vm_compute. repeat split. discriminate. Qed.
Example rename_writes : writes the_table (mgr_tx [MRename 0 0 7] m0) s0 = 5%nat.
Proof. vm_compute. reflexivity. Qed.
Example new_scope_writes : writes the_table (mgr_tx [MNewScope 4] m0) s0 = 18%nat.
Proof. vm_compute. reflexivity. Qed.
Example convert_writes : writes the_table (mgr_tx [MConvertWO] m0) s0 = 17%nat.
Proof. vm_compute. reflexivity. Qed.
(** a locked manager refuses NewAccount before any write and issues addresses *)
Example locked_manager :
  fst (fst (run the_table (mgr_tx [MNewAccount 0 7] (mem0 true)) s0 O None)) = Err (OpErr eLocked)
  /\ writes the_table (mgr_tx [MNewAccount 0 7] (mem0 true)) s0 = 0%nat
  /\ writes the_table (mgr_tx [MNext 0 0 0 1] (mem0 true)) s0 = 5%nat.
Proof. vm_compute. repeat split. Qed.

(** a small universe: tx 2 spends an outside output and pays the wallet twice *)
Definition U0 : universe :=
  {[ 2 := {| tx_ins := [(1, 0)]; tx_outs := [5000; 7000]; tx_creds := [(0, false); (1, true)];
             tx_coinbase := false |} ]}.
Example seen_writes : writes the_table (tx_prog U0 0 (EvSeen 2)) tx_store_init = 4%nat.
Proof. vm_compute. reflexivity. Qed.
Example confirm_after_seen_writes :
  writes the_table (tx_prog U0 0 (EvConfirm 2 10 1 600)) (snd (tx_step the_table U0 (0, tx_store_init) (EvSeen 2))) = 12%nat.
Proof. vm_compute. reflexivity. Qed.
Example label_writes : writes the_table (tx_prog U0 0 (EvLabel 2 5)) tx_store_init = 2%nat.
Proof. vm_compute. reflexivity. Qed.
Example create_store_is_init :
  writes the_table (tx_prog U0 0 EvCreate) tx_fresh = 12%nat /\
  dump (snd (update the_table (tx_prog U0 0 EvCreate) tx_fresh None)) = dump tx_store_init.
Proof. vm_compute. split; reflexivity. Qed.

(** What a dropped error does, on the real transcription.  waddrmgr/db.go
    putAddrAccountIndex used to answer nil when its first Put failed (repaired
    in the repository, 25cbf4f; the replay is
    corpus/C10/putAddrAccountIndex_swallowed_put_error.json).  Put that
    disposition into the table: the obligations of exactly the operations that
    store addresses fail, failing the 2nd write of NextExternalAddresses gives
    [Ok] with the address row but no index entry, and the search finds it. *)
Definition table_25cbf4f : table := fun st =>
  if String.eqb st "waddrmgr:putAddrAccountIndex>db.Put" then DroppedReturn else the_table st.
Example swallowed_error_breaks_the_right_obligations :
  kinds_failing table_25cbf4f =
  ["NextExternalAddresses"; "NextInternalAddresses"; "ExtendExternalAddresses"; "ExtendInternalAddresses";
   "ImportPrivateKey"; "ImportScript"; "ImportPublicKey"; "ImportWitnessScript"; "ImportTaprootScript"].
Proof. vm_compute. reflexivity. Qed.
Example swallowed_error_reports_success :
  let '(r, s', _) := run table_25cbf4f (mgr_tx [MNext 0 0 0 1] m0) s0 O (Some 1%nat) in
  r = Ok tt /\ lookup2 s' (sb 0 oAddr) [0; 0; 0; 0] = Some [0; 0]
  /\ lookup2 s' (sb 0 oAddrAcctIdx) [0; 0; 0; 0] = None
  /\ bad_positions table_25cbf4f (mgr_tx [MNext 0 0 0 1] m0) s0 = [1%nat; 3%nat].
Proof. vm_compute. repeat split. Qed.

(** The known findings are what the model's memory says: RenameAccount followed
    by SetBirthdayBlock in one transaction, the 6th call (the first write of
    SetBirthdayBlock) fails: the store is rolled back, the cached account name
    is not; a fault inside RenameAccount itself leaks nothing. *)
Example rename_then_later_failure_leaks_the_name :
  let '(r, m, s, i) := mgr_update the_table [MRename 0 0 7; MSetBirthdayBlock 0 0 true] m0 s0 (Some 5%nat) in
  r = Err Injected /\ i = 1%nat /\ mem_cats m0 m = [cAccountName] /\ dump s = dump s0.
Proof. vm_compute. repeat split. Qed.
Example rename_own_failure_leaks_nothing :
  let '(r, m, s, i) := mgr_update the_table [MRename 0 0 7; MSetBirthdayBlock 0 0 true] m0 s0 (Some 3%nat) in
  r = Err Injected /\ i = 0%nat /\ mem_cats m0 m = [] /\ dump s = dump s0.
Proof. vm_compute. repeat split. Qed.
(** SetBirthday assigns before it writes: its own failing write leaves the new
    birthday in memory (known finding) *)
Example set_birthday_own_failure_leaks :
  let '(r, m, s, i) := mgr_update the_table [MSetBirthday 5] m0 s0 (Some 0%nat) in
  r = Err Injected /\ mem_cats m0 m = [cBirthday].
Proof. vm_compute. repeat split. Qed.
(** nextAddresses registers its effect with OnCommit: nothing leaks even when a
    later call fails *)
Example next_then_later_failure_leaks_nothing :
  let '(r, m, s, i) := mgr_update the_table [MNext 0 0 0 2; MSetBirthdayBlock 0 0 true] m0 s0 (Some 10%nat) in
  r = Err Injected /\ i = 1%nat /\ mem_cats m0 m = [].
Proof. vm_compute. repeat split. Qed.
