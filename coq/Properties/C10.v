(** C10 - A failed database write never leaves a half-applied or silently lost
    change.  Property theorems only; proofs are in Fault/FaultProofs.v.

    The model's [Bind] propagates errors by construction, so the theorems are
    about the code only if the code propagates the error of every write.  That
    fact is regenerated from the source on every run (Generated/ErrFlow.v, one
    entry per call whose error may stem from a write, with what the caller
    does with it) and is the premise [write_errors_propagated] of every
    theorem below; it is discharged here by computation on the table.  When an
    error is dropped in wtxmgr or waddrmgr the Generated file still compiles
    and THIS file does not. *)
From stdpp Require Import gmap.
From Coq Require Import ZArith List.
From Verif Require Import Fault.Fault Fault.FaultProofs Fault.FaultTx Fault.FaultMgr.
From Verif Require Generated.ErrFlow.
Import ListNotations.

Definition write_errors_propagated : Prop := ErrFlow.all_propagated = true.

(** Tie to the source: no call site of the two packages drops the error of a
    database write (table of this tree, decided by computation). *)
Theorem C10_source_propagates_write_errors : write_errors_propagated.
Proof. exact (eq_refl true). Qed.
Print Assumptions C10_source_propagates_write_errors.

(** Error or full effect, for every program of the language, every store and
    every fault position: the run reports an error, or the fault lies at or
    beyond the number of writes and result, store and call count are those of
    the fault-free run.  Never [Ok] after a strict prefix of the writes. *)
Theorem C10_error_or_full_effect : write_errors_propagated ->
  forall A (p : prog A) s k,
  match run p s O (Some k) with
  | (Ok r, s', n) => writes p s <= k /\ (Ok r, s', n) = run p s O None
  | (Err _, _, _) => True
  end.
Proof. intros _. exact fault_error_or_full_effect. Qed.
Print Assumptions C10_error_or_full_effect.

(** Every write position is covered: a fault at any of the [writes p s]
    mutating calls is reported, as the injected error, right at that call. *)
Theorem C10_every_failed_write_is_reported : write_errors_propagated ->
  forall A (p : prog A) s k,
  k < writes p s -> exists s', run p s O (Some k) = (Err Injected, s', S k).
Proof. intros _. exact fault_within_writes_is_reported. Qed.
Print Assumptions C10_every_failed_write_is_reported.

(** After the enclosing transaction is rolled back the store is the one
    before the operation (the all-or-nothing of walletdb.Update is C11). *)
Theorem C10_rollback_restores : write_errors_propagated ->
  forall A (p : prog A) s f e s', update p s f = (Err e, s') -> s' = s.
Proof. intros _. exact rollback_restores. Qed.
Print Assumptions C10_rollback_restores.

(** Retrying after the rollback gives the result and the store of a run
    without the fault. *)
Theorem C10_retry_equals_clean_run : write_errors_propagated ->
  forall A (p : prog A) s k,
  match update p s (Some k) with
  | (Err _, s1) => update p s1 None = update p s None
  | (Ok r, s1) => (Ok r, s1) = update p s None
  end.
Proof. intros _. exact retry_equals_clean_run. Qed.
Print Assumptions C10_retry_equals_clean_run.

(** Managers whose memory effect follows the disk part: on error memory and
    store are as before, a retry equals the clean run. *)
Theorem C10_memory_after_disk : write_errors_propagated ->
  forall Mem R (o : op Mem R) m s k,
  match run_op o m s (Some k) with
  | (Ok r, m', s') => writes (disk o m) s <= k /\ (Ok r, m', s') = run_op o m s None
  | (Err _, m', s') => m' = m /\ s' = s /\ run_op o m' s' None = run_op o m s None
  end.
Proof.
  intros _ Mem R o m s k.
  pose proof (op_error_or_full_effect Mem R o m s k) as H.
  destruct (run_op o m s (Some k)) as [[r m'] s']. destruct r as [a|e].
  - exact H.
  - destruct H as [-> ->]. repeat split.
Qed.
Print Assumptions C10_memory_after_disk.

(** The transcribed operations are programs of the language: the statements
    above, instantiated for every event of the transaction store (insert
    unmined/mined with credits, rollback, remove, lease, release, sweep) ... *)
Theorem C10_transaction_store : write_errors_propagated ->
  forall (U : universe) now (e : tx_event) s k,
  match update (tx_prog U now e) s (Some k) with
  | (Ok r, s') => writes (tx_prog U now e) s <= k /\ (Ok r, s') = update (tx_prog U now e) s None
  | (Err _, s') => s' = s /\ update (tx_prog U now e) s' None = update (tx_prog U now e) s None
  end.
Proof.
  intros _ U now e s k.
  pose proof (update_error_or_full_effect _ (tx_prog U now e) s k) as H.
  destruct (update (tx_prog U now e) s (Some k)) as [r s']. destruct r as [a|x].
  - exact H.
  - rewrite H. split; reflexivity.
Qed.
Print Assumptions C10_transaction_store.

(** ... and for every sequence of address-manager calls made inside one
    database transaction (the disk parts of NewScopedKeyManager, NewAccount,
    RenameAccount, Next/Extend addresses, MarkUsed, imports, SetSyncedTo,
    SetBirthdayBlock, SetBirthday, ChangePassphrase). *)
Theorem C10_address_manager_disk : write_errors_propagated ->
  forall (ops : list mgr_op) s k,
  match update (mgr_tx ops) s (Some k) with
  | (Ok r, s') => writes (mgr_tx ops) s <= k /\ (Ok r, s') = update (mgr_tx ops) s None
  | (Err _, s') => s' = s /\ update (mgr_tx ops) s' None = update (mgr_tx ops) s None
  end.
Proof.
  intros _ ops s k.
  pose proof (update_error_or_full_effect _ (mgr_tx ops) s k) as H.
  destruct (update (mgr_tx ops) s (Some k)) as [r s']. destruct r as [a|x].
  - exact H.
  - rewrite H. split; reflexivity.
Qed.
Print Assumptions C10_address_manager_disk.

(** ** Non-vacuity *)
Local Open Scope Z_scope.

Definition s0 : kv := mgr_init [0; 1; 2; 3] 0 0.

(** issuing two addresses makes ten mutating calls; failing the 7th (index 6)
    is reported; failing beyond the 10th changes nothing *)
Example next_two_addresses_writes : writes (mgr_tx [MNext 0 0 0 2]) s0 = 10%nat.
Proof. vm_compute. reflexivity. Qed.
Example next_two_addresses_fault_6 :
  fst (update (mgr_tx [MNext 0 0 0 2]) s0 (Some 6%nat)) = Err Injected.
Proof. vm_compute. reflexivity. Qed.
Example next_two_addresses_fault_10 :
  let '(r1, s1) := update (mgr_tx [MNext 0 0 0 2]) s0 (Some 10%nat) in
  let '(r2, s2) := update (mgr_tx [MNext 0 0 0 2]) s0 None in
  r1 = r2 /\ dump s1 = dump s2 /\ dump s1 <> dump s0.
Proof. vm_compute. repeat split. discriminate. Qed.
Example rename_writes : writes (mgr_tx [MRename 0 0 7]) s0 = 5%nat.
Proof. vm_compute. reflexivity. Qed.
Example new_scope_writes : writes (mgr_tx [MNewScope 4]) s0 = 18%nat.
Proof. vm_compute. reflexivity. Qed.

(** a small universe: tx 2 spends an outside output and pays the wallet twice *)
Definition U0 : universe :=
  {[ 2 := {| tx_ins := [(1, 0)]; tx_outs := [5000; 7000]; tx_creds := [(0, false); (1, true)];
             tx_coinbase := false |} ]}.
Example seen_writes : writes (tx_prog U0 0 (EvSeen 2)) tx_store_init = 4%nat.
Proof. vm_compute. reflexivity. Qed.
Example confirm_after_seen_writes :
  writes (tx_prog U0 0 (EvConfirm 2 10 1 600)) (snd (tx_step U0 (0, tx_store_init) (EvSeen 2))) = 12%nat.
Proof. vm_compute. reflexivity. Qed.

(** Why the premise is needed.  waddrmgr/db.go putAddrAccountIndex used to
    answer nil when its first Put failed (repaired in the repository; the
    replay is corpus/C10/putAddrAccountIndex_swallowed_put_error.json).  With
    that shape - which is not a program of the language - failing the 2nd
    write gives [Ok] and a store that lacks the index entries. *)
Example swallowed_error_reports_success :
  let '(r, s', _) := put_address_as_coded 0 0 [0; 0; 0; 0] s0 O (Some 1%nat) in
  r = Ok tt /\ lookup2 s' (sb 0 oAddr) [0; 0; 0; 0] = Some [0]
  /\ lookup2 s' (sb 0 oAddrAcctIdx) [0; 0; 0; 0] = None.
Proof. vm_compute. repeat split. Qed.

(** Why the memory clause is stated for memory-after-disk operations only:
    two steps with an early memory effect (remember the last address written,
    as the read-back in nextAddresses does); the 2nd step's first write fails;
    the store is rolled back but the memory keeps the first address. *)
Definition eager_two_addresses : list (eager_step (list Z)) :=
  [ (fun _ => put_chained_address 0 0 0 0, fun m => 0 :: m);
    (fun _ => put_chained_address 0 0 0 1, fun m => 1 :: m) ].
Example eager_memory_survives_rollback :
  let '(r, m, s) := update_eager eager_two_addresses [] s0 (Some 5%nat) in
  r = Err Injected /\ m = [0] /\ dump s = dump s0.
Proof. vm_compute. repeat split. Qed.
