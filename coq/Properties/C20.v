(** C20 - A rejected broadcast leaves no trace; unconfirmed sends are re-offered.
    Property theorems only; proofs are in Tx/PublishProofs.v and
    Tx/PublishResend.v, the model in Tx/Publish.v.

    The theorems are about [code_cfg] (Tx/PublishCode.v): the model of
    reliablyPublishTransaction / publishTransaction / resendUnminedTxs
    instantiated with what wallet/wallet.go says NOW - which branch calls
    RemoveUnminedTx and which returns an error is regenerated from the source
    on every run (Generated/PublishFacts.v).  The expected value of each fact
    is a premise discharged here by computation ([eq_refl]); when the source
    makes one of them false this file stops compiling and the check reports
    the broken obligation.

    The answers of the backend (Tx/Publish.v): no error; an error that Is an
    exported sentinel of package chain ([ASentinel name]; errors.Is, so plain
    or wrapped with %w alike); an error that Is none.  The list of sentinels
    is regenerated from the source of package chain together with the branch
    of publishTransaction each one takes ([sentinel_table]) and must coincide
    with the model's hand-classified list ([sentinel_classes]): a new sentinel,
    or one the code starts to treat in its own way, stops this file.
    [is_rejection a] / [is_mempool a] / [is_known a]: the class of [a] is
    "rejected for any other reason" / "accepted or already in the mempool" /
    "already known or confirmed".

    What the property text demands (and nothing more): rejection, or an error
    returned by the hand-over => forgotten; accepted / already in the mempool
    => recorded once; already known / confirmed => either of the two, but not
    "kept AND an error returned" ([C20_known_or_confirmed_consistent];
    [text_cfg] resolves that freedom the way the code does).

    Vocabulary (Tx/Store.v, Ledger.v, Hist.v, Inv.v, Publish.v):
      Inv U s F            the store [s] holds exactly the facts [F] (refinement
                           invariant; by [refinement_statement] every state
                           reached by a chain-consistent history satisfies it)
      event_ok U F (Seen t)  t is a non-coinbase transaction of the universe
                           that a validating node can relay in situation F
      fresh U F t          t is not known and no unconfirmed transaction spends
                           one of its outputs (any just-authored transaction)
      publish cfg U t a ok s   PublishTransaction / SendOutputs of t when the
                           backend answers [a] and the NotifyReceived
                           subscription succeeds iff [ok]
      same_observables U s s' F   every balance (all minconf, sync heights,
                           times), the spendable set and the unconfirmed set of
                           s' are those of s
      spec_seen / spec_abandon   ledger facts with t recorded / with t and every
                           unconfirmed transaction that transitively spends its
                           outputs forgotten. *)
From stdpp Require Import gmap list numbers strings.
From Coq Require Import ZArith NArith Strings.String.
From Verif Require Import Generated.PublishFacts Tx.Store Tx.Ledger Tx.Hist Tx.Inv Tx.InvRemove Tx.Publish Tx.PublishCode
     Tx.PublishProofs Tx.PublishResend.
From Verif Require Tx.Kahn Tx.KahnProofs Tx.RefineAll.
Local Open Scope Z_scope.

(** The code has the shape the model transcribes: the transaction is recorded
    before NotifyReceived and broadcast after it, RemoveUnminedTx is the
    recursive removeConflict, resendUnminedTxs ranges over Store.UnminedTxs
    (= DependencySort of the unmined records) without leaving the loop early. *)
Theorem C20_code_shape : code_shape_ok = true.
Proof. exact eq_refl. Qed.
Print Assumptions C20_code_shape.

(** The answer classes are complete and tied to the source.  The exported
    error sentinels that package chain declares NOW (regenerated) are exactly
    the ones the model classifies ... *)
Theorem C20_every_sentinel_listed :
  forall n, In n (map fst sentinel_table) <-> In n (map fst sentinel_classes).
Proof. exact (same_names_spec sentinel_table sentinel_classes (eq_refl true <: same_names sentinel_table sentinel_classes = true)). Qed.
Print Assumptions C20_every_sentinel_listed.

(** ... and publishTransaction does with EVERY answer - an error that Is any
    sentinel whatsoever, or none - what its five branches do with the class of
    that answer: no sentinel has a treatment of its own.  (The regenerated
    table holds, per sentinel, the branch that an error which Is it takes; a
    `case errors.Is(rpcErr, chain.ErrMempoolMinFeeNotMet): return nil, rpcErr`
    makes that row (false, true) and this theorem false.) *)
Theorem C20_every_answer_by_class : forall a, cfg_class code_cfg a = code_base (class_of a).
Proof. exact (table_class_by_class code_base code_table (eq_refl true <: table_sound code_base code_table = true)). Qed.
Print Assumptions C20_every_answer_by_class.

(** Hence every answer of the rejection class takes the branch that removes
    the transaction and returns the error ... *)
Theorem C20_every_rejection_removes_and_errors : forall a, is_rejection a = true -> cfg_class code_cfg a = drop_err.
Proof. exact (fun a => by_class_rejection code_cfg code_base C20_every_answer_by_class a eq_refl). Qed.
Print Assumptions C20_every_rejection_removes_and_errors.

(** ... and, for every answer and subscription outcome, the branch the code
    takes is the branch the property text asks for. *)
Theorem C20_code_meets_text : forall a ok, branch_of (text_cfg code_cfg) a ok = branch_of code_cfg a ok.
Proof.
  exact (meets_text code_cfg code_base C20_every_answer_by_class eq_refl eq_refl eq_refl eq_refl eq_refl eq_refl).
Qed.
Print Assumptions C20_code_meets_text.

(** The backend rejects a fresh transaction - with ANY error of the rejection
    class: the caller gets the error, the store satisfies the invariant for
    the SAME facts as before the attempt, hence every balance, the spendable
    set and the unconfirmed set are exactly the pre-attempt ones (spent coins
    spendable again, change not counted). *)
Theorem C20_rejected_leaves_no_trace : forall U s F t a,
  is_rejection a = true ->
  wf_universe U = true -> Inv U s F -> event_ok U F (Seen t) = true -> fresh U F t = true ->
  exists s', publish code_cfg U t a true s = (PError, s') /\
             Inv U s' F /\ same_observables U s s' F.
Proof.
  exact (fun U s F t a Ha Hwf => failed_attempt_no_trace U Hwf code_cfg s F t a true
                                   (C20_every_rejection_removes_and_errors a Ha)).
Qed.
Print Assumptions C20_rejected_leaves_no_trace.

(** "Already known" / "already confirmed" (the backend has it in a block).
    The property text does not say whether such a transaction is kept; it
    excludes only "an error is returned and the transaction stays".  So:
    either nothing is left (facts and observables of before the attempt), or
    the call reports success and the transaction is recorded as unconfirmed. *)
Theorem C20_known_or_confirmed_consistent : forall U s F t a,
  is_known a = true ->
  wf_universe U = true -> Inv U s F -> event_ok U F (Seen t) = true -> fresh U F t = true ->
  exists r s', publish code_cfg U t a true s = (r, s') /\
               ((Inv U s' F /\ same_observables U s s' F) \/ (r = PSuccess /\ Inv U s' (spec_seen U F t))).
Proof.
  exact (fun U s F t a Ha Hwf => known_answer_consistent U Hwf code_cfg s F t a
           (by_class_known code_cfg code_base C20_every_answer_by_class a eq_refl eq_refl Ha)).
Qed.
Print Assumptions C20_known_or_confirmed_consistent.

(** Accepted, or already in the backend's mempool: success; the facts are the
    previous ones plus t as unconfirmed; t is in the unconfirmed set exactly
    once; every outpoint is listed at most once in the spendable set, which -
    like every balance - is that of the ledger with t known (its credits
    counted once, the coins it spends not at all). *)
Theorem C20_mempool_tx_recorded_once : forall U s F t a,
  is_mempool a = true ->
  wf_universe U = true -> Inv U s F -> event_ok U F (Seen t) = true ->
  exists s', publish code_cfg U t a true s = (PSuccess, s') /\ Inv U s' (spec_seen U F t) /\
    (known F t = false ->
       unmined_hashes s' ≡ₚ t :: elements (f_unconf F) /\ NoDup (unmined_hashes s') /\
       t ∈ unmined_hashes s') /\
    (forall now, NoDup (u_op <$> unspent_outputs U s' now) /\
                 unspent_outputs U s' now ≡ₚ spec_utxos U (spec_seen U F t) now) /\
    (forall minconf sync now, 0 <= minconf ->
       (forall c h b, f_conf F !! c = Some (h, b) -> h <= sync) ->
       balance U s' minconf sync now = spec_balance U (spec_seen U F t) minconf sync now).
Proof.
  exact (fun U s F t a Ha Hwf => mempool_tx_recorded_once U Hwf code_cfg s F t a
           (by_class_mempool code_cfg code_base C20_every_answer_by_class a eq_refl eq_refl Ha)).
Qed.
Print Assumptions C20_mempool_tx_recorded_once.

(** A transaction that is ALREADY recorded as unconfirmed (re-broadcast after
    a restart, or PublishTransaction of a known transaction) and is now
    rejected: the caller gets the error and it is forgotten together with
    every unconfirmed transaction that transitively spends its outputs; every
    other unconfirmed transaction, the confirmed ones and the leases stay. *)
Theorem C20_rejected_rebroadcast_forgets_descendants : forall U s F t a,
  is_rejection a = true ->
  wf_universe U = true -> Inv U s F -> t ∈ f_unconf F ->
  exists s', publish code_cfg U t a true s = (PError, s') /\
    Inv U s' (spec_abandon U F t) /\
    t ∉ f_unconf (spec_abandon U F t) /\
    (forall c, depends_on U F [t] c -> c ∉ f_unconf (spec_abandon U F t)) /\
    (forall c, c ∈ f_unconf F -> ~ depends_on U F [t] c -> c ∈ f_unconf (spec_abandon U F t)) /\
    f_conf (spec_abandon U F t) = f_conf F /\ f_leases (spec_abandon U F t) = f_leases F.
Proof.
  exact (fun U s F t a Ha Hwf => rejected_rebroadcast_forgets_descendants U Hwf code_cfg s F t a
           (C20_every_rejection_removes_and_errors a Ha)).
Qed.
Print Assumptions C20_rejected_rebroadcast_forgets_descendants.

(** ... and whenever the branch taken removes the transaction at all (as the
    code does today on "already known / confirmed"), the removal is that same
    recursive one. *)
Theorem C20_removal_forgets_descendants : forall U s F t a,
  act_removes (cfg_class code_cfg a) = true ->
  wf_universe U = true -> Inv U s F -> t ∈ f_unconf F ->
  exists s', publish code_cfg U t a true s = (result_of (branch_of code_cfg a true), s') /\
    Inv U s' (spec_abandon U F t) /\
    t ∉ f_unconf (spec_abandon U F t) /\
    (forall c, depends_on U F [t] c -> c ∉ f_unconf (spec_abandon U F t)) /\
    (forall c, c ∈ f_unconf F -> ~ depends_on U F [t] c -> c ∈ f_unconf (spec_abandon U F t)) /\
    f_conf (spec_abandon U F t) = f_conf F /\ f_leases (spec_abandon U F t) = f_leases F.
Proof.
  exact (fun U s F t a Ha Hwf => failed_rebroadcast_forgets_descendants U Hwf code_cfg s F t a true Ha).
Qed.
Print Assumptions C20_removal_forgets_descendants.

(** Every attempt, every answer class, subscription failure included: the
    removal never runs out of fuel and the resulting store satisfies the
    invariant for the facts [spec_publish_cfg code_cfg] (recorded, then
    forgotten with its descendants exactly when the branch taken removes). *)
Theorem C20_every_attempt_refines : forall U s F t a ok,
  wf_universe U = true -> Inv U s F -> event_ok U F (Seen t) = true ->
  exists s', publish code_cfg U t a ok s = (result_of (branch_of code_cfg a ok), s') /\
             Inv U s' (spec_publish_cfg code_cfg U F t a ok).
Proof. exact (fun U s F t a ok Hwf => publish_ok U Hwf code_cfg s F t a ok). Qed.
Print Assumptions C20_every_attempt_refines.

(** After a (re)synchronisation: for both map iteration orders inside
    DependencySort, the sort terminates; the offered sequence contains every
    unconfirmed wallet transaction exactly once; each one comes after every
    unconfirmed transaction whose output it spends; every element is offered
    (one result each, none out of fuel) and the final store satisfies the
    invariant for the specification's facts (rejected ones forgotten with
    their descendants). *)
Theorem C20_resend_offers_all_parents_first : forall U s F pi1 pi2 answers,
  wf_universe U = true -> Inv U s F ->
  pi1 ≡ₚ unmined_set U s -> pi2 ≡ₚ unmined_hashes s ->
  exists l rs s', resend code_cfg U pi1 pi2 answers s = Some (l, rs, s') /\
    l ≡ₚ elements (f_unconf F) /\ NoDup l /\
    (forall p c, p ∈ f_unconf F -> c ∈ f_unconf F -> spends_output_of U c p = true ->
                 KahnProofs.before p c l) /\
    List.length rs = List.length l /\ PFuel ∉ rs /\
    Inv U s' (spec_resend_list code_cfg U l answers F).
Proof. exact (fun U s F pi1 pi2 answers Hwf => resend_offers_all_parents_first U Hwf code_cfg s F pi1 pi2 answers). Qed.
Print Assumptions C20_resend_offers_all_parents_first.

(** Over histories: with the refinement of the transaction store
    ([refinement_statement], Tx/Inv.v - the composition of the per-event
    lemmas) the statements hold in every state reached by a chain-consistent
    history. *)
Theorem C20_over_histories : refinement_statement ->
  forall U h t a, is_rejection a = true -> wf_universe U = true -> chain_consistent U h = true ->
  event_ok U (fs (spec_run U h)) (Seen t) = true -> fresh U (fs (spec_run U h)) t = true ->
  (exists s', publish code_cfg U t a true (st (run U h)) = (PError, s') /\
              Inv U s' (fs (spec_run U h)) /\
              same_observables U (st (run U h)) s' (fs (spec_run U h))) /\
  (forall pi1 pi2 answers,
     pi1 ≡ₚ unmined_set U (st (run U h)) -> pi2 ≡ₚ unmined_hashes (st (run U h)) ->
     exists l rs s', resend code_cfg U pi1 pi2 answers (st (run U h)) = Some (l, rs, s') /\
       l ≡ₚ elements (f_unconf (fs (spec_run U h))) /\ NoDup l /\
       (forall p c, p ∈ f_unconf (fs (spec_run U h)) -> c ∈ f_unconf (fs (spec_run U h)) ->
                    spends_output_of U c p = true -> KahnProofs.before p c l)).
Proof.
  intros Href U h t a Ha Hwf Hc Hok Hfr. split.
  - exact (failed_attempt_no_trace_after_history Href code_cfg U h t a true
             (C20_every_rejection_removes_and_errors a Ha) Hwf Hc Hok Hfr).
  - intros pi1 pi2 answers. exact (resend_after_history Href code_cfg U h pi1 pi2 answers Hwf Hc).
Qed.
Print Assumptions C20_over_histories.

(** ... and that refinement is a closed theorem ([RefineAll.refinement]: every
    event of a chain-consistent history preserves the invariant), so: after
    EVERY chain-consistent wallet history, a fresh transaction rejected with
    whatever error of the rejection class leaves balances, spendable set and
    unconfirmed set as they were, and a re-broadcast offers exactly the
    unconfirmed transactions, each once, parents first. *)
Theorem C20_after_every_history :
  forall U h t a, is_rejection a = true -> wf_universe U = true -> chain_consistent U h = true ->
  event_ok U (fs (spec_run U h)) (Seen t) = true -> fresh U (fs (spec_run U h)) t = true ->
  (exists s', publish code_cfg U t a true (st (run U h)) = (PError, s') /\
              Inv U s' (fs (spec_run U h)) /\
              same_observables U (st (run U h)) s' (fs (spec_run U h))) /\
  (forall pi1 pi2 answers,
     pi1 ≡ₚ unmined_set U (st (run U h)) -> pi2 ≡ₚ unmined_hashes (st (run U h)) ->
     exists l rs s', resend code_cfg U pi1 pi2 answers (st (run U h)) = Some (l, rs, s') /\
       l ≡ₚ elements (f_unconf (fs (spec_run U h))) /\ NoDup l /\
       (forall p c, p ∈ f_unconf (fs (spec_run U h)) -> c ∈ f_unconf (fs (spec_run U h)) ->
                    spends_output_of U c p = true -> KahnProofs.before p c l)).
Proof. exact (C20_over_histories RefineAll.refinement). Qed.
Print Assumptions C20_after_every_history.

(** The error mapping (chain/errors.go; MapRPCErr of the three backends).
    The regenerated tables map every text to a sentinel of the text's class:
    the nine texts by which a node says "I have it already"
    ([accepting_texts]) to the sentinel of their class, every other key to a
    sentinel of the rejection class. *)
Theorem C20_mapping_tables_respect_classes : tables_respect code_tables = true.
Proof. exact (eq_refl true <: tables_respect code_tables = true). Qed.
Print Assumptions C20_mapping_tables_respect_classes.

(** Hence a node's reply that contains none of those nine texts comes out of
    MapRPCErr - of every backend, whatever the iteration order of the Go maps -
    as an error of the rejection class, on which publishTransaction removes
    the transaction and returns the error: a rejection is never taken for
    "the node has it". *)
Theorem C20_rejection_text_stays_rejection : forall b msg c,
  plain_rejection_text msg = true -> In c (map_candidates code_tables b msg) ->
  is_rejection (ASentinel c) = true /\ cfg_class code_cfg (ASentinel c) = drop_err.
Proof.
  exact (fun b msg c Hm Hc =>
           let H := rejection_text_is_rejected code_tables b msg C20_mapping_tables_respect_classes Hm c Hc in
           conj H (C20_every_rejection_removes_and_errors (ASentinel c) H)).
Qed.
Print Assumptions C20_rejection_text_stays_rejection.

(* ------------------------------------------------------------------ *)
(** Non-vacuity.  Universe: 1 = a confirmed payment to the wallet (100000);
    2 = a wallet send spending it (30000 to a stranger, 69000 change);
    3 = a second send spending the unconfirmed change of 2 (50000 + 18000
    change); 4 = an unrelated unconfirmed payment to the wallet (7000). *)
Definition ex_U : universe := universe_of_list
  [ {| t_id := 1; t_ins := []; t_outs := [100000]; t_creds := [(0%N, false)]; t_coinbase := false |};
    {| t_id := 2; t_ins := [(1%N, 0%N)]; t_outs := [30000; 69000]; t_creds := [(1%N, true)]; t_coinbase := false |};
    {| t_id := 3; t_ins := [(2%N, 1%N)]; t_outs := [50000; 18000]; t_creds := [(1%N, true)]; t_coinbase := false |};
    {| t_id := 4; t_ins := []; t_outs := [7000]; t_creds := [(0%N, false)]; t_coinbase := false |} ].

Definition ex_h : list event := [Confirm 1 1 11 0; Seen 4].
Definition ex_s : store := st (run ex_U ex_h).
Definition ex_F : facts := fs (spec_run ex_U ex_h).
Definition bal0 (s : store) : Z := balance ex_U s 0 1 0.
Definition ops (s : store) : list outpoint := map u_op (unspent_outputs ex_U s 0).

(** the hypotheses are satisfiable together *)
Example C20_hypotheses_satisfiable :
  wf_universe ex_U = true /\ chain_consistent ex_U ex_h = true /\
  event_ok ex_U ex_F (Seen 2) = true /\ fresh ex_U ex_F 2 = true /\ bal0 ex_s = 107000.
Proof. vm_compute. repeat split. Qed.

(** a rejected send leaves balance, spendable set and unconfirmed set as they
    were; an accepted one is recorded once *)
Example C20_rejection_and_acceptance :
  (let '(r, s') := publish expected_cfg ex_U 2 AReject true ex_s in
   r = PError /\ bal0 s' = 107000 /\ ops s' = ops ex_s /\ unmined_hashes s' = [4%N]) /\
  (let '(r, s') := publish expected_cfg ex_U 2 AInMempool true ex_s in
   r = PSuccess /\ bal0 s' = 76000 /\ unmined_hashes s' = [2%N; 4%N] /\
   ops s' = [(2%N, 1%N); (4%N, 0%N)]).
Proof. vm_compute. repeat split. Qed.

(** a chained unconfirmed send: when the parent's re-broadcast is rejected the
    child is removed too (it is still offered - the loop ranges over the
    precomputed list), the unrelated transaction stays, and the funds of the
    parent are spendable again *)
Example C20_chained_send_parent_rejected :
  let s2 := (publish expected_cfg ex_U 2 AAccept true ex_s).2 in
  let s3 := (publish expected_cfg ex_U 3 AAccept true s2).2 in
  unmined_hashes s3 = [3%N; 2%N; 4%N] /\ bal0 s3 = 25000 /\
  match resend expected_cfg ex_U (unmined_set ex_U s3) (unmined_hashes s3) [AReject; AAccept; AInMempool] s3 with
  | Some (l, rs, s') =>
      l = [2%N; 4%N; 3%N] /\ rs = [PError; PSuccess; PSuccess] /\
      unmined_hashes s' = [4%N] /\ bal0 s' = 107000 /\ ops s' = ops ex_s
  | None => False
  end /\
  match resend expected_cfg ex_U (rev (unmined_set ex_U s3)) (rev (unmined_hashes s3)) [] s3 with
  | Some (l, rs, s') => l = [4%N; 2%N; 3%N] /\ unmined_hashes s' = [3%N; 2%N; 4%N]
  | None => False
  end.
Proof. vm_compute. repeat split. Qed.

(** Finding S9, as the pinned tree behaves ([pinned_cfg]: the branch after a
    failed NotifyReceived returns the error without removing): the caller
    gets an error, yet the transaction stays recorded, the coin it spends is
    gone from the spendable set and its change is counted - whereas with the
    removal in place nothing is left. *)
Example C20_refuted_notify_failure :
  (let '(r, s') := publish pinned_cfg ex_U 2 AAccept false ex_s in
   r = PError /\ unmined_hashes s' = [2%N; 4%N] /\ bal0 s' = 76000 /\
   ops s' = [(2%N, 1%N); (4%N, 0%N)]) /\
  (let '(r, s') := publish expected_cfg ex_U 2 AAccept false ex_s in
   r = PError /\ unmined_hashes s' = [4%N] /\ bal0 s' = 107000 /\ ops s' = ops ex_s).
Proof. vm_compute. repeat split. Qed.

(** The escape named by the review: publishTransaction gets
    `case errors.Is(rpcErr, chain.ErrMempoolMinFeeNotMet): return nil, rpcErr`
    (keep the transaction for a later retry).  The table then is not sound,
    and the caller gets an error while the transaction stays recorded, the
    coin it spends is gone and its change is counted. *)
Definition escape_table : list (string * action) :=
  map (fun r => if String.eqb r.1 "ErrMempoolMinFeeNotMet" then (r.1, keep_err) else r) code_table.
Definition escape_cfg : pcfg := {| cfg_notify := drop_err; cfg_class := table_class code_base escape_table |}.

Example C20_refuted_kept_on_min_fee :
  table_sound code_base escape_table = false /\
  is_rejection (ASentinel "ErrMempoolMinFeeNotMet") = true /\
  (let '(r, s') := publish escape_cfg ex_U 2 (ASentinel "ErrMempoolMinFeeNotMet") true ex_s in
   r = PError /\ unmined_hashes s' = [2%N; 4%N] /\ bal0 s' = 76000) /\
  (let '(r, s') := publish code_cfg ex_U 2 (ASentinel "ErrMempoolMinFeeNotMet") true ex_s in
   r = PError /\ unmined_hashes s' = [4%N] /\ bal0 s' = 107000 /\ ops s' = ops ex_s).
Proof. vm_compute. repeat split. Qed.

(** the mapping model on "I have it" replies as the nodes put them on the wire
    (only texts that [accepting_texts] pins anyway) *)
Example C20_mapping_examples :
  map_candidates code_tables BBitcoind "-26: txn-already-in-mempool" = ["ErrTxAlreadyInMempool"] /\
  map_candidates code_tables BBitcoind "-27: Transaction outputs already in utxo set" = ["ErrTxAlreadyConfirmed"] /\
  map_candidates code_tables BBtcdOld "-26: TX rejected: already have transaction 4a5e" = ["ErrTxAlreadyInMempool"] /\
  map_candidates code_tables BBtcd "-26: TX rejected: already have transaction 4a5e" = ["ErrUndefined"] /\
  plain_rejection_text "-26: mempool min fee not met, 141 < 1000" = true /\
  plain_rejection_text "-26: txn-already-in-mempool" = false.
Proof. vm_compute. repeat split. Qed.

(* ------------------------------------------------------------------ *)
(** The hand-over fails because the NotifyReceived subscription fails: the
    caller gets the error and - PROVIDED the error branch removes the
    transaction recorded just before (regenerated fact
    [notify_failure_removes_tx]; false at the pinned commit, finding S9) -
    nothing is left, exactly as for a rejection.  Kept last: on a tree without
    the removal this is the obligation that no longer checks. *)
Theorem C20_notify_failure_leaves_no_trace : forall U s F t a,
  wf_universe U = true -> Inv U s F -> event_ok U F (Seen t) = true -> fresh U F t = true ->
  exists s', publish code_cfg U t a false s = (PError, s') /\
             Inv U s' F /\ same_observables U s s' F.
Proof.
  exact (fun U s F t a Hwf => failed_attempt_no_trace U Hwf code_cfg s F t a false eq_refl).
Qed.
Print Assumptions C20_notify_failure_leaves_no_trace.
