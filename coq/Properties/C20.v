(** C20 - A rejected broadcast leaves no trace; unconfirmed sends are re-offered.
    Property theorems only; proofs are in Tx/PublishProofs.v and
    Tx/PublishResend.v, the model in Tx/Publish.v.

    The theorems are about [code_cfg] (Tx/PublishCode.v): the model of
    reliablyPublishTransaction / publishTransaction / resendUnminedTxs
    instantiated with what wallet/wallet.go says NOW - which branch calls
    RemoveUnminedTx and which returns an error is regenerated from the source
    on every run (Generated/PublishFacts.v).  The expected value of each fact
    is a premise discharged here by computation ([eq_refl]); when the source
    makes one of them false this file stops compiling and the check reports
    the broken obligation.

    Vocabulary (Tx/Store.v, Ledger.v, Hist.v, Inv.v, Publish.v):
      Inv U s F            the store [s] holds exactly the facts [F] (refinement
                           invariant; by [refinement_statement] every state
                           reached by a chain-consistent history satisfies it)
      event_ok U F (Seen t)  t is a non-coinbase transaction of the universe
                           that a validating node can relay in situation F
      fresh U F t          t is not known and no unconfirmed transaction spends
                           one of its outputs (any just-authored transaction)
      publish cfg U t a ok s   PublishTransaction / SendOutputs of t when the
                           backend answers [a] and the NotifyReceived
                           subscription succeeds iff [ok]
      same_observables U s s' F   every balance (all minconf, sync heights,
                           times), the spendable set and the unconfirmed set of
                           s' are those of s
      spec_seen / spec_abandon   ledger facts with t recorded / with t and every
                           unconfirmed transaction that transitively spends its
                           outputs forgotten. *)
From stdpp Require Import gmap list numbers.
From Coq Require Import ZArith NArith.
From Verif Require Import Tx.Store Tx.Ledger Tx.Hist Tx.Inv Tx.InvRemove Tx.Publish Tx.PublishCode
     Tx.PublishProofs Tx.PublishResend.
From Verif Require Tx.Kahn Tx.KahnProofs Tx.RefineAll.
Local Open Scope Z_scope.

(** The code has the shape the model transcribes: the transaction is recorded
    before NotifyReceived and broadcast after it, RemoveUnminedTx is the
    recursive removeConflict, resendUnminedTxs ranges over Store.UnminedTxs
    (= DependencySort of the unmined records) without leaving the loop early. *)
Theorem C20_code_shape : code_shape_ok = true.
Proof. exact eq_refl. Qed.
Print Assumptions C20_code_shape.

(** The backend rejects a fresh transaction: the caller gets the error, the
    store satisfies the invariant for the SAME facts as before the attempt,
    hence every balance, the spendable set and the unconfirmed set are exactly
    the pre-attempt ones (spent coins spendable again, change not counted). *)
Theorem C20_rejected_leaves_no_trace : forall U s F t,
  wf_universe U = true -> Inv U s F -> event_ok U F (Seen t) = true -> fresh U F t = true ->
  exists s', publish code_cfg U t AReject true s = (PError, s') /\
             Inv U s' F /\ same_observables U s s' F.
Proof.
  exact (fun U s F t Hwf => failed_attempt_no_trace U Hwf code_cfg s F t AReject true eq_refl).
Qed.
Print Assumptions C20_rejected_leaves_no_trace.

(** "Already known" / "already confirmed" (the backend has it in a block): as
    above, the transaction does not stay among the unconfirmed ones, and the
    call reports success. *)
Theorem C20_known_or_confirmed_not_kept : forall U s F t a,
  a = AKnown \/ a = AConfirmed ->
  wf_universe U = true -> Inv U s F -> event_ok U F (Seen t) = true -> fresh U F t = true ->
  exists s', publish code_cfg U t a true s = (PSuccess, s') /\
             Inv U s' F /\ same_observables U s s' F.
Proof.
  intros U s F t a [-> | ->] Hwf.
  - exact (known_answer_no_trace U Hwf code_cfg s F t AKnown eq_refl).
  - exact (known_answer_no_trace U Hwf code_cfg s F t AConfirmed eq_refl).
Qed.
Print Assumptions C20_known_or_confirmed_not_kept.

(** Accepted, or already in the backend's mempool: success; the facts are the
    previous ones plus t as unconfirmed; t is in the unconfirmed set exactly
    once; every outpoint is listed at most once in the spendable set, which -
    like every balance - is that of the ledger with t known (its credits
    counted once, the coins it spends not at all). *)
Theorem C20_mempool_tx_recorded_once : forall U s F t a,
  a = AAccept \/ a = AInMempool ->
  wf_universe U = true -> Inv U s F -> event_ok U F (Seen t) = true ->
  exists s', publish code_cfg U t a true s = (PSuccess, s') /\ Inv U s' (spec_seen U F t) /\
    (known F t = false ->
       unmined_hashes s' ≡ₚ t :: elements (f_unconf F) /\ NoDup (unmined_hashes s') /\
       t ∈ unmined_hashes s') /\
    (forall now, NoDup (u_op <$> unspent_outputs U s' now) /\
                 unspent_outputs U s' now ≡ₚ spec_utxos U (spec_seen U F t) now) /\
    (forall minconf sync now, 0 <= minconf ->
       (forall c h b, f_conf F !! c = Some (h, b) -> h <= sync) ->
       balance U s' minconf sync now = spec_balance U (spec_seen U F t) minconf sync now).
Proof.
  intros U s F t a [-> | ->] Hwf.
  - exact (mempool_tx_recorded_once U Hwf code_cfg s F t AAccept eq_refl).
  - exact (mempool_tx_recorded_once U Hwf code_cfg s F t AInMempool eq_refl).
Qed.
Print Assumptions C20_mempool_tx_recorded_once.

(** A transaction that is ALREADY recorded as unconfirmed (re-broadcast after
    a restart, or PublishTransaction of a known transaction) and is now
    refused - rejected, or reported as known/confirmed: it is forgotten
    together with every unconfirmed transaction that transitively spends its
    outputs; every other unconfirmed transaction, the confirmed ones and the
    leases stay. *)
Theorem C20_failed_rebroadcast_forgets_descendants : forall U s F t a,
  a = AReject \/ a = AKnown \/ a = AConfirmed ->
  wf_universe U = true -> Inv U s F -> t ∈ f_unconf F ->
  exists s', publish code_cfg U t a true s = ((if decide (a = AReject) then PError else PSuccess), s') /\
    Inv U s' (spec_abandon U F t) /\
    t ∉ f_unconf (spec_abandon U F t) /\
    (forall c, depends_on U F [t] c -> c ∉ f_unconf (spec_abandon U F t)) /\
    (forall c, c ∈ f_unconf F -> ~ depends_on U F [t] c -> c ∈ f_unconf (spec_abandon U F t)) /\
    f_conf (spec_abandon U F t) = f_conf F /\ f_leases (spec_abandon U F t) = f_leases F.
Proof.
  intros U s F t a [-> | [-> | ->]] Hwf.
  - exact (failed_rebroadcast_forgets_descendants U Hwf code_cfg s F t AReject true eq_refl).
  - exact (failed_rebroadcast_forgets_descendants U Hwf code_cfg s F t AKnown true eq_refl).
  - exact (failed_rebroadcast_forgets_descendants U Hwf code_cfg s F t AConfirmed true eq_refl).
Qed.
Print Assumptions C20_failed_rebroadcast_forgets_descendants.

(** Every attempt, every answer class, subscription failure included: the
    removal never runs out of fuel and the resulting store satisfies the
    invariant for the facts [spec_publish_cfg code_cfg] (recorded, then
    forgotten with its descendants exactly when the branch taken removes). *)
Theorem C20_every_attempt_refines : forall U s F t a ok,
  wf_universe U = true -> Inv U s F -> event_ok U F (Seen t) = true ->
  exists s', publish code_cfg U t a ok s = (result_of (branch code_cfg a ok), s') /\
             Inv U s' (spec_publish_cfg code_cfg U F t a ok).
Proof. exact (fun U s F t a ok Hwf => publish_ok U Hwf code_cfg s F t a ok). Qed.
Print Assumptions C20_every_attempt_refines.

(** After a (re)synchronisation: for both map iteration orders inside
    DependencySort, the sort terminates; the offered sequence contains every
    unconfirmed wallet transaction exactly once; each one comes after every
    unconfirmed transaction whose output it spends; every element is offered
    (one result each, none out of fuel) and the final store satisfies the
    invariant for the specification's facts (rejected ones forgotten with
    their descendants). *)
Theorem C20_resend_offers_all_parents_first : forall U s F pi1 pi2 answers,
  wf_universe U = true -> Inv U s F ->
  pi1 ≡ₚ unmined_set U s -> pi2 ≡ₚ unmined_hashes s ->
  exists l rs s', resend code_cfg U pi1 pi2 answers s = Some (l, rs, s') /\
    l ≡ₚ elements (f_unconf F) /\ NoDup l /\
    (forall p c, p ∈ f_unconf F -> c ∈ f_unconf F -> spends_output_of U c p = true ->
                 KahnProofs.before p c l) /\
    length rs = length l /\ PFuel ∉ rs /\
    Inv U s' (spec_resend_list code_cfg U l answers F).
Proof. exact (fun U s F pi1 pi2 answers Hwf => resend_offers_all_parents_first U Hwf code_cfg s F pi1 pi2 answers). Qed.
Print Assumptions C20_resend_offers_all_parents_first.

(** Over histories: with the refinement of the transaction store
    ([refinement_statement], Tx/Inv.v - the composition of the per-event
    lemmas) the statements hold in every state reached by a chain-consistent
    history. *)
Theorem C20_over_histories : refinement_statement ->
  forall U h t, wf_universe U = true -> chain_consistent U h = true ->
  event_ok U (fs (spec_run U h)) (Seen t) = true -> fresh U (fs (spec_run U h)) t = true ->
  (exists s', publish code_cfg U t AReject true (st (run U h)) = (PError, s') /\
              Inv U s' (fs (spec_run U h)) /\
              same_observables U (st (run U h)) s' (fs (spec_run U h))) /\
  (forall pi1 pi2 answers,
     pi1 ≡ₚ unmined_set U (st (run U h)) -> pi2 ≡ₚ unmined_hashes (st (run U h)) ->
     exists l rs s', resend code_cfg U pi1 pi2 answers (st (run U h)) = Some (l, rs, s') /\
       l ≡ₚ elements (f_unconf (fs (spec_run U h))) /\ NoDup l /\
       (forall p c, p ∈ f_unconf (fs (spec_run U h)) -> c ∈ f_unconf (fs (spec_run U h)) ->
                    spends_output_of U c p = true -> KahnProofs.before p c l)).
Proof.
  intros Href U h t Hwf Hc Hok Hfr. split.
  - exact (failed_attempt_no_trace_after_history Href code_cfg U h t AReject true eq_refl Hwf Hc Hok Hfr).
  - intros pi1 pi2 answers. exact (resend_after_history Href code_cfg U h pi1 pi2 answers Hwf Hc).
Qed.
Print Assumptions C20_over_histories.

(** ... and that refinement is a closed theorem ([RefineAll.refinement]: every
    event of a chain-consistent history preserves the invariant), so: after
    EVERY chain-consistent wallet history, a rejected fresh transaction leaves
    balances, spendable set and unconfirmed set as they were, and a
    re-broadcast offers exactly the unconfirmed transactions, each once,
    parents first. *)
Theorem C20_after_every_history :
  forall U h t, wf_universe U = true -> chain_consistent U h = true ->
  event_ok U (fs (spec_run U h)) (Seen t) = true -> fresh U (fs (spec_run U h)) t = true ->
  (exists s', publish code_cfg U t AReject true (st (run U h)) = (PError, s') /\
              Inv U s' (fs (spec_run U h)) /\
              same_observables U (st (run U h)) s' (fs (spec_run U h))) /\
  (forall pi1 pi2 answers,
     pi1 ≡ₚ unmined_set U (st (run U h)) -> pi2 ≡ₚ unmined_hashes (st (run U h)) ->
     exists l rs s', resend code_cfg U pi1 pi2 answers (st (run U h)) = Some (l, rs, s') /\
       l ≡ₚ elements (f_unconf (fs (spec_run U h))) /\ NoDup l /\
       (forall p c, p ∈ f_unconf (fs (spec_run U h)) -> c ∈ f_unconf (fs (spec_run U h)) ->
                    spends_output_of U c p = true -> KahnProofs.before p c l)).
Proof. exact (C20_over_histories RefineAll.refinement). Qed.
Print Assumptions C20_after_every_history.

(* ------------------------------------------------------------------ *)
(** Non-vacuity.  Universe: 1 = a confirmed payment to the wallet (100000);
    2 = a wallet send spending it (30000 to a stranger, 69000 change);
    3 = a second send spending the unconfirmed change of 2 (50000 + 18000
    change); 4 = an unrelated unconfirmed payment to the wallet (7000). *)
Definition ex_U : universe := universe_of_list
  [ {| t_id := 1; t_ins := []; t_outs := [100000]; t_creds := [(0%N, false)]; t_coinbase := false |};
    {| t_id := 2; t_ins := [(1%N, 0%N)]; t_outs := [30000; 69000]; t_creds := [(1%N, true)]; t_coinbase := false |};
    {| t_id := 3; t_ins := [(2%N, 1%N)]; t_outs := [50000; 18000]; t_creds := [(1%N, true)]; t_coinbase := false |};
    {| t_id := 4; t_ins := []; t_outs := [7000]; t_creds := [(0%N, false)]; t_coinbase := false |} ].

Definition ex_h : list event := [Confirm 1 1 11 0; Seen 4].
Definition ex_s : store := st (run ex_U ex_h).
Definition ex_F : facts := fs (spec_run ex_U ex_h).
Definition bal0 (s : store) : Z := balance ex_U s 0 1 0.
Definition ops (s : store) : list outpoint := map u_op (unspent_outputs ex_U s 0).

(** the hypotheses are satisfiable together *)
Example C20_hypotheses_satisfiable :
  wf_universe ex_U = true /\ chain_consistent ex_U ex_h = true /\
  event_ok ex_U ex_F (Seen 2) = true /\ fresh ex_U ex_F 2 = true /\ bal0 ex_s = 107000.
Proof. vm_compute. repeat split. Qed.

(** a rejected send leaves balance, spendable set and unconfirmed set as they
    were; an accepted one is recorded once *)
Example C20_rejection_and_acceptance :
  (let '(r, s') := publish expected_cfg ex_U 2 AReject true ex_s in
   r = PError /\ bal0 s' = 107000 /\ ops s' = ops ex_s /\ unmined_hashes s' = [4%N]) /\
  (let '(r, s') := publish expected_cfg ex_U 2 AInMempool true ex_s in
   r = PSuccess /\ bal0 s' = 76000 /\ unmined_hashes s' = [2%N; 4%N] /\
   ops s' = [(2%N, 1%N); (4%N, 0%N)]).
Proof. vm_compute. repeat split. Qed.

(** a chained unconfirmed send: when the parent's re-broadcast is rejected the
    child is removed too (it is still offered - the loop ranges over the
    precomputed list), the unrelated transaction stays, and the funds of the
    parent are spendable again *)
Example C20_chained_send_parent_rejected :
  let s2 := (publish expected_cfg ex_U 2 AAccept true ex_s).2 in
  let s3 := (publish expected_cfg ex_U 3 AAccept true s2).2 in
  unmined_hashes s3 = [3%N; 2%N; 4%N] /\ bal0 s3 = 25000 /\
  match resend expected_cfg ex_U (unmined_set ex_U s3) (unmined_hashes s3) [AReject; AAccept; AInMempool] s3 with
  | Some (l, rs, s') =>
      l = [2%N; 4%N; 3%N] /\ rs = [PError; PSuccess; PSuccess] /\
      unmined_hashes s' = [4%N] /\ bal0 s' = 107000 /\ ops s' = ops ex_s
  | None => False
  end /\
  match resend expected_cfg ex_U (rev (unmined_set ex_U s3)) (rev (unmined_hashes s3)) [] s3 with
  | Some (l, rs, s') => l = [4%N; 2%N; 3%N] /\ unmined_hashes s' = [3%N; 2%N; 4%N]
  | None => False
  end.
Proof. vm_compute. repeat split. Qed.

(** Finding S9, as the pinned tree behaves ([pinned_cfg]: the branch after a
    failed NotifyReceived returns the error without removing): the caller
    gets an error, yet the transaction stays recorded, the coin it spends is
    gone from the spendable set and its change is counted - whereas with the
    removal in place nothing is left. *)
Example C20_refuted_notify_failure :
  (let '(r, s') := publish pinned_cfg ex_U 2 AAccept false ex_s in
   r = PError /\ unmined_hashes s' = [2%N; 4%N] /\ bal0 s' = 76000 /\
   ops s' = [(2%N, 1%N); (4%N, 0%N)]) /\
  (let '(r, s') := publish expected_cfg ex_U 2 AAccept false ex_s in
   r = PError /\ unmined_hashes s' = [4%N] /\ bal0 s' = 107000 /\ ops s' = ops ex_s).
Proof. vm_compute. repeat split. Qed.

(* ------------------------------------------------------------------ *)
(** The hand-over fails because the NotifyReceived subscription fails: the
    caller gets the error and - PROVIDED the error branch removes the
    transaction recorded just before (regenerated fact
    [notify_failure_removes_tx]; false at the pinned commit, finding S9) -
    nothing is left, exactly as for a rejection.  Kept last: on a tree without
    the removal this is the obligation that no longer checks. *)
Theorem C20_notify_failure_leaves_no_trace : forall U s F t a,
  wf_universe U = true -> Inv U s F -> event_ok U F (Seen t) = true -> fresh U F t = true ->
  exists s', publish code_cfg U t a false s = (PError, s') /\
             Inv U s' F /\ same_observables U s s' F.
Proof.
  exact (fun U s F t a Hwf => failed_attempt_no_trace U Hwf code_cfg s F t a false eq_refl).
Qed.
Print Assumptions C20_notify_failure_leaves_no_trace.
