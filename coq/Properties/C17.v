(** C17 - Stored ciphertexts are authenticated and bound to the right
    passphrase.  Property theorems only; proofs are in Crypto/SnaclProofs.v.

    WHAT EACH THEOREM RESTS ON (review round 3, item (b)).  Three kinds of
    ground occur, named in the comment of every theorem:

    (L) IDEAL LAWS of the primitives, explicit premises [law_...] (defined in
        Crypto/Snacl.v).  [law_open_seal], [law_open_only_sealed],
        [law_kdf_hmac], [law_kdf_domain] are exact properties of
        XSalsa20-Poly1305 / PBKDF2-HMAC / scrypt.Key as functions.
        [law_seal_binds], [law_seal_no_near], [law_seal_no_prefix],
        [law_kdf_inj], [law_hash_inj] are IDEALISATIONS: they are false for
        the real Poly1305, scrypt and SHA-256 by counting (collisions exist,
        they only cannot be found).  A theorem with such a premise therefore
        applies literally only to primitives like the toy instance
        (C17_laws_satisfiable); for the real code it says "the wrapper adds
        no way to accept a forgery / another passphrase beyond a collision of
        the primitive".  The cryptographic strength itself is NOT proved.
    (W) WRAPPER LOGIC of snacl.go / waddrmgr as transcribed in Crypto/Snacl.v
        (nonce ++ box layout, length check, which value is handed to the kdf,
        what is compared, the 88-byte codec, key selection).  The theorems
        about Decrypt and DeriveKey are stated on [decrypt_c], [derive_key_c],
        [new_secret_key_c] AT THE FACTS REGENERATED FROM THE SOURCE
        ([snacl_facts] = Generated/SnaclFacts.v: the passphrase reaches
        scrypt.Key unchanged; DeriveKey compares the whole digest; Decrypt
        returns an error when secretbox.Open fails).  Each needs its fact
        ([eq_refl] below is the check that the regenerated value is the
        required one): a source change that trims / folds / truncates the
        passphrase, compares a digest prefix or ignores Open's result makes
        the extractor regenerate another value and these theorems stop
        checking.  C17_fact_..._needed show that each fact is necessary.
    (C) CORRESPONDENCE (this run, not a theorem): that the transcription and
        the ideal laws describe what the built code does on the generated
        inputs - every bit flip and truncation of every ciphertext, every
        near-miss passphrase, every bit flip of the stored parameters,
        through snacl and through waddrmgr.  The clause "the REAL secretbox /
        scrypt / sha256 reject" rests on (C) and the oracle alone.

    The property demands "fails with an error instead of returning data":
    the theorems say [fails], not which error (review (e)); the exact error
    values of the model are lemmas of SnaclProofs.v (decrypt_truncated ...)
    and are not compared with the implementation. *)
From Verif Require Import Base.Prelude Crypto.Snacl Crypto.SnaclProofs.
Local Open Scope N_scope.

(** Decrypting what was encrypted under the same key returns the original
    bytes (every key, every 24-byte nonce the random source delivers, every
    plaintext including the empty one).
    Rests on: (L) law_open_seal (exact); (W) layout nonce ++ box and the split
    at 24.  Needs none of the three code facts (holds for every value of
    them: the success path does not depend on them).  Whether the real Open
    inverts the real Seal: (C). *)
Theorem C17_roundtrip : forall seal open, law_open_seal seal open ->
  forall k n m c, length n = NonceSize ->
    encrypt seal k (Some n) m = Ok c -> decrypt_c snacl_facts open k c = Ok m.
Proof.
  intros seal open L k n m c Hn H. injection H as <-.
  exact (c_roundtrip snacl_facts seal open L k n m Hn).
Qed.
Print Assumptions C17_roundtrip.

Theorem C17_roundtrip_empty : forall seal open, law_open_seal seal open ->
  forall k n, length n = NonceSize -> decrypt_c snacl_facts open k (encrypt_with seal k n []) = Ok [].
Proof. intros seal open L k n Hn. exact (c_roundtrip snacl_facts seal open L k n [] Hn). Qed.
Print Assumptions C17_roundtrip_empty.

(** Decryption under any other key fails with an error.
    Rests on: (L) law_open_only_sealed (exact) and law_seal_binds
    (IDEALISED: a box commits to its key); (W) fact "Decrypt checks Open"
    (regenerated; without it see C17_fact_open_checked_needed).  For the real
    Poly1305: (C), every generated ciphertext under 6 to 258 other keys. *)
Theorem C17_wrong_key : forall seal open,
  law_open_only_sealed seal open -> law_seal_binds seal ->
  forall k k' n m, length n = NonceSize -> k' <> k ->
    fails (decrypt_c snacl_facts open k' (encrypt_with seal k n m)).
Proof. exact (c_wrong_key snacl_facts eq_refl). Qed.
Print Assumptions C17_wrong_key.

(** Every single-bit flip of every byte of nonce ++ box fails with an error
    (more generally: every modification of one byte).
    Rests on: (L) law_open_only_sealed (exact), law_seal_binds and
    law_seal_no_near (IDEALISED); (W) the split at 24 and the fact "Decrypt
    checks Open".  For the real primitive: (C), EVERY bit of every generated
    ciphertext. *)
Theorem C17_bit_flip : forall seal open,
  law_open_only_sealed seal open -> law_seal_binds seal -> law_seal_no_near seal ->
  forall k n m i j, length n = NonceSize -> (i < length (encrypt_with seal k n m))%nat ->
    fails (decrypt_c snacl_facts open k (flip_bit (encrypt_with seal k n m) i j)).
Proof. exact (c_bit_flip snacl_facts eq_refl). Qed.
Print Assumptions C17_bit_flip.

Theorem C17_byte_modified : forall seal open,
  law_open_only_sealed seal open -> law_seal_binds seal -> law_seal_no_near seal ->
  forall k n m i mask, length n = NonceSize -> (i < length (encrypt_with seal k n m))%nat ->
    mask <> 0 ->
    fails (decrypt_c snacl_facts open k (xor_at (encrypt_with seal k n m) i mask)).
Proof. exact (c_byte_modified snacl_facts eq_refl). Qed.
Print Assumptions C17_byte_modified.

(** Every strict truncation fails with an error (in the model: ErrMalformed
    below the nonce size, ErrDecryptFailed from there on - lemma
    decrypt_truncated; which of the two is not part of the property).
    Rests on: (L) law_open_only_sealed (exact), law_seal_no_prefix
    (IDEALISED); (W) the length check, the split and the fact "Decrypt checks
    Open".  Real primitive: (C), EVERY truncation length. *)
Theorem C17_truncation : forall seal open,
  law_open_only_sealed seal open -> law_seal_no_prefix seal ->
  forall k n m t, length n = NonceSize -> (t < length (encrypt_with seal k n m))%nat ->
    fails (decrypt_c snacl_facts open k (firstn t (encrypt_with seal k n m))).
Proof. exact (c_truncation snacl_facts eq_refl). Qed.
Print Assumptions C17_truncation.

(** Error instead of data, for arbitrary input: Decrypt returns either data
    or an error, and data only for an input that is exactly the honest
    ciphertext of that data under this key and the carried nonce.
    Rests on: (L) law_open_only_sealed only (exact: Open recomputes the
    authenticator of what it is given) - no idealised law; (W) the fact
    "Decrypt checks Open". *)
Theorem C17_only_honest_ciphertexts_decrypt : forall seal open,
  law_open_only_sealed seal open ->
  forall k c,
    ((exists m, decrypt_c snacl_facts open k c = Ok m) \/ fails (decrypt_c snacl_facts open k c)) /\
    forall m, decrypt_c snacl_facts open k c = Ok m ->
      c = encrypt_with seal k (firstn NonceSize c) m /\ length (firstn NonceSize c) = NonceSize.
Proof. exact (c_only_honest snacl_facts eq_refl). Qed.
Print Assumptions C17_only_honest_ciphertexts_decrypt.

(** The fact "Decrypt checks Open" is necessary: for code that ignores the
    result of secretbox.Open EVERY input of at least 24 bytes decrypts - under
    every key, after every bit flip and truncation down to the nonce.
    Rests on: (W) only (no law); it is the model of the mutated code, used by
    the correspondence when the extractor regenerates [false]. *)
Theorem C17_fact_open_checked_needed : forall cf open k c,
  cf_open_checked cf = false -> (NonceSize <= length c)%nat ->
  exists m, decrypt_c cf open k c = Ok m.
Proof. intros cf open k c. exact (unchecked_open_decrypts_anything cf open k c). Qed.
Print Assumptions C17_fact_open_checked_needed.

(** Two encryptions never yield equal ciphertexts provided the random source
    never repeats a nonce (that is the random source's obligation, stated as
    the hypothesis [n <> n']).
    Rests on: (W) only - "the nonce is the first 24 bytes of the output", i.e.
    different prefixes differ; no cryptographic premise and no content beyond
    the layout.  That crypto/rand does not repeat: (C), 8 encryptions per case
    pairwise compared, and otherwise trusted. *)
Theorem C17_distinct_nonces_distinct_ciphertexts : forall seal k k' n n' m m',
  length n = NonceSize -> length n' = NonceSize -> n <> n' ->
  encrypt_with seal k n m <> encrypt_with seal k' n' m'.
Proof. exact encrypt_distinct_nonces. Qed.
Print Assumptions C17_distinct_nonces_distinct_ciphertexts.

(** A passphrase-derived key and the passphrases it accepts.  The code hands
    the passphrase to scrypt = PBKDF2-HMAC-SHA256, where it only acts through
    its 64-byte HMAC key block ([hmac_key_block]: zero padded, or SHA-256 of a
    longer passphrase).  So, on any SecretKey value with the same parameters
    (after Zero, after Unmarshal): the creating passphrase re-derives the same
    key; a passphrase is accepted IF AND ONLY IF it has the creating
    passphrase's key block; every other one gets ErrInvalidPassword.
    Rests on: (L) law_kdf_inj and law_hash_inj (IDEALISED: scrypt and SHA-256
    collision-free), law_kdf_hmac, law_kdf_domain (exact); (W) the facts
    "passphrase bytes reach the kdf unchanged" (at creation and at
    verification) and "the whole digest is compared" (regenerated; [pre] is
    whatever the code would apply otherwise and is irrelevant here).  The
    acceptance of the creator (first conjunct) needs no law.  Real scrypt and
    SHA-256, and every near miss of every base passphrase: (C). *)
Theorem C17_passphrase_exact : forall pre kdf hash,
  law_kdf_inj kdf hash -> law_kdf_hmac kdf hash -> law_kdf_domain kdf -> law_hash_inj hash ->
  forall pw s n r p sk sk', new_secret_key_c snacl_facts pre kdf hash pw (Some s) n r p = Ok sk ->
    sk_params sk' = sk_params sk ->
    derive_key_c snacl_facts pre kdf hash sk' pw = (sk, None) /\
    forall pw',
      (hmac_key_block hash pw' <> hmac_key_block hash pw ->
       snd (derive_key_c snacl_facts pre kdf hash sk' pw') = Some ErrInvalidPassword) /\
      (snd (derive_key_c snacl_facts pre kdf hash sk' pw') = None <->
       hmac_key_block hash pw' = hmac_key_block hash pw).
Proof. intros pre. exact (c_passphrase_exact snacl_facts pre eq_refl eq_refl). Qed.
Print Assumptions C17_passphrase_exact.

(** The property's clause "accepts only the exact passphrase", outside the
    recorded finding K = "same HMAC key block": among passphrases of at most
    64 bytes that do not end in a NUL byte, exactly the creating passphrase is
    accepted (every bit flip, case change, dropped, added or swapped non-NUL
    byte, every appended / prepended / stripped space, tab, CR, LF of such a
    passphrase is rejected).
    Rests on: as C17_passphrase_exact without law_kdf_hmac. *)
Theorem C17_passphrase_exact_outside_K : forall pre kdf hash,
  law_kdf_inj kdf hash -> law_kdf_domain kdf -> law_hash_inj hash ->
  forall pw s n r p sk sk' pw', new_secret_key_c snacl_facts pre kdf hash pw (Some s) n r p = Ok sk ->
    sk_params sk' = sk_params sk ->
    (length pw <= 64)%nat -> (length pw' <= 64)%nat -> last pw 1 <> 0 -> last pw' 1 <> 0 ->
    pw' <> pw -> snd (derive_key_c snacl_facts pre kdf hash sk' pw') = Some ErrInvalidPassword.
Proof. intros pre. exact (c_passphrase_exact_outside_K snacl_facts pre eq_refl eq_refl). Qed.
Print Assumptions C17_passphrase_exact_outside_K.

(** ... and refuted inside K, for every kdf into which the passphrase enters
    through its HMAC key block only (exact for scrypt): a passphrase shorter
    than 64 bytes followed by a NUL byte is accepted and yields the same key.
    (Real snacl: NewSecretKey("password") accepts DeriveKey("password\000").)
    Rests on: (L) law_kdf_hmac (exact); (W) the two passphrase facts. *)
Theorem C17_refuted_trailing_nul : forall pre kdf hash, law_kdf_hmac kdf hash ->
  forall pw s n r p sk sk', new_secret_key_c snacl_facts pre kdf hash pw (Some s) n r p = Ok sk ->
    sk_params sk' = sk_params sk -> (length pw < 64)%nat ->
    pw ++ [0] <> pw /\ derive_key_c snacl_facts pre kdf hash sk' (pw ++ [0]) = (sk, None).
Proof. intros pre. exact (c_refuted_trailing_nul snacl_facts pre eq_refl eq_refl). Qed.
Print Assumptions C17_refuted_trailing_nul.

(** The fact "passphrase bytes reach the kdf unchanged" is necessary: code
    that applies a function [pre] first (TrimRight "\r\n", ToLower, a
    truncation ...) accepts EVERY passphrase with the same image as the
    creating one (P and P ++ "\n"; every case variant ...), whatever the kdf.
    Rests on: (W) only, no law. *)
Theorem C17_fact_pw_unchanged_needed : forall cf pre kdf hash pw pw' s n r p sk sk',
  cf_pw_unchanged cf = false -> pre pw' = pre pw ->
  new_secret_key_c cf pre kdf hash pw (Some s) n r p = Ok sk -> sk_params sk' = sk_params sk ->
  derive_key_c cf pre kdf hash sk' pw' = (sk, None).
Proof. intros cf pre. exact (preprocessed_passphrase_accepts_preimages cf pre). Qed.
Print Assumptions C17_fact_pw_unchanged_needed.

(** The fact "the whole digest is compared" is necessary: code comparing the
    first [cmp] bytes only accepts, with the creating passphrase, stored
    parameters whose digest was modified at any byte from [cmp] on (and they
    do differ from the stored ones): the digest no longer binds the key.
    Rests on: (W) only, no law. *)
Theorem C17_fact_full_digest_needed : forall cf pre kdf hash pw s n r p sk sk' cmp i mask,
  cf_digest_cmp cf = Some cmp -> (cmp <= i)%nat ->
  new_secret_key_c cf pre kdf hash pw (Some s) n r p = Ok sk ->
  sk_params sk' = {| salt := s; digest := xor_at (digest (sk_params sk)) i mask;
                     pN := n; pR := r; pP := p |} ->
  snd (derive_key_c cf pre kdf hash sk' pw) = None /\
  ((i < length (digest (sk_params sk)))%nat -> mask <> 0 ->
   digest (sk_params sk') <> digest (sk_params sk)).
Proof. intros cf pre. exact (prefix_compare_accepts_tampered_digest cf pre). Qed.
Print Assumptions C17_fact_full_digest_needed.

(** Rests on: (W) Zero maps every key byte to 0 and keeps the parameters, the
    two passphrase facts; no law. *)
Theorem C17_zero_then_rederive : forall pre kdf hash pw s n r p sk,
  new_secret_key_c snacl_facts pre kdf hash pw (Some s) n r p = Ok sk ->
  Forall (fun b => b = 0) (sk_key (sk_zero sk)) /\
  derive_key_c snacl_facts pre kdf hash (sk_zero sk) pw = (sk, None).
Proof. intros pre. exact (c_zero_then_rederive snacl_facts pre eq_refl eq_refl). Qed.
Print Assumptions C17_zero_then_rederive.

(** The parameter codec: 88 bytes exactly; every in-range parameter set
    round-trips; every input of another length is rejected, every 88-byte
    input accepted; the encoding is canonical (Marshal inverts Unmarshal on
    byte strings).
    Rests on: (W) only (the transcribed layout <salt 32><digest 32><N><R><P>
    little-endian; arithmetic proved for all values); no law, no code fact.
    That Marshal / Unmarshal of the real code have this layout: (C), byte for
    byte on every pass case. *)
Theorem C17_params_codec :
  (forall p, length (marshal_params p) = 88%nat) /\
  (forall p, params_in_range p -> unmarshal_params (marshal_params p) = Ok p) /\
  (forall d, length d <> 88%nat -> unmarshal_params d = Err ErrMalformed) /\
  (forall d, length d = 88%nat -> exists p, unmarshal_params d = Ok p) /\
  (forall d p, wf_bytes d -> unmarshal_params d = Ok p ->
     marshal_params p = d /\ params_in_range p).
Proof.
  split; [exact marshal_params_length|].
  split; [exact unmarshal_marshal_params|].
  split; [exact unmarshal_params_wrong_length|].
  split; [exact unmarshal_params_right_length|].
  exact marshal_unmarshal_params.
Qed.
Print Assumptions C17_params_codec.

(** The 64-bit little-endian field codec, for every value (no bound):
    decoding n encoded bytes gives the value modulo 256^n; encoding what was
    decoded from bytes gives the bytes; Go's int <-> uint64 conversions
    round-trip on the int range.
    Rests on: arithmetic only. *)
Theorem C17_le_codec :
  (forall n v, le_value (le_bytes n v) = v mod 256 ^ N.of_nat n) /\
  (forall l, wf_bytes l -> le_bytes (length l) (le_value l) = l) /\
  (forall z, int_range z -> get_u64 (put_u64 z) = z) /\
  (forall l, wf_bytes l -> length l = 8%nat -> put_u64 (get_u64 l) = l).
Proof.
  split; [exact le_value_le_bytes|].
  split; [exact le_bytes_le_value|].
  split; [exact get_put_u64|].
  exact put_get_u64.
Qed.
Print Assumptions C17_le_codec.

(** After a restart: the stored parameters decode to the same parameters,
    the same passphrase re-derives the same key and is accepted, a different
    one (different HMAC key block, see above) is rejected.
    Rests on: (L) law_kdf_inj, law_hash_inj (IDEALISED), law_kdf_domain
    (exact) for the rejection; (W) the codec and the two passphrase facts. *)
Theorem C17_restart : forall pre kdf hash,
  law_kdf_inj kdf hash -> law_kdf_domain kdf -> law_hash_inj hash ->
  forall pw s n r p sk, new_secret_key_c snacl_facts pre kdf hash pw (Some s) n r p = Ok sk ->
    params_in_range (sk_params sk) ->
    exists sk0, unmarshal fresh_sk (marshal sk) = Ok sk0 /\ sk_params sk0 = sk_params sk /\
      derive_key_c snacl_facts pre kdf hash sk0 pw = (sk, None) /\
      forall pw', hmac_key_block hash pw' <> hmac_key_block hash pw ->
                  snd (derive_key_c snacl_facts pre kdf hash sk0 pw') = Some ErrInvalidPassword.
Proof. intros pre. exact (c_restart snacl_facts pre eq_refl eq_refl). Qed.
Print Assumptions C17_restart.

(** Any modification of a single byte of the stored parameters (salt,
    digest, N, R or P; in particular every single-bit flip) makes DeriveKey
    reject even the correct passphrase.
    Rests on: (L) law_kdf_inj, law_hash_inj (IDEALISED); (W) the codec and
    the two passphrase facts - with a digest prefix compared it is FALSE
    (C17_fact_full_digest_needed).  Real code: (C), every bit of the 88
    bytes. *)
Theorem C17_params_tamper : forall pre kdf hash,
  law_kdf_inj kdf hash -> law_hash_inj hash ->
  forall pw s n r p sk i mask sk', new_secret_key_c snacl_facts pre kdf hash pw (Some s) n r p = Ok sk ->
    params_in_range (sk_params sk) -> (i < 88)%nat -> mask <> 0 ->
    wf_bytes (xor_at (marshal sk) i mask) ->
    unmarshal fresh_sk (xor_at (marshal sk) i mask) = Ok sk' ->
    snd (derive_key_c snacl_facts pre kdf hash sk' pw) = Some ErrInvalidPassword \/
    snd (derive_key_c snacl_facts pre kdf hash sk' pw) = Some ErrKdf.
Proof. intros pre. exact (c_params_tamper snacl_facts pre eq_refl eq_refl). Qed.
Print Assumptions C17_params_tamper.

(** waddrmgr.Manager.Decrypt adds nothing but key selection and error
    wrapping: for the three key types it is Decrypt under the selected key
    (so every theorem above transfers, with ErrCrypto around the error), and
    a locked manager refuses the private and script keys without data.
    Rests on: (W) only; it RESTATES the definition of [mgr_decrypt_c]
    (selectCryptoKey unfolded) and has no content beyond the transcription -
    whether Manager.Decrypt is that: (C), the mgr cases. *)
Theorem C17_manager_wrapper : forall open locked kt ks c,
  (kt = 0 \/ kt = 1 \/ kt = 2 ->
   mgr_decrypt_c snacl_facts open locked kt ks c =
   if locked && negb (kt =? 2) then MErr MErrLocked
   else match decrypt_c snacl_facts open (mgr_key_of kt ks) c with
        | Ok m => MOk m
        | Err e => MErr (MErrCrypto e)
        end) /\
  (2 < kt -> mgr_decrypt_c snacl_facts open locked kt ks c = MErr MErrInvalidKeyType).
Proof.
  intros open locked kt ks c.
  rewrite (mgr_decrypt_c_checked snacl_facts open locked kt ks c eq_refl).
  rewrite (decrypt_c_checked snacl_facts open (mgr_key_of kt ks) c eq_refl). split.
  - exact (mgr_decrypt_spec open locked kt ks c).
  - exact (mgr_decrypt_invalid_type open locked kt ks c).
Qed.
Print Assumptions C17_manager_wrapper.

(** waddrmgr's passphrase checks.  A manager whose master keys were made from
    the public passphrase [pub] and the private passphrase [priv]: Open
    (public), Unlock of a locked manager and ChangePassphrase's
    old-passphrase check accept a passphrase iff it has the HMAC key block of
    the respective passphrase, and answer "wrong passphrase" (not another
    error, never success) otherwise; Unlock of an already unlocked manager
    accepts the private passphrase itself and nothing else.
    Rests on: (L) the four kdf / hash laws (law_hash_inj also stands for the
    salted SHA-512 of the unlocked path: IDEALISED); (W) the transcription of
    loadManager / Unlock / ChangePassphrase's error mapping and the two
    passphrase facts.  Real managers: (C), the mgrpass cases. *)
Theorem C17_manager_passphrase : forall pre kdf hash,
  law_kdf_inj kdf hash -> law_kdf_hmac kdf hash -> law_kdf_domain kdf -> law_hash_inj hash ->
  forall pub priv s1 s2 n r p n' r' p' skpub skpriv st,
    new_secret_key_c snacl_facts pre kdf hash pub (Some s1) n r p = Ok skpub ->
    new_secret_key_c snacl_facts pre kdf hash priv (Some s2) n' r' p' = Ok skpriv ->
    sk_params (mp_pub st) = sk_params skpub -> sk_params (mp_priv st) = sk_params skpriv ->
    mp_priv_pw st = priv ->
    forall op pw',
      let same := match op with
                  | OpUnlockUnlocked => pw' = priv
                  | _ => hmac_key_block hash pw' = hmac_key_block hash (mgr_pw_base op pub priv)
                  end in
      (mgr_pw_check snacl_facts pre kdf hash op st pw' = PwAccepted <-> same) /\
      (~ same -> mgr_pw_check snacl_facts pre kdf hash op st pw' = PwWrong).
Proof. intros pre. exact (mgr_pw_check_exact snacl_facts pre eq_refl eq_refl). Qed.
Print Assumptions C17_manager_passphrase.

(** Non-vacuity: the toy primitives satisfy every law used above. *)
Theorem C17_laws_satisfiable :
  law_open_seal toy_seal toy_open /\ law_open_only_sealed toy_seal toy_open /\
  law_seal_binds toy_seal /\ law_seal_no_near toy_seal /\ law_seal_no_prefix toy_seal /\
  law_kdf_inj (toy_kdf toy_hash) toy_hash /\ law_kdf_hmac (toy_kdf toy_hash) toy_hash /\
  law_kdf_domain (toy_kdf toy_hash) /\ law_hash_inj toy_hash.
Proof.
  split; [exact toy_open_seal|].
  split; [exact toy_open_only_sealed|].
  split; [exact toy_seal_binds|].
  split; [exact toy_seal_no_near|].
  split; [exact toy_seal_no_prefix|].
  split; [exact (toy_kdf_inj toy_hash)|].
  split; [exact (toy_kdf_hmac toy_hash)|].
  split; [exact (toy_kdf_domain toy_hash)|].
  exact toy_hash_inj.
Qed.
Print Assumptions C17_laws_satisfiable.

(** ... and the premises on the data are satisfiable together with them: a
    toy key created from the empty passphrase has in-range parameters (32-byte
    salt and digest), survives Marshal/Unmarshal, accepts its passphrase,
    rejects a near miss (accepts the NUL-padded one), rejects a flipped parameter byte; ciphertexts
    round-trip (empty plaintext too) and every kind of tampering is refused. *)
Example C17_nonvacuous :
  let key := map N.of_nat (seq 1 32) in
  let key' := map N.of_nat (seq 2 32) in
  let nonce := map N.of_nat (seq 101 24) in
  let s := map N.of_nat (seq 201 32) in
  let c := t_encrypt_with key nonce [7; 8; 9] in
  t_decrypt key c = Ok [7; 8; 9] /\
  t_decrypt key (t_encrypt_with key nonce []) = Ok [] /\
  t_decrypt key' c = Err ErrDecryptFailed /\
  t_decrypt key (flip_bit c 3 0) = Err ErrDecryptFailed /\
  t_decrypt key (flip_bit c (length c - 1) 7) = Err ErrDecryptFailed /\
  t_decrypt key (firstn 23 c) = Err ErrMalformed /\
  t_decrypt key (firstn (length c - 1) c) = Err ErrDecryptFailed /\
  match t_new_secret_key [] (Some s) 2 1 1 with
  | Err _ => False
  | Ok sk =>
    length (salt (sk_params sk)) = 32%nat /\ length (digest (sk_params sk)) = 32%nat /\
    wf_bytes (marshal sk) /\
    match unmarshal fresh_sk (marshal sk) with
    | Err _ => False
    | Ok sk0 =>
      sk_params sk0 = sk_params sk /\
      t_derive_key sk0 [] = (sk, None) /\
      snd (t_derive_key sk0 [1]) = Some ErrInvalidPassword /\
      t_derive_key sk0 [0] = (sk, None)            (* the finding, in the toy too *)
    end /\
    match unmarshal fresh_sk (flip_bit (marshal sk) 40 5) with
    | Err _ => False
    | Ok sk1 => snd (t_derive_key sk1 []) = Some ErrInvalidPassword
    end /\
    match unmarshal fresh_sk (flip_bit (marshal sk) 72 0) with
    | Err _ => False
    | Ok sk1 => snd (t_derive_key sk1 []) = Some ErrKdf
    end /\
    unmarshal fresh_sk (firstn 87 (marshal sk)) = Err ErrMalformed
  end /\
  snd (t_derive_key
         match t_new_secret_key [1; 2; 3] (Some s) 16 8 1 with Ok sk => sk_zero sk | Err _ => fresh_sk end
         [1; 2; 3]) = None /\
  snd (t_derive_key
         match t_new_secret_key [1; 2; 3] (Some s) 16 8 1 with Ok sk => sk_zero sk | Err _ => fresh_sk end
         [1; 2; 2]) = Some ErrInvalidPassword /\
  snd (t_derive_key
         match t_new_secret_key [1; 2; 3] (Some s) 16 8 1 with Ok sk => sk_zero sk | Err _ => fresh_sk end
         [1; 2; 3; 0; 0]) = None.
Proof.
  vm_compute. repeat split; try reflexivity.
  all: repeat constructor.
Qed.

(** The three "fact needed" theorems are not vacuous either: the toy instance
    of the three mutated wrappers (the mutations registered as
    seeded changes of C17), evaluated.
    - Open's result ignored: a flipped bit, another key and a truncation all
      "decrypt" (to the empty string);
    - passphrase trimmed of trailing LF (10) / lower-cased ('A' = 65 -> 97)
      before the kdf: P ++ "\n" resp. the other case is accepted, and the
      unchanged wrapper rejects both;
    - digest compared on its first 16 bytes: the stored parameters with bit 0
      of digest byte 20 (marshalled byte 52) flipped are accepted with the
      creating passphrase, a flip in byte 3 is still rejected. *)
Definition mut_unchecked : code_facts :=
  {| cf_pw_unchanged := true; cf_digest_cmp := None; cf_open_checked := false |}.
Definition mut_pre : code_facts :=
  {| cf_pw_unchanged := false; cf_digest_cmp := None; cf_open_checked := true |}.
Definition mut_prefix16 : code_facts :=
  {| cf_pw_unchanged := true; cf_digest_cmp := Some 16%nat; cf_open_checked := true |}.
Fixpoint trim_lf (pw : bytes) : bytes :=
  match pw with
  | [] => []
  | b :: r => match trim_lf r with [] => if b =? 10 then [] else [b] | r' => b :: r' end
  end.
Definition lower (pw : bytes) : bytes :=
  map (fun b => if (65 <=? b) && (b <=? 90) then b + 32 else b) pw.
Example C17_mutants_refute :
  let key := map N.of_nat (seq 1 32) in
  let key' := map N.of_nat (seq 2 32) in
  let nonce := map N.of_nat (seq 101 24) in
  let s := map N.of_nat (seq 201 32) in
  let c := t_encrypt_with key nonce [7; 8; 9] in
  let new cf pre pw := new_secret_key_c cf pre (toy_kdf toy_hash) toy_hash pw (Some s) 2 1 1 in
  let derive cf pre sk pw := snd (derive_key_c cf pre (toy_kdf toy_hash) toy_hash sk pw) in
  decrypt_c mut_unchecked toy_open key (flip_bit c 30 0) = Ok [] /\
  decrypt_c mut_unchecked toy_open key' c = Ok [] /\
  decrypt_c mut_unchecked toy_open key (firstn 30 c) = Ok [] /\
  decrypt_c facts_ideal toy_open key (flip_bit c 30 0) = Err ErrDecryptFailed /\
  match new mut_pre trim_lf [80], new mut_pre lower [80; 97], new facts_ideal trim_lf [80] with
  | Ok sk1, Ok sk2, Ok sk3 =>
    derive mut_pre trim_lf (sk_zero sk1) [80; 10] = None /\
    derive mut_pre trim_lf (sk_zero sk1) [80; 32] = Some ErrInvalidPassword /\
    derive mut_pre lower (sk_zero sk2) [112; 65] = None /\
    derive facts_ideal trim_lf (sk_zero sk3) [80; 10] = Some ErrInvalidPassword
  | _, _, _ => False
  end /\
  match new mut_prefix16 trim_lf [] with
  | Ok sk =>
    match unmarshal fresh_sk (flip_bit (marshal sk) 52 0), unmarshal fresh_sk (flip_bit (marshal sk) 35 0) with
    | Ok sk1, Ok sk2 =>
      derive mut_prefix16 trim_lf sk1 [] = None /\
      derive mut_prefix16 trim_lf sk2 [] = Some ErrInvalidPassword /\
      derive facts_ideal trim_lf sk1 [] = Some ErrInvalidPassword
    | _, _ => False
    end
  | Err _ => False
  end.
Proof. vm_compute. repeat split; reflexivity. Qed.
