(** C17 - Stored ciphertexts are authenticated and bound to the right
    passphrase.  Property theorems only; proofs are in Crypto/SnaclProofs.v.

    The primitives (secretbox Seal/Open, scrypt, sha256) are universally
    quantified; the ideal laws a theorem relies on are its explicit premises
    ([law_...], defined in Crypto/Snacl.v).  Their cryptographic strength is
    NOT proved here: the theorems are about the wrapper logic of snacl.go,
    for every primitive satisfying the named laws (the toy instance at the
    end satisfies all of them, so no theorem is vacuous). *)
From Verif Require Import Base.Prelude Crypto.Snacl Crypto.SnaclProofs.
Local Open Scope N_scope.

(** Decrypting what was encrypted under the same key returns the original
    bytes (every key, every 24-byte nonce the random source delivers, every
    plaintext including the empty one). *)
Theorem C17_roundtrip : forall seal open, law_open_seal seal open ->
  forall k n m c, length n = NonceSize ->
    encrypt seal k (Some n) m = Ok c -> decrypt open k c = Ok m.
Proof.
  intros seal open L k n m c Hn H. injection H as <-.
  exact (decrypt_encrypt seal open L k n m Hn).
Qed.
Print Assumptions C17_roundtrip.

Theorem C17_roundtrip_empty : forall seal open, law_open_seal seal open ->
  forall k n, length n = NonceSize -> decrypt open k (encrypt_with seal k n []) = Ok [].
Proof. intros seal open L k n Hn. exact (decrypt_encrypt seal open L k n [] Hn). Qed.
Print Assumptions C17_roundtrip_empty.

(** Decryption under any other key fails with an error. *)
Theorem C17_wrong_key : forall seal open,
  law_open_only_sealed seal open -> law_seal_binds seal ->
  forall k k' n m, length n = NonceSize -> k' <> k ->
    decrypt open k' (encrypt_with seal k n m) = Err ErrDecryptFailed.
Proof. exact decrypt_wrong_key. Qed.
Print Assumptions C17_wrong_key.

(** Every single-bit flip of every byte of nonce ‖ box fails with an error
    (more generally: every modification of one byte). *)
Theorem C17_bit_flip : forall seal open,
  law_open_only_sealed seal open -> law_seal_binds seal -> law_seal_no_near seal ->
  forall k n m i j, length n = NonceSize -> (i < length (encrypt_with seal k n m))%nat ->
    decrypt open k (flip_bit (encrypt_with seal k n m) i j) = Err ErrDecryptFailed.
Proof. exact decrypt_bit_flipped. Qed.
Print Assumptions C17_bit_flip.

Theorem C17_byte_modified : forall seal open,
  law_open_only_sealed seal open -> law_seal_binds seal -> law_seal_no_near seal ->
  forall k n m i mask, length n = NonceSize -> (i < length (encrypt_with seal k n m))%nat ->
    mask <> 0 ->
    decrypt open k (xor_at (encrypt_with seal k n m) i mask) = Err ErrDecryptFailed.
Proof. exact decrypt_one_byte_modified. Qed.
Print Assumptions C17_byte_modified.

(** Every strict truncation fails with an error: ErrMalformed below the
    nonce size, ErrDecryptFailed from there on. *)
Theorem C17_truncation : forall seal open,
  law_open_only_sealed seal open -> law_seal_no_prefix seal ->
  forall k n m t, length n = NonceSize -> (t < length (encrypt_with seal k n m))%nat ->
    decrypt open k (firstn t (encrypt_with seal k n m))
    = Err (if (t <? NonceSize)%nat then ErrMalformed else ErrDecryptFailed).
Proof. exact decrypt_truncated. Qed.
Print Assumptions C17_truncation.

(** Error instead of data, for arbitrary input: Decrypt returns either data
    or one of its two errors, and data only for an input that is exactly the
    honest ciphertext of that data under this key and the carried nonce. *)
Theorem C17_only_honest_ciphertexts_decrypt : forall seal open,
  law_open_only_sealed seal open ->
  forall k c,
    ((exists m, decrypt open k c = Ok m) \/ decrypt open k c = Err ErrMalformed
     \/ decrypt open k c = Err ErrDecryptFailed) /\
    forall m, decrypt open k c = Ok m ->
      c = encrypt_with seal k (firstn NonceSize c) m /\ length (firstn NonceSize c) = NonceSize.
Proof.
  intros seal open L k c. split.
  - exact (decrypt_outcomes open k c).
  - intros m. exact (decrypt_only_honest seal open L k c m).
Qed.
Print Assumptions C17_only_honest_ciphertexts_decrypt.

(** Two encryptions never yield equal ciphertexts provided the random source
    never repeats a nonce (that is the random source's obligation, stated as
    the hypothesis [n <> n']); no cryptographic premise. *)
Theorem C17_distinct_nonces_distinct_ciphertexts : forall seal k k' n n' m m',
  length n = NonceSize -> length n' = NonceSize -> n <> n' ->
  encrypt_with seal k n m <> encrypt_with seal k' n' m'.
Proof. exact encrypt_distinct_nonces. Qed.
Print Assumptions C17_distinct_nonces_distinct_ciphertexts.

(** A passphrase-derived key and the passphrases it accepts.  The code hands
    the passphrase to scrypt = PBKDF2-HMAC-SHA256, where it only acts through
    its 64-byte HMAC key block ([hmac_key_block]: zero padded, or SHA-256 of a
    longer passphrase).  So, on any SecretKey value with the same parameters
    (after Zero, after Unmarshal): the creating passphrase re-derives the same
    key; a passphrase is accepted IF AND ONLY IF it has the creating
    passphrase's key block; every other one gets ErrInvalidPassword. *)
Theorem C17_passphrase_exact : forall kdf hash,
  law_kdf_inj kdf hash -> law_kdf_hmac kdf hash -> law_kdf_domain kdf -> law_hash_inj hash ->
  forall pw s n r p sk sk', new_secret_key kdf hash pw (Some s) n r p = Ok sk ->
    sk_params sk' = sk_params sk ->
    derive_key kdf hash sk' pw = (sk, None) /\
    forall pw',
      (hmac_key_block hash pw' <> hmac_key_block hash pw ->
       snd (derive_key kdf hash sk' pw') = Some ErrInvalidPassword) /\
      (snd (derive_key kdf hash sk' pw') = None <->
       hmac_key_block hash pw' = hmac_key_block hash pw).
Proof.
  intros kdf hash L1 L2 L3 L4 pw s n r p sk sk' H HP. split.
  - exact (derive_key_accepts_creator kdf hash pw s n r p sk sk' H HP).
  - intros pw'. split.
    + exact (derive_key_rejects_other kdf hash L1 L3 L4 pw s n r p sk sk' pw' H HP).
    + exact (derive_key_exact kdf hash L1 L2 L3 L4 pw s n r p sk sk' pw' H HP).
Qed.
Print Assumptions C17_passphrase_exact.

(** The property's clause "accepts only the exact passphrase", outside the
    recorded finding K = "same HMAC key block": among passphrases of at most
    64 bytes that do not end in a NUL byte, exactly the creating passphrase is
    accepted (every bit flip, case change, dropped, added or swapped non-NUL
    byte of such a passphrase is rejected). *)
Theorem C17_passphrase_exact_outside_K : forall kdf hash,
  law_kdf_inj kdf hash -> law_kdf_domain kdf -> law_hash_inj hash ->
  forall pw s n r p sk sk' pw', new_secret_key kdf hash pw (Some s) n r p = Ok sk ->
    sk_params sk' = sk_params sk ->
    (length pw <= 64)%nat -> (length pw' <= 64)%nat -> last pw 1 <> 0 -> last pw' 1 <> 0 ->
    pw' <> pw -> snd (derive_key kdf hash sk' pw') = Some ErrInvalidPassword.
Proof.
  intros kdf hash L1 L3 L4 pw s n r p sk sk' pw' H HP B B' Z Z' Hne.
  apply (derive_key_rejects_other kdf hash L1 L3 L4 pw s n r p sk sk' pw' H HP).
  intros E. apply Hne. exact (hmac_key_block_plain hash pw' pw B' B Z' Z E).
Qed.
Print Assumptions C17_passphrase_exact_outside_K.

(** ... and refuted inside K, for every kdf into which the passphrase enters
    through its HMAC key block only (exact for scrypt): a passphrase shorter
    than 64 bytes followed by a NUL byte is accepted and yields the same key.
    (Real snacl: NewSecretKey("password") accepts DeriveKey("password\000").) *)
Theorem C17_refuted_trailing_nul : forall kdf hash, law_kdf_hmac kdf hash ->
  forall pw s n r p sk sk', new_secret_key kdf hash pw (Some s) n r p = Ok sk ->
    sk_params sk' = sk_params sk -> (length pw < 64)%nat ->
    pw ++ [0] <> pw /\ derive_key kdf hash sk' (pw ++ [0]) = (sk, None).
Proof.
  intros kdf hash L2 pw s n r p sk sk' H HP B. split.
  - intros E. apply (f_equal (@length N)) in E. rewrite app_length in E. simpl in E. lia.
  - apply (derive_key_accepts_equivalent kdf hash L2 pw s n r p sk sk' (pw ++ [0]) H HP).
    exact (hmac_key_block_trailing_nul hash pw B).
Qed.
Print Assumptions C17_refuted_trailing_nul.

Theorem C17_zero_then_rederive : forall kdf hash pw s n r p sk,
  new_secret_key kdf hash pw (Some s) n r p = Ok sk ->
  Forall (fun b => b = 0) (sk_key (sk_zero sk)) /\
  derive_key kdf hash (sk_zero sk) pw = (sk, None).
Proof.
  intros kdf hash pw s n r p sk H. split.
  - exact (proj1 (sk_zero_key sk)).
  - exact (derive_key_accepts_creator kdf hash pw s n r p sk (sk_zero sk) H (sk_zero_params sk)).
Qed.
Print Assumptions C17_zero_then_rederive.

(** The parameter codec (no cryptographic premise): 88 bytes exactly; every
    in-range parameter set round-trips; every input of another length is
    rejected, every 88-byte input accepted; the encoding is canonical
    (Marshal inverts Unmarshal on byte strings). *)
Theorem C17_params_codec :
  (forall p, length (marshal_params p) = 88%nat) /\
  (forall p, params_in_range p -> unmarshal_params (marshal_params p) = Ok p) /\
  (forall d, length d <> 88%nat -> unmarshal_params d = Err ErrMalformed) /\
  (forall d, length d = 88%nat -> exists p, unmarshal_params d = Ok p) /\
  (forall d p, wf_bytes d -> unmarshal_params d = Ok p ->
     marshal_params p = d /\ params_in_range p).
Proof.
  split; [exact marshal_params_length|].
  split; [exact unmarshal_marshal_params|].
  split; [exact unmarshal_params_wrong_length|].
  split; [exact unmarshal_params_right_length|].
  exact marshal_unmarshal_params.
Qed.
Print Assumptions C17_params_codec.

(** The 64-bit little-endian field codec, for every value (no bound):
    decoding n encoded bytes gives the value modulo 256^n; encoding what was
    decoded from bytes gives the bytes; Go's int <-> uint64 conversions
    round-trip on the int range. *)
Theorem C17_le_codec :
  (forall n v, le_value (le_bytes n v) = v mod 256 ^ N.of_nat n) /\
  (forall l, wf_bytes l -> le_bytes (length l) (le_value l) = l) /\
  (forall z, int_range z -> get_u64 (put_u64 z) = z) /\
  (forall l, wf_bytes l -> length l = 8%nat -> put_u64 (get_u64 l) = l).
Proof.
  split; [exact le_value_le_bytes|].
  split; [exact le_bytes_le_value|].
  split; [exact get_put_u64|].
  exact put_get_u64.
Qed.
Print Assumptions C17_le_codec.

(** After a restart: the stored parameters decode to the same parameters,
    the same passphrase re-derives the same key and is accepted, a different
    one (different HMAC key block, see above) is rejected. *)
Theorem C17_restart : forall kdf hash,
  law_kdf_inj kdf hash -> law_kdf_domain kdf -> law_hash_inj hash ->
  forall pw s n r p sk, new_secret_key kdf hash pw (Some s) n r p = Ok sk ->
    params_in_range (sk_params sk) ->
    exists sk0, unmarshal fresh_sk (marshal sk) = Ok sk0 /\ sk_params sk0 = sk_params sk /\
      derive_key kdf hash sk0 pw = (sk, None) /\
      forall pw', hmac_key_block hash pw' <> hmac_key_block hash pw ->
                  snd (derive_key kdf hash sk0 pw') = Some ErrInvalidPassword.
Proof. exact restart_rederives. Qed.
Print Assumptions C17_restart.

(** Any modification of a single byte of the stored parameters (salt,
    digest, N, R or P; in particular every single-bit flip) makes DeriveKey
    reject even the correct passphrase. *)
Theorem C17_params_tamper : forall kdf hash,
  law_kdf_inj kdf hash -> law_hash_inj hash ->
  forall pw s n r p sk i mask sk', new_secret_key kdf hash pw (Some s) n r p = Ok sk ->
    params_in_range (sk_params sk) -> (i < 88)%nat -> mask <> 0 ->
    wf_bytes (xor_at (marshal sk) i mask) ->
    unmarshal fresh_sk (xor_at (marshal sk) i mask) = Ok sk' ->
    snd (derive_key kdf hash sk' pw) = Some ErrInvalidPassword \/
    snd (derive_key kdf hash sk' pw) = Some ErrKdf.
Proof. exact tampered_params_rejected. Qed.
Print Assumptions C17_params_tamper.

(** waddrmgr.Manager.Decrypt adds nothing but key selection and error
    wrapping: for the three key types it is Decrypt under the selected key
    (so every theorem above transfers, with ErrCrypto around the error), and
    a locked manager refuses the private and script keys without data. *)
Theorem C17_manager_wrapper : forall open locked kt ks c,
  (kt = 0 \/ kt = 1 \/ kt = 2 ->
   mgr_decrypt open locked kt ks c =
   if locked && negb (kt =? 2) then MErr MErrLocked
   else match decrypt open (mgr_key_of kt ks) c with
        | Ok m => MOk m
        | Err e => MErr (MErrCrypto e)
        end) /\
  (2 < kt -> mgr_decrypt open locked kt ks c = MErr MErrInvalidKeyType).
Proof.
  intros open locked kt ks c. split.
  - exact (mgr_decrypt_spec open locked kt ks c).
  - exact (mgr_decrypt_invalid_type open locked kt ks c).
Qed.
Print Assumptions C17_manager_wrapper.

(** Non-vacuity: the toy primitives satisfy every law used above. *)
Theorem C17_laws_satisfiable :
  law_open_seal toy_seal toy_open /\ law_open_only_sealed toy_seal toy_open /\
  law_seal_binds toy_seal /\ law_seal_no_near toy_seal /\ law_seal_no_prefix toy_seal /\
  law_kdf_inj (toy_kdf toy_hash) toy_hash /\ law_kdf_hmac (toy_kdf toy_hash) toy_hash /\
  law_kdf_domain (toy_kdf toy_hash) /\ law_hash_inj toy_hash.
Proof.
  split; [exact toy_open_seal|].
  split; [exact toy_open_only_sealed|].
  split; [exact toy_seal_binds|].
  split; [exact toy_seal_no_near|].
  split; [exact toy_seal_no_prefix|].
  split; [exact (toy_kdf_inj toy_hash)|].
  split; [exact (toy_kdf_hmac toy_hash)|].
  split; [exact (toy_kdf_domain toy_hash)|].
  exact toy_hash_inj.
Qed.
Print Assumptions C17_laws_satisfiable.

(** ... and the premises on the data are satisfiable together with them: a
    toy key created from the empty passphrase has in-range parameters (32-byte
    salt and digest), survives Marshal/Unmarshal, accepts its passphrase,
    rejects a near miss (accepts the NUL-padded one), rejects a flipped parameter byte; ciphertexts
    round-trip (empty plaintext too) and every kind of tampering is refused. *)
Example C17_nonvacuous :
  let key := map N.of_nat (seq 1 32) in
  let key' := map N.of_nat (seq 2 32) in
  let nonce := map N.of_nat (seq 101 24) in
  let s := map N.of_nat (seq 201 32) in
  let c := t_encrypt_with key nonce [7; 8; 9] in
  t_decrypt key c = Ok [7; 8; 9] /\
  t_decrypt key (t_encrypt_with key nonce []) = Ok [] /\
  t_decrypt key' c = Err ErrDecryptFailed /\
  t_decrypt key (flip_bit c 3 0) = Err ErrDecryptFailed /\
  t_decrypt key (flip_bit c (length c - 1) 7) = Err ErrDecryptFailed /\
  t_decrypt key (firstn 23 c) = Err ErrMalformed /\
  t_decrypt key (firstn (length c - 1) c) = Err ErrDecryptFailed /\
  match t_new_secret_key [] (Some s) 2 1 1 with
  | Err _ => False
  | Ok sk =>
    length (salt (sk_params sk)) = 32%nat /\ length (digest (sk_params sk)) = 32%nat /\
    wf_bytes (marshal sk) /\
    match unmarshal fresh_sk (marshal sk) with
    | Err _ => False
    | Ok sk0 =>
      sk_params sk0 = sk_params sk /\
      t_derive_key sk0 [] = (sk, None) /\
      snd (t_derive_key sk0 [1]) = Some ErrInvalidPassword /\
      t_derive_key sk0 [0] = (sk, None)            (* the finding, in the toy too *)
    end /\
    match unmarshal fresh_sk (flip_bit (marshal sk) 40 5) with
    | Err _ => False
    | Ok sk1 => snd (t_derive_key sk1 []) = Some ErrInvalidPassword
    end /\
    match unmarshal fresh_sk (flip_bit (marshal sk) 72 0) with
    | Err _ => False
    | Ok sk1 => snd (t_derive_key sk1 []) = Some ErrKdf
    end /\
    unmarshal fresh_sk (firstn 87 (marshal sk)) = Err ErrMalformed
  end /\
  snd (t_derive_key
         match t_new_secret_key [1; 2; 3] (Some s) 16 8 1 with Ok sk => sk_zero sk | Err _ => fresh_sk end
         [1; 2; 3]) = None /\
  snd (t_derive_key
         match t_new_secret_key [1; 2; 3] (Some s) 16 8 1 with Ok sk => sk_zero sk | Err _ => fresh_sk end
         [1; 2; 2]) = Some ErrInvalidPassword /\
  snd (t_derive_key
         match t_new_secret_key [1; 2; 3] (Some s) 16 8 1 with Ok sk => sk_zero sk | Err _ => fresh_sk end
         [1; 2; 3; 0; 0]) = None.
Proof.
  vm_compute. repeat split; try reflexivity.
  all: repeat constructor.
Qed.
