(** C08 - What the wallet says in memory is what a restart would say.
    Property theorems only; the model is Addr/MemDisk.v, the proofs are in
    Addr/MemDiskProofs.v.

    Reading guide.  [final h (opened d0)] is the running manager (memory and
    database) after the history [h] of database transactions, started by
    opening the well-formed database [d0]; every transaction is committed,
    aborted by its caller, aborted as a dry run, or has its commit failed, and
    is followed by boundary queries (which may fill the caches).
    [observe m d q] is the answer to query [q] of a manager with memory [m] on
    database [d]; [reopen d] is the memory of a manager freshly opened on [d].
    Accounts are default (seed-derived) or watch-only (imported xpub with a
    fingerprint and an optional address-schema override).
    The queries are: address lookup with account / internal / imported / used /
    address type / master-key fingerprint, last external / internal address,
    account properties (name, next external and internal index, imported key
    count, watch-only kind: key, fingerprint, schema), lookup by name, name by number,
    last account, synced-to, block hash by height, birthday, birthday block.

    The pinned code updates memory before commit in several operations, so the
    statement cannot hold for all histories (see [C08_refuted_at_K]); it is
    proved for all histories outside the decidable trigger pattern [in_K rb]:
    an aborted transaction holding rename / set-synced-to / set-birthday /
    extend / import, or new-account followed by an address, last-address or
    properties read, or next-addresses (when [rb]: always; otherwise only if
    followed by an address lookup); a committed transaction holding extend
    after next-addresses on the same account and branch, or SetSyncedTo(nil).

    [rb] is the model's one source-dependent parameter: does nextAddresses put
    the address it reads back into the cache before commit (pinned: yes,
    finding S4)?  Every theorem is proved for both values; the value of the
    current source is Generated.AddrCache.next_caches_read_back. *)
From stdpp Require Import gmap list numbers.
From Coq Require Import ZArith NArith.
From Verif Require Import Addr.MemDisk Addr.MemDiskProofs Generated.AddrCache.

(** After every transaction boundary of every history outside K, whatever mix
    of committed and rolled-back transactions came before, the running manager
    answers every query exactly as a freshly opened manager does. *)
Theorem C08_outside_K : forall rb d0 h1 h2,
  wf_disk d0 -> times_ok (h1 ++ h2) = true -> in_K rb (h1 ++ h2) = false ->
  let s := final rb h1 (opened d0) in
  forall q, observe (mem_of s) (disk_of s) q = observe (reopen (disk_of s)) (disk_of s) q.
Proof. exact memory_equals_restart_everywhere. Qed.
Print Assumptions C08_outside_K.

(** A rolled-back transaction - caller abort, dry run, failed commit - made of
    address issuance and reads leaves the database as it was and every account
    entry in memory either untouched or freshly loaded from the committed row:
    no next index is advanced.  No hypothesis on the state: this holds after
    ANY history. *)
Theorem C08_rollback_does_not_advance_indices : forall rb s ops f qs,
  f <> Commit -> forallb issue_or_read ops = true ->
  let s' := (run_tx rb {| tx_ops := ops; tx_fate := f; tx_queries := qs |} s).1 in
  disk_of s' = disk_of s /\
  forall a ai, m_accts (mem_of s') !! a = Some ai ->
    m_accts (mem_of s) !! a = Some ai \/
    (m_accts (mem_of s) !! a = None /\
     exists r, d_accts (disk_of s) !! a = Some r /\ ai = info_of_row r).
Proof. exact rolled_back_issuance_keeps_indices. Qed.
Print Assumptions C08_rollback_does_not_advance_indices.

(** The next committed request issues the very addresses a restarted wallet
    would issue, and leaves the same database - for every history outside
    [in_K_idx], the part of K that can disturb an index (an aborted extend, an
    aborted new-account that is read back, extend after next-addresses in one
    committed transaction).  In particular after any mix of rolled-back
    issuance (dry runs), renames, sync updates and imports. *)
Theorem C08_next_issue_equals_restart : forall rb d0 h a b n,
  wfL d0 -> in_K_idx h = false ->
  let s := final rb h (opened d0) in
  (run_tx rb (issue_tx a b n) s).2.1 = (run_tx rb (issue_tx a b n) (opened (disk_of s))).2.1 /\
  disk_of (run_tx rb (issue_tx a b n) s).1 = disk_of (run_tx rb (issue_tx a b n) (opened (disk_of s))).1.
Proof. exact next_issue_equals_restart. Qed.
Print Assumptions C08_next_issue_equals_restart.

(** ... and the index-related answers (last addresses, key counts) agree with
    the restarted manager outside [in_K_idx], whatever else diverged. *)
Theorem C08_index_queries_outside_K_idx : forall rb d0 h a,
  wfL d0 -> in_K_idx h = false ->
  let s := final rb h (opened d0) in
  (forall b, observe (mem_of s) (disk_of s) (QLast a b)
             = observe (reopen (disk_of s)) (disk_of s) (QLast a b)) /\
  match observe (mem_of s) (disk_of s) (QProps a),
        observe (reopen (disk_of s)) (disk_of s) (QProps a) with
  | AProps _ e i _ _, AProps _ e' i' _ _ => e = e' /\ i = i'
  | AErr e, AErr e' => e = e'
  | _, _ => False
  end.
Proof. exact index_queries_equal_restart. Qed.
Print Assumptions C08_index_queries_outside_K_idx.

(** K_idx is a part of K. *)
Theorem C08_K_idx_within_K : forall rb h, in_K_idx h = true -> in_K rb h = true.
Proof. exact in_K_idx_sub. Qed.
Print Assumptions C08_K_idx_within_K.

(** Inside K the statement is false: one witness per trigger, each a history in
    K starting from the database [waddrmgr.Create] leaves, with a query the
    running manager answers differently from a freshly opened one; for the two
    index triggers also the next committed issuance differs from the restarted
    wallet's.  (Both values of [rb].) *)
Theorem C08_refuted_at_K : forall rb,
  let differs h q :=
    in_K rb h = true /\
    let s := final rb h (opened d_wit) in
    observe (mem_of s) (disk_of s) q <> observe (reopen (disk_of s)) (disk_of s) q in
  wf_disk d_wit /\
  differs w_rename (QProps 0) /\               (* account name *)
  differs w_synced QSynced /\                  (* synced-to *)
  differs w_extend (QProps 0) /\               (* next index after extend *)
  differs w_extend (QLast 0 false) /\          (* last address after extend *)
  differs w_issue_lookup (QLookup (Chain 0 true 0)) /\   (* phantom address: issued, looked up, rolled back *)
  differs w_birthday QBirthday /\
  differs w_import (QLookup (ImpKey 0)) /\     (* phantom imported address *)
  differs w_newacct_read (QProps 1) /\         (* phantom account *)
  differs w_stale_callback (QProps 0) /\       (* committed: stale OnCommit after extend *)
  differs w_synced_nil QSynced /\              (* committed: SetSyncedTo(nil) time stamp *)
  (let s := final rb w_extend (opened d_wit) in
   (run_tx rb (issue_tx 0 false 1) s).2.1 <> (run_tx rb (issue_tx 0 false 1) (opened (disk_of s))).2.1) /\
  (let s := final rb w_stale_callback (opened d_wit) in
   (run_tx rb (issue_tx 0 false 1) s).2.1 <> (run_tx rb (issue_tx 0 false 1) (opened (disk_of s))).2.1).
Proof.
  intros rb. cbv zeta.
  pose proof (witnesses_in_K rb) as HK. simpl in HK.
  repeat (apply andb_true_iff in HK as [?HK0 HK]).
  repeat match goal with H : _ && _ = true |- _ => apply andb_true_iff in H as [? ?] end.
  destruct (witnesses_diverge rb) as (D1 & D2 & D3 & D4 & D5 & D6 & D7 & D8 & D9 & D10).
  destruct (witnesses_issue_differs rb) as (_ & I1 & _ & I2).
  split; [apply wf_created|].
  repeat split; try assumption;
    first [ apply diverges_spec; assumption | apply issue_differs_spec; assumption ].
Qed.
Print Assumptions C08_refuted_at_K.

(** Finding S4 exactly: the plain dry-run issuance (one NextInternalAddresses in
    a transaction that returns ErrDryRunRollBack) leaves a phantom address - it
    is inside K and diverges - if and only if the read-back is cached before
    commit; it never touches an index. *)
Theorem C08_dry_run_issuance : forall rb,
  in_K rb w_phantom = rb /\ times_ok w_phantom = true /\ in_K_idx w_phantom = false /\
  diverges rb w_phantom (QLookup (Chain 0 true 0)) = rb.
Proof. exact dry_run_issuance_phantom. Qed.
Print Assumptions C08_dry_run_issuance.

(** The assumptions the model transcribes hold in the source as it is now
    (regenerated by lib/extract_c08.py - from the shape of the source, or, when
    the shape is not recognised, from the behaviour of the built code on the
    witness scenarios): nextAddresses touches indices / last addresses / cache
    only in its registered OnCommit closure; extendAddresses and RenameAccount
    (both account-row kinds) update memory before commit. *)
Theorem C08_model_assumptions_hold_in_source :
  next_commits_memory_in_closure = true /\
  extend_updates_memory_eagerly = true /\
  rename_updates_cached_name = true.
Proof. repeat split; reflexivity. Qed.
Print Assumptions C08_model_assumptions_hold_in_source.

(** Non-vacuity. *)

(** A history OUTSIDE K that mixes committed and rolled-back transactions
    (issuance, rename, new account, mark-used, sync; aborted: new account,
    mark-used, birthday block, reads): the hypotheses of [C08_outside_K] hold. *)
Example C08_nonvacuous_outside_K : forall rb,
  let hw := {| w_key := 3; w_fp := 287454020; w_schema := Some (3%N, 4%N) |} in
  let h := [ {| tx_ops := [ONext 0 false 2; ORename 0 7; ONewAccount 8; ONewAccountWO 10 hw];
                tx_fate := Commit; tx_queries := [QProps 0; QProps 2; QLookup (Chain 0 false 1)] |};
             {| tx_ops := [ONewAccount 9; OMarkUsed (Chain 0 false 0); OSetBdayBlock stamp1 true];
                tx_fate := AbortCaller; tx_queries := [QProps 1; QLast 0 false] |};
             {| tx_ops := [ORead (QLookup (Chain 0 false 0)); ORead (QProps 1)]; tx_fate := AbortDryRun;
                tx_queries := [] |};
             {| tx_ops := [OExtend 1 true 3; ONext 1 true 1; OSetSynced stamp1; OImport (ImpScript 0) (Some stamp1);
                           ONext 2 false 2; ORename 2 11; OExtend 2 true 9];
                tx_fate := Commit; tx_queries := [QLookup (ImpScript 0); QLookup (Chain 2 false 1)] |};
             {| tx_ops := [OMarkUsed (Chain 1 true 4)]; tx_fate := CommitFails; tx_queries := [QSynced] |} ] in
  in_K rb h = false /\ times_ok h = true /\
  let s := final rb h (opened d_wit) in
  observe (mem_of s) (disk_of s) (QProps 1) = AProps 8 0 5 0 None /\
  observe (mem_of s) (disk_of s) (QProps 0) = AProps 7 2 0 0 None /\
  (* the imported account: renamed while cached, in a committed transaction *)
  observe (mem_of s) (disk_of s) (QProps 2) = AProps 11 2 0 0 (Some hw) /\
  observe (mem_of s) (disk_of s) (QLookup (Chain 2 false 1))
    = AAddr (Chain 2 false 1) 2 false false false 3 287454020 /\
  observe (mem_of s) (disk_of s) (QLookup (Chain 1 true 4)) = AAddr (Chain 1 true 4) 1 true false false 4 0.
Proof. intros []; vm_compute; repeat split. Qed.

(** The scenario the property names, on the source as it is now: dry-run
    issuance mixed with other rolled-back updates is outside K_idx; the next
    committed request issues index 1, exactly what the restarted manager
    issues. *)
Example C08_nonvacuous_dry_run :
  let rb := next_caches_read_back in
  let h := [ {| tx_ops := [ONext 0 true 1]; tx_fate := Commit; tx_queries := [QProps 0] |};
             {| tx_ops := [ONext 0 true 2; ORename 0 7; OSetSynced stamp1]; tx_fate := AbortDryRun; tx_queries := [QProps 0] |};
             {| tx_ops := [ONext 0 true 1]; tx_fate := CommitFails; tx_queries := [] |} ] in
  in_K rb h = true /\ in_K_idx h = false /\
  let s := final rb h (opened d_wit) in
  (run_tx rb (issue_tx 0 true 1) s).2.1 = [AAddrs [Chain 0 true 1]] /\
  (run_tx rb (issue_tx 0 true 1) (opened (disk_of s))).2.1 = [AAddrs [Chain 0 true 1]].
Proof. vm_compute. repeat split. Qed.
