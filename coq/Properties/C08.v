(** C08 - What the wallet says in memory is what a restart would say.
    Property theorems only; the model is Addr/MemDisk.v, the proofs are in
    Addr/MemDiskProofs.v.

    Reading guide.  [final P h (opened d0)] is the running manager (memory and
    database) after the history [h] of database transactions, started by
    opening (and unlocking) the well-formed database [d0]; every transaction is
    committed, aborted by its caller, aborted as a dry run, or has its commit
    failed, and is followed by boundary queries (which may fill the caches).
    The operations are those of the address manager: new account, imported
    (watch-only) account, rename, next / extend addresses, mark used, set
    synced-to, set birthday (block), import key / script, convert to
    watching-only, reads, and - not database operations, their effect on memory
    is immediate whatever becomes of the transaction - Lock, Unlock,
    InvalidateAccountCache.
    [observe m d q] is the answer to query [q] of a manager with memory [m] on
    database [d]; [restart m d] is the memory of a manager freshly opened on [d]
    and brought to the lock state of [m] (what a locked manager can say is
    compared with what a locked restart says).
    Accounts are default (seed-derived) or watch-only (imported xpub with a
    fingerprint and an optional address-schema override).
    The queries are: address lookup with account / internal / imported / used /
    address type / master-key fingerprint of the derivation path, last external
    / internal address (with type and fingerprint), account properties (name,
    next external and internal index, imported key count, kind: key,
    fingerprint, schema; IsWatchOnly), lookup by name, name by number, last
    account, synced-to, block hash by height, birthday, birthday block.

    The code updates memory before commit in several operations, so the
    statement cannot hold for all histories (see [C08_refuted_at_K]); it is
    proved for all histories outside the decidable trigger pattern [in_K P]
    (MemDisk.v, "The trigger patterns K").

    [P : params] are the model's three source-dependent parameters - does
    nextAddresses cache its read-back before commit ([p_rb], finding S4,
    repaired), does extendAddresses update memory before commit ([p_ee],
    finding S10), does RenameAccount ([p_re], finding S11)?  Every theorem is
    proved for all eight values: for the code as it is AND for the code with
    any of these findings repaired (memory updated in an OnCommit closure), in
    which case the corresponding trigger leaves K.  The values of the current
    source are regenerated into Generated.AddrCache. *)
From stdpp Require Import gmap list numbers.
From Coq Require Import ZArith NArith.
From Verif Require Import Addr.MemDisk Addr.MemDiskProofs Generated.AddrCache.

(** After every transaction boundary of every history outside K, whatever mix
    of committed and rolled-back transactions came before, the running manager
    answers every query exactly as a freshly opened manager (in the same lock
    state) does. *)
Theorem C08_outside_K : forall P d0 h1 h2,
  wf_disk d0 -> times_ok (h1 ++ h2) = true -> in_K P (h1 ++ h2) = false ->
  let s := final P h1 (opened d0) in
  forall q, observe (mem_of s) (disk_of s) q = observe (restart (mem_of s) (disk_of s)) (disk_of s) q.
Proof. exact memory_equals_restart_everywhere. Qed.
Print Assumptions C08_outside_K.

(** ... and what it reports as derivation information of an address it knows -
    issued, extended ahead of use, or loaded from the database - is what
    follows from the account's database row: the address type of the account's
    (or the scope's) schema and the master-key fingerprint of the row. *)
Theorem C08_derivation_info_is_the_rows : forall P d0 h x y a i im u ty fp,
  wf_disk d0 -> times_ok h = true -> in_K P h = false ->
  let s := final P h (opened d0) in
  observe (mem_of s) (disk_of s) (QLookup x) = AAddr y a i im u ty fp ->
  (ty, fp) = meta_of (disk_of s) x.
Proof. exact derivation_info_is_the_rows. Qed.
Print Assumptions C08_derivation_info_is_the_rows.

(** A rolled-back transaction - caller abort, dry run, failed commit - made of
    address issuance and reads leaves the database as it was and every account
    entry in memory either untouched or freshly loaded from the committed row:
    no next index is advanced.  No hypothesis on the state: this holds after
    ANY history. *)
Theorem C08_rollback_does_not_advance_indices : forall P s ops f qs,
  f <> Commit -> forallb issue_or_read ops = true ->
  let s' := (run_tx P {| tx_ops := ops; tx_fate := f; tx_queries := qs |} s).1 in
  disk_of s' = disk_of s /\
  forall a ai, m_accts (mem_of s') !! a = Some ai ->
    m_accts (mem_of s) !! a = Some ai \/
    (m_accts (mem_of s) !! a = None /\
     exists r, d_accts (disk_of s) !! a = Some r /\ ai = info_of_row r).
Proof. exact rolled_back_issuance_keeps_indices. Qed.
Print Assumptions C08_rollback_does_not_advance_indices.

(** The next committed request issues the very addresses a restarted wallet
    would issue, and leaves the same database - for every history outside
    [in_K_idx], the part of K that can disturb an index.  In particular after
    any mix of rolled-back issuance (dry runs), renames, sync updates and
    imports. *)
Theorem C08_next_issue_equals_restart : forall P d0 h a b n,
  wfL d0 -> in_K_idx P h = false ->
  let s := final P h (opened d0) in
  (run_tx P (issue_tx a b n) s).2.1 = (run_tx P (issue_tx a b n) (restarted s)).2.1 /\
  disk_of (run_tx P (issue_tx a b n) s).1 = disk_of (run_tx P (issue_tx a b n) (restarted s)).1.
Proof. exact next_issue_equals_restart. Qed.
Print Assumptions C08_next_issue_equals_restart.

(** ... and the index-related answers (last addresses, key counts) agree with
    the restarted manager outside [in_K_idx], whatever else diverged. *)
Theorem C08_index_queries_outside_K_idx : forall P d0 h a,
  wfL d0 -> in_K_idx P h = false ->
  let s := final P h (opened d0) in
  (forall b, match observe (mem_of s) (disk_of s) (QLast a b),
                   observe (restart (mem_of s) (disk_of s)) (disk_of s) (QLast a b) with
             | ALast x _ _, ALast x' _ _ => x = x'
             | AErr e, AErr e' => e = e'
             | _, _ => False
             end) /\
  match observe (mem_of s) (disk_of s) (QProps a),
        observe (restart (mem_of s) (disk_of s)) (disk_of s) (QProps a) with
  | AProps _ e i _ _ _, AProps _ e' i' _ _ _ => e = e' /\ i = i'
  | AErr e, AErr e' => e = e'
  | _, _ => False
  end.
Proof. exact index_queries_equal_restart. Qed.
Print Assumptions C08_index_queries_outside_K_idx.

(** K_idx is a part of K. *)
Theorem C08_K_idx_within_K : forall P h, in_K_idx P h = true -> in_K P h = true.
Proof. exact in_K_idx_sub. Qed.
Print Assumptions C08_K_idx_within_K.

(** What wallet.ImportAccountDryRun does to the address manager - create an
    imported account, read it, issue [k] external and [k] internal addresses,
    read it again, EVICT it from the account cache, roll back - is outside K
    unless issuance caches its read-back: the wallet's own always-rolled-back
    transaction leaves no trace, by [C08_outside_K]. *)
Theorem C08_import_dry_run_outside_K : forall P n nm w k qs,
  tx_k P {| tx_ops := dry_import_ops n nm w k; tx_fate := AbortDryRun; tx_queries := qs |} = p_rb P.
Proof. exact dry_import_outside_K. Qed.
Print Assumptions C08_import_dry_run_outside_K.

(** Inside K the statement is false: one witness per trigger, each a history
    starting from the database [waddrmgr.Create] leaves, with a query the
    running manager answers differently from a freshly opened one.  A trigger
    that depends on the source is inside K, and diverges, exactly when the
    source has the eager update ([hits (p_re P)], [hits (p_ee P)]); for the
    index triggers also the next committed issuance differs from the restarted
    wallet's. *)
Theorem C08_refuted_at_K : forall P,
  let hits (e : bool) h q :=
    in_K P h = e /\
    (e = true ->
     let s := final P h (opened d_wit) in
     observe (mem_of s) (disk_of s) q <> observe (restart (mem_of s) (disk_of s)) (disk_of s) q) in
  wf_disk d_wit /\
  hits (p_re P) w_rename (QProps 0) /\         (* account name, eager rename rolled back *)
  hits true w_rename_reload (QProps 0) /\      (* account name: renamed row loaded, rolled back *)
  hits true w_synced QSynced /\                (* synced-to *)
  hits (p_ee P) w_extend (QProps 0) /\         (* next index after an eager extend *)
  hits (p_ee P) w_extend (QLast 0 false) /\    (* last address after an eager extend *)
  hits true w_issue_lookup (QLookup (Chain 0 true 0)) /\   (* phantom address: issued, looked up, rolled back *)
  hits true w_birthday QBirthday /\
  hits true w_import (QLookup (ImpKey 0)) /\   (* phantom imported address *)
  hits true w_newacct_read (QProps 1) /\       (* phantom account *)
  hits true w_dry_import_kept (QProps 1) /\    (* the import dry run WITHOUT its eviction: phantom account *)
  hits true w_evict_reload (QProps 0) /\       (* evicted, loaded again from the uncommitted row *)
  hits (p_ee P) w_stale_callback (QProps 0) /\ (* committed: stale OnCommit after an eager extend *)
  hits true w_synced_nil QSynced /\            (* committed: SetSyncedTo(nil) time stamp *)
  hits true w_convert (QProps imported_acct) /\   (* watching-only in memory, conversion rolled back *)
  (p_ee P = true ->
   let s := final P w_extend (opened d_wit) in
   (run_tx P (issue_tx 0 false 1) s).2.1 <> (run_tx P (issue_tx 0 false 1) (restarted s)).2.1) /\
  (p_ee P = true ->
   let s := final P w_stale_callback (opened d_wit) in
   (run_tx P (issue_tx 0 false 1) s).2.1 <> (run_tx P (issue_tx 0 false 1) (restarted s)).2.1).
Proof.
  intros P. cbv zeta.
  destruct (witnesses_in_K P) as (K1 & K2 & K3 & _ & HK & _). simpl in HK.
  repeat (apply andb_true_iff in HK as [?HK0 HK]).
  destruct (witnesses_diverge P) as (D1 & D2 & D3 & D4 & D5 & D6 & D7 & D8 & D9 & D10 & D11 & _ & D13 & D14 & D15).
  destruct (witnesses_issue_differs P) as (_ & I1 & _ & I2 & _).
  split; [apply wf_created|].
  repeat split; try assumption;
    try (intros He; first [ apply diverges_spec | apply issue_differs_spec ]; congruence).
Qed.
Print Assumptions C08_refuted_at_K.

(** Finding S4 exactly: the plain dry-run issuance (one NextInternalAddresses in
    a transaction that returns ErrDryRunRollBack) leaves a phantom address - it
    is inside K and diverges - if and only if the read-back is cached before
    commit; it never touches an index. *)
Theorem C08_dry_run_issuance : forall P,
  in_K P w_phantom = p_rb P /\ times_ok w_phantom = true /\ in_K_idx P w_phantom = false /\
  diverges P w_phantom (QLookup (Chain 0 true 0)) = p_rb P.
Proof. exact dry_run_issuance_phantom. Qed.
Print Assumptions C08_dry_run_issuance.

(** The assumptions the model transcribes without a parameter hold in the
    source as it is now (regenerated by lib/extract_c08.py - from the shape of
    the source, or, when the shape is not recognised, from the behaviour of the
    built code on the witness scenarios): nextAddresses touches indices / last
    addresses / cache only in its registered OnCommit closure; RenameAccount
    treats default and watch-only account rows alike; extendAddresses records
    the account's master-key fingerprint in the derivation path of the
    addresses it builds (finding S14, repaired).  WHEN extendAddresses and
    RenameAccount update memory is not obliged either way: both shapes are
    covered by the theorems above. *)
Theorem C08_model_assumptions_hold_in_source :
  next_commits_memory_in_closure = true /\
  rename_covers_both_row_kinds = true /\
  extend_records_fingerprint = true.
Proof. repeat split; reflexivity. Qed.
Print Assumptions C08_model_assumptions_hold_in_source.

(** Non-vacuity. *)

(** A history OUTSIDE K, for every value of the parameters, that mixes
    committed and rolled-back transactions: issuance, rename, new account,
    imported account, mark-used, sync, import; the imported account extended
    ahead of use (public derivation) cold and warm; the manager locked across
    issuance, extension and an eviction, then unlocked; aborted: new account,
    mark-used, birthday block, reads, the wallet's import dry run.  The
    hypotheses of [C08_outside_K] hold, and the answers are the expected ones:
    the extended addresses of the imported account carry ITS fingerprint. *)
Example C08_nonvacuous_outside_K : forall rb,
  let P := {| p_rb := false; p_ee := rb; p_re := rb |} in
  let h := [ {| tx_ops := [ONext 0 false 2; ONewAccount 8; ONewAccountWO 10 wo1];
                tx_fate := Commit; tx_queries := [QProps 0; QProps 2; QLookup (Chain 0 false 1)] |};
             {| tx_ops := [ONewAccount 9; OMarkUsed (Chain 0 false 0); OSetBdayBlock stamp1 true];
                tx_fate := AbortCaller; tx_queries := [QProps 1; QLast 0 false] |};
             {| tx_ops := [ORead (QLookup (Chain 0 false 0)); ORead (QProps 1)]; tx_fate := AbortDryRun;
                tx_queries := [] |};
             {| tx_ops := dry_import_ops 3 12 {| w_key := 4; w_fp := 9; w_schema := None |} 3;
                tx_fate := AbortDryRun; tx_queries := [QProps 3] |};
             {| tx_ops := [OExtend 1 true 3; OSetSynced stamp1; OImport (ImpScript 0) (Some stamp1) false;
                           OExtend 2 false 2; OExtend 2 true 9];
                tx_fate := Commit; tx_queries := [QLookup (ImpScript 0); QLookup (Chain 2 false 1)] |};
             {| tx_ops := [OLock; OInvalidate 1; ONext 0 false 1; ONext 1 true 1; OExtend 2 false 6; ONewAccount 13];
                tx_fate := Commit; tx_queries := [QProps 0; QLast 2 false] |};
             {| tx_ops := [OMarkUsed (Chain 1 true 4); OUnlock]; tx_fate := CommitFails; tx_queries := [QSynced] |};
             {| tx_ops := [ONext 2 false 2; ORename 2 11; ORename 0 7]; tx_fate := Commit; tx_queries := [] |} ] in
  in_K P h = false /\ times_ok h = true /\
  let s := final P h (opened d_wit) in
  observe (mem_of s) (disk_of s) (QProps 1) = AProps 8 0 5 0 None false /\
  observe (mem_of s) (disk_of s) (QProps 0) = AProps 7 3 0 0 None false /\
  (* the imported account: extended, renamed while cached, in committed transactions *)
  observe (mem_of s) (disk_of s) (QProps 2) = AProps 11 9 10 0 (Some wo1) true /\
  observe (mem_of s) (disk_of s) (QProps 3) = AErr EAccountNotFound /\
  observe (mem_of s) (disk_of s) (QLookup (Chain 2 false 1))
    = AAddr (Chain 2 false 1) 2 false false false 3 287454020 /\
  observe (mem_of s) (disk_of s) (QLookup (Chain 2 false 6))
    = AAddr (Chain 2 false 6) 2 false false false 3 287454020 /\
  observe (mem_of s) (disk_of s) (QLast 2 false) = ALast (Chain 2 false 8) 3 287454020 /\
  observe (mem_of s) (disk_of s) (QLookup (Chain 1 true 4)) = AAddr (Chain 1 true 4) 1 true false false 4 0.
Proof. intros []; vm_compute; repeat split. Qed.

(** A committed conversion to watching-only, then issuance and extension (public
    derivation): outside K; next indices, names and addresses are what they
    were; NewAccount, Lock and Unlock are refused; every account says
    IsWatchOnly - and so does the restart. *)
Example C08_nonvacuous_converted : forall P,
  let h := [ {| tx_ops := [ONext 0 false 4; ONext 0 true 1]; tx_fate := Commit; tx_queries := [QProps 0] |};
             {| tx_ops := [OConvert; ONewAccount 5; OUnlock; OLock]; tx_fate := Commit; tx_queries := [QProps 0] |};
             {| tx_ops := [ONext 0 false 1; OImport (ImpKey 0) None true]; tx_fate := Commit;
                tx_queries := [QProps imported_acct] |} ] in
  in_K P h = false /\ times_ok h = true /\
  let s := final P h (opened d_wit) in
  (run_hist P h (opened d_wit)).2 =
    [([AAddrs [Chain 0 false 0; Chain 0 false 1; Chain 0 false 2; Chain 0 false 3]; AAddrs [Chain 0 true 0]],
      [AProps 2 4 1 0 None false]);
     ([AOk; AErr EWatchingOnly; AErr EWatchingOnly; AErr EWatchingOnly], [AProps 2 4 1 0 None true]);
     ([AAddrs [Chain 0 false 4]; AAddrs [ImpKey 0]], [AProps 1 0 0 1 None true])] /\
  observe (restart (mem_of s) (disk_of s)) (disk_of s) (QProps 0) = AProps 2 5 1 0 None true.
Proof. intros [[] [] []]; vm_compute; repeat split. Qed.

(** While the manager is locked, a default account says IsWatchOnly - and so
    does the locked restart; NewAccount is refused. *)
Example C08_nonvacuous_locked : forall P,
  let h := [ {| tx_ops := [OLock; ONewAccount 5]; tx_fate := AbortCaller; tx_queries := [QProps 0] |} ] in
  in_K P h = false /\
  let s := final P h (opened d_wit) in
  (run_hist P h (opened d_wit)).2 = [([AOk; AErr ELocked], [AProps 2 0 0 0 None true])] /\
  observe (restart (mem_of s) (disk_of s)) (disk_of s) (QProps 0) = AProps 2 0 0 0 None true.
Proof. intros [[] [] []]; vm_compute; repeat split. Qed.

(** The scenario the property names, on the source as it is now: dry-run
    issuance mixed with other rolled-back updates is outside K_idx; the next
    committed request issues index 1, exactly what the restarted manager
    issues. *)
Example C08_nonvacuous_dry_run :
  let P := {| p_rb := next_caches_read_back; p_ee := extend_updates_memory_eagerly;
              p_re := rename_updates_memory_eagerly |} in
  let h := [ {| tx_ops := [ONext 0 true 1]; tx_fate := Commit; tx_queries := [QProps 0] |};
             {| tx_ops := [ONext 0 true 2; ORename 0 7; OSetSynced stamp1]; tx_fate := AbortDryRun; tx_queries := [QProps 0] |};
             {| tx_ops := [ONext 0 true 1]; tx_fate := CommitFails; tx_queries := [] |} ] in
  in_K P h = true /\ in_K_idx P h = false /\
  let s := final P h (opened d_wit) in
  (run_tx P (issue_tx 0 true 1) s).2.1 = [AAddrs [Chain 0 true 1]] /\
  (run_tx P (issue_tx 0 true 1) (restarted s)).2.1 = [AAddrs [Chain 0 true 1]].
Proof. vm_compute. repeat split. Qed.
