(** C11 - Database transactions are all-or-nothing, isolated and ordered.
    Property theorems only; the model is KV/KV.v (walletdb over bbolt as used
    through walletdb/bdb), the proofs are in KV/KVProofs.v.

    Quantifiers: every database state [s], every transaction body (list of
    operations: put / get / delete / nested-bucket create and delete / sequence
    / cursor calls, on buckets addressed by path, over arbitrary byte strings),
    every way the closure ends (nil, error, panic), every sequence of such
    transactions, every interleaving of concurrent callers that the writer
    lock admits.

    What the managed calls db.Update / db.View / db.Batch do with their
    transaction on each exit of the closure is NOT part of the hand-written
    model: [code_flows] (Generated/TxFlow.v) is regenerated from
    walletdb/bdb/db.go and walletdb/interface.go by lib/extract_c11.py (source
    reader, behavioural probe as fallback and for Batch).  The theorems about
    the managed calls are proved for every skeleton that rolls back on the
    error and panic paths and commits only on nil ([safe_flows]) and are
    instantiated here with the code's; [C11_code_skeleton_safe] is the
    obligation that the code's skeleton is such a one.  A change of the code
    that commits on panic, leaves a transaction open or swallows the closure's
    error changes the generated file and breaks that obligation.

    Durability of a committed bbolt transaction across a close and reopen of
    the file is trusted: [reopen] is the identity on the committed tree. *)
From Verif Require Import Base.Prelude KV.KV KV.KVProofs Generated.TxFlow.
Local Open Scope N_scope.

(** The skeleton regenerated from the code: Update and Batch commit exactly
    when the closure returned nil and roll back when it returned an error and
    when it panicked; View rolls its read transaction back on all three paths;
    each of them returns nil for nil, the closure's own error for an error, and
    lets the closure's own panic value through. *)
Theorem C11_code_skeleton_safe : safe_flows code_flows.
Proof. vm_compute. repeat split; reflexivity. Qed.
Print Assumptions C11_code_skeleton_safe.

(** (a) A managed update whose closure returns an error or panics leaves the
    database exactly as before, the writer lock is released, no read
    transaction is opened, and the caller gets the closure's error / panic.
    Depends on the code through [C11_code_skeleton_safe] (rollback on both
    paths); [C11_rollback_premise_needed] below shows the dependence is real. *)
Theorem C11_failed_update_changes_nothing : forall s body o s' rs r,
  o <> OOk -> update code_flows s body o = Some (s', rs, r) ->
  committed s' = committed s /\ writer s' = false /\ readers s' = readers s /\ r = Some o.
Proof.
  intros s body o s' rs r N H. destruct C11_code_skeleton_safe as ((S & F) & _).
  exact (update_failed code_flows s body o s' rs r S F H N).
Qed.
Print Assumptions C11_failed_update_changes_nothing.

(** The same for walletdb.Batch, however many times bbolt ran the closure
    before the run that decided (attempts in a shared transaction are rolled
    back and the closure is run again alone). *)
Theorem C11_failed_batch_changes_nothing : forall n s body o s' rs r,
  o <> OOk -> batch code_flows n s body o = Some (s', rs, r) ->
  committed s' = committed s /\ writer s' = false /\ readers s' = readers s /\ r = Some o.
Proof.
  intros n s body o s' rs r N H. destruct C11_code_skeleton_safe as (_ & _ & (S & F)).
  rewrite batch_attempts_irrelevant in H.
  destruct (managed_rw_rolled_back _ _ _ _ _ _ _ (safe_rw_failed _ _ S N) H) as (A & B & C & D).
  rewrite (faithful_all _ o F) in D. auto.
Qed.
Print Assumptions C11_failed_batch_changes_nothing.

(** The premise about the code is needed: for ANY skeleton, if the path taken
    ends in Commit the closure's changes become the committed tree, and if it
    ends the transaction in neither way every later read-write transaction
    blocks for ever; a View path that does not roll back leaves a read
    transaction open and Close never returns. *)
Theorem C11_rollback_premise_needed : forall f s body o s' rs r,
  managed_rw f s body o = Some (s', rs, r) ->
  (ends f o = TCommit -> committed s' = normalize (fst (run_ops true (committed s) body))) /\
  (ends f o = TLeak -> forall g body2 o2, managed_rw g s' body2 o2 = None) /\
  (forall g body2 o2, ends g o2 <> TRollback ->
     reopen (fst (fst (managed_ro g s' body2 o2))) = None).
Proof.
  intros f s body o s' rs r H. repeat split.
  - intros E. exact (managed_rw_commit_keeps_changes _ _ _ _ _ _ _ E H).
  - intros E g body2 o2. exact (managed_rw_leak_blocks _ _ _ _ _ _ _ g body2 o2 E H).
  - intros g body2 o2 E. apply (managed_ro_leaks g s' body2 o2 E).
Qed.
Print Assumptions C11_rollback_premise_needed.

(** ... and the database stays usable: whatever mix of committed, failed and
    panicking updates, batches, views and manual transactions has run, the
    writer lock is free and no read transaction is open afterwards, so the next
    transaction of any kind begins and runs ([None] would be a
    BeginReadWriteTx that blocks for ever) and Close returns. *)
Theorem C11_db_usable_after_any_history : forall txs,
  exists s rss, run_txs code_flows init_db txs = Some (s, rss) /\ writer s = false /\ readers s = 0 /\
    (forall k body, exists s' rs o, run_tx code_flows s k body = Some (s', rs, o) /\ writer s' = false /\ readers s' = 0) /\
    (exists s', reopen s = Some s' /\ committed s' = committed s).
Proof.
  intros txs. destruct (run_txs_runs code_flows txs C11_code_skeleton_safe init_db quiet_init) as (s & rss & H & Q).
  exists s, rss. destruct Q as [W R]. repeat split; auto.
  - intros k body. destruct (run_tx_runs code_flows s k body C11_code_skeleton_safe (conj W R)) as (s' & rs & o & T & W' & R').
    eauto 8.
  - destruct (reopen_quiet s (conj W R)) as (s' & A & B & _). eauto.
Qed.
Print Assumptions C11_db_usable_after_any_history.

(** (b) A managed call that returns nil: the closure returned nil (the
    skeleton returns nil on no other path), the committed tree becomes the
    working copy the closure ended with (nil slices stored as empty), i.e.
    every name it bound is bound and every name it removed is gone, together;
    the reported results are those of the working copy; every later view reads
    it and every later update starts from it. *)
Theorem C11_commit_makes_all_changes_visible_together : forall s body s' rs r,
  update code_flows s body OOk = Some (s', rs, r) ->
  let w := fst (run_ops true (committed s) body) in
  r = Some OOk /\
  committed s' = normalize w /\
  rs = snd (run_ops true (committed s) body) /\
  (forall p k, lookup p k (committed s') = option_map norm_ent (lookup p k w)) /\
  (forall body2 o2, snd (fst (view code_flows s' body2 o2)) = snd (run_ops false (committed s') body2)) /\
  (exists s1, begin_rw s' = Some (s1, committed s')).
Proof.
  intros s body s' rs r H. destruct C11_code_skeleton_safe as ((S & F) & _).
  destruct (update_committed code_flows _ _ _ _ _ S F H) as (C & R & W & _ & RET).
  repeat split; auto.
  - intros p k. rewrite C. apply lookup_normalize.
  - intros body2 o2. apply (proj1 (managed_ro_results _ _ _ _)).
  - unfold begin_rw. rewrite W. eauto.
Qed.
Print Assumptions C11_commit_makes_all_changes_visible_together.

(** ... a nil return is never a rolled-back call: if Update, Batch or View
    of the code returns nil, the closure returned nil. *)
Theorem C11_nil_return_means_closure_returned_nil : forall o,
  (returns (fl_update code_flows) o = Some OOk -> o = OOk) /\
  (returns (fl_batch code_flows) o = Some OOk -> o = OOk) /\
  (returns (fl_view code_flows) o = Some OOk -> o = OOk).
Proof.
  intros o. destruct C11_code_skeleton_safe as ((_ & FU) & (_ & FV) & (_ & FB)).
  repeat split; intros H;
    [rewrite (faithful_all _ o FU) in H|rewrite (faithful_all _ o FB) in H|rewrite (faithful_all _ o FV) in H];
    injection H as ->; reflexivity.
Qed.
Print Assumptions C11_nil_return_means_closure_returned_nil.

(** walletdb.Batch, one caller: the closure may run several times; when it
    returns nil its changes are applied exactly once (the committed tree is
    ONE run of the body on the tree before), whatever the number of runs. *)
Theorem C11_batch_applies_once : forall n s body s' rs r,
  batch code_flows n s body OOk = Some (s', rs, r) ->
  r = Some OOk /\ committed s' = normalize (fst (run_ops true (committed s) body)) /\
  rs = snd (run_ops true (committed s) body) /\ writer s' = false /\ readers s' = readers s.
Proof.
  intros n s body s' rs r H. destruct C11_code_skeleton_safe as (_ & _ & ((C & _) & F)).
  rewrite batch_attempts_irrelevant in H.
  destruct (managed_rw_committed _ _ _ _ _ _ _ C H) as (A & B & W & R & D).
  rewrite (faithful_all _ OOk F) in D. auto.
Qed.
Print Assumptions C11_batch_applies_once.

(** Several goroutines in walletdb.Update (or walletdb.Batch) at once: every
    interleaving of their moves (begin, one operation of the closure, end) that
    the single-writer lock admits and that has come to rest is the serial run,
    in some order without repetition, of exactly the calls that were made -
    same committed tree, same results of every operation, same return values -
    and in that serial run the calls whose closure failed or panicked leave no
    trace: the tree is the one reached by the calls whose closure returned nil,
    each applied exactly once.  PARTIAL in this sense: the lock is the model's
    [writer] flag and every call is a transaction of its own; that bbolt's lock
    is such a lock, and that bbolt's Batch - which runs the closures of one
    batch one after the other inside ONE transaction and re-runs the survivors
    when one of them fails - has the same outcome, is exercised by the
    correspondence (serial order observed through a sequence counter), not
    proved. *)
Theorem C11_concurrent_updates_serializable : forall batch jobs s sch c,
  let f := if batch : bool then fl_batch code_flows else fl_update code_flows in
  run_sched f jobs (cinit s) sch = Some c -> quiescent c ->
  exists order res,
    NoDup order /\ run_serial f jobs s order = Some (c_db c, res) /\
    map (fun x => fst (fst x)) res = order /\
    (forall i rs ret, In (i, rs, ret) res -> c_thr c i = TDone rs ret) /\
    (forall i, ~ In i order -> c_thr c i = TIdle) /\
    exists res', run_serial f jobs s (filter (job_ok jobs) order) = Some (c_db c, res') /\
                 res' = filter (fun x => job_ok jobs (fst (fst x))) res.
Proof.
  intros b jobs s sch c f H Q.
  destruct (sched_serializable f jobs s sch c H Q) as (order & res & ND & R & M & TD & TI).
  exists order, res. repeat split; auto.
  apply (run_serial_failed_invisible f jobs order); [|exact R].
  destruct C11_code_skeleton_safe as ((SU & _) & _ & (SB & _)). destruct b; assumption.
Qed.
Print Assumptions C11_concurrent_updates_serializable.

(** "... and after the file is reopened": PARTIAL.  In the model a close and
    reopen is the identity on the committed tree (and Close returns only when
    no transaction is open), so what was committed is what a transaction after
    the reopen sees.  What is missing: that bbolt's file really holds a
    committed transaction after Close/Open (and after a crash) - durability and
    crash atomicity of the file are bbolt's and are trusted; the check only
    exercises clean close+reopen on the real file. *)
Theorem C11_reopen_sees_committed_partial : forall s s',
  reopen s = Some s' ->
  writer s = false /\ readers s = 0 /\
  committed s' = committed s /\ writer s' = false /\ readers s' = 0 /\
  forall body o, snd (fst (view code_flows s' body o)) = snd (run_ops false (committed s) body).
Proof.
  intros s s'. unfold reopen. destruct (writer s) eqn:W; [discriminate|].
  destruct (0 <? readers s) eqn:R; [discriminate|]. simpl. intros [= <-].
  apply N.ltb_ge in R. repeat split; auto; [lia|]. intros body o.
  exact (proj1 (managed_ro_results (fl_view code_flows) {| committed := committed s; writer := false; readers := 0 |} body o)).
Qed.
Print Assumptions C11_reopen_sees_committed_partial.

(** Committed trees are well formed (every bucket strictly ascending by name,
    so no name is both a key and a nested bucket) and contain no nil values;
    working copies stay well formed during a transaction.  Holds for every
    skeleton, hence for the code's. *)
Theorem C11_reachable_states_well_formed : forall txs s rss,
  run_txs code_flows init_db txs = Some (s, rss) ->
  wf (committed s) /\ normalize (committed s) = committed s /\
  forall w ops, wf (fst (run_ops w (committed s) ops)).
Proof.
  intros txs s rss H. destruct (run_txs_good code_flows txs _ _ _ good_init H) as [W N].
  repeat split; auto. intros w ops. apply run_ops_wf. exact W.
Qed.
Print Assumptions C11_reachable_states_well_formed.

(** (c) Reads see the transaction's own writes: after a successful Put of
    (k, v) into the bucket at path p, Get k on that bucket returns v after any
    number of further operations that do not overwrite or delete that key, run
    a deleting cursor over that bucket, or delete a bucket on the path to it
    ([interferes]); operations on other keys and other buckets are arbitrary. *)
Theorem C11_read_your_writes : forall root root1 p k v ops w,
  exec_op true (p, Put k v) root = (root1, RErr None) ->
  forallb (fun o => negb (interferes o p k)) ops = true ->
  snd (exec_op w (p, Get k) (fst (run_ops w root1 ops))) = RVal v.
Proof.
  intros root root1 p k v ops w HP HF.
  rewrite (has_val_get w p k v); [reflexivity|].
  apply run_ops_keeps_val; [|exact HF]. eapply put_has_val. exact HP.
Qed.
Print Assumptions C11_read_your_writes.

(** (d) On a read-only transaction every operation leaves the working copy
    unchanged, and every mutating call reports an error
    (walletdb.ErrTxNotWritable for Put / Delete / CreateBucket(IfNotExists) /
    DeleteNestedBucket / Cursor.Delete; some error for NextSequence and
    SetSequence, where bdb hands out bbolt's own error value - its class is
    recorded as drift only); hence a view of any body never changes the
    database (with the code's skeleton: the read transaction is closed again). *)
Theorem C11_readonly_cannot_modify :
  (forall o root root' r, exec_op false o root = (root', r) ->
     root' = root /\ (r = RNoBucket \/ not_writable_result (snd o) r)) /\
  (forall ops root, fst (run_ops false root ops) = root) /\
  (forall s body o, fst (fst (view code_flows s body o)) = s).
Proof.
  split; [|split].
  - intros o root root' r H. exact (exec_op_readonly _ _ _ _ H).
  - intros ops root. apply run_ops_readonly.
  - intros s body o. apply (view_unchanged code_flows s body o).
    destruct C11_code_skeleton_safe as (_ & (S & _) & _). exact S.
Qed.
Print Assumptions C11_readonly_cannot_modify.

(** (e) Cursor: on every bucket of a well formed tree the names of the
    entries (keys and nested buckets in one name space) are strictly ascending
    in byte-lexicographic order; First;Next* reports exactly these entries in
    this order and then nil; Last;Prev* reports the reverse and then nil;
    ForEach reports the same list; Seek k lands on the least entry that is not
    below k, or reports nil when there is none. *)
Theorem C11_cursor_order : forall w root p b,
  wf root -> at_path p root = Some b ->
  let l := bents b in
  StronglySorted blt (map fst (map obs_ent l)) /\
  exec_op w (p, Cursor (CFirst :: repeat CNext (length l))) root
    = (root, RCur (map seen l ++ [CKV None])) /\
  exec_op w (p, Cursor (CLast :: repeat CPrev (length l))) root
    = (root, RCur (map seen (rev l) ++ [CKV None])) /\
  exec_op w (p, ForEach) root = (root, REnts (map obs_ent l)) /\
  forall k pos0,
    match first_ge k l with
    | Some ke =>
        cursor_step w (l, pos0) (CSeek k) = (l, PAt (fst ke), seen ke) /\
        In ke l /\ bltb (fst ke) k = false /\
        forall ke', In ke' l -> bltb (fst ke') k = false -> ke' = ke \/ blt (fst ke) (fst ke')
    | None =>
        cursor_step w (l, pos0) (CSeek k) = (l, PEnd, CKV None) /\
        forall ke', In ke' l -> bltb (fst ke') k = true
    end.
Proof.
  intros w root p b W A l. pose proof (W p b A) as S.
  split; [apply seen_sorted; exact S|].
  split; [apply exec_op_forward_scan; assumption|].
  split; [apply exec_op_backward_scan; assumption|].
  split; [apply exec_op_foreach; assumption|].
  intros k pos0. pose proof (first_ge_spec k l S) as F. pose proof (seek_step w l pos0 k) as E.
  destruct (first_ge k l) as [ke|]; split; auto.
Qed.
Print Assumptions C11_cursor_order.

(** Deleting through the cursor and re-positioning (the documented way to go
    on after Cursor.Delete): the entry is removed and Seek of the same key
    lands on the entry that followed it. *)
Theorem C11_cursor_delete_then_reseek : forall l k v,
  ent_get k l = Some (inl v) ->
  cursor_run true (l, PAt k) [CDelete; CSeek k] =
  (ent_del k l, [CErr None; match first_gt k l with Some ke => seen ke | None => CKV None end]).
Proof. exact delete_then_reseek. Qed.
Print Assumptions C11_cursor_delete_then_reseek.

(** (f) Nested buckets are independent name spaces: operations on buckets at
    or below path p leave the own content (sequence, names, values, which names
    are buckets) of every bucket that is not at or below p unchanged, and leave
    the whole subtree of every bucket on an incomparable path unchanged. *)
Theorem C11_namespaces_independent : forall w p q ops root,
  Forall (fun o => prefix p (fst o)) ops -> ~ prefix p q ->
  option_map shallow (at_path q (fst (run_ops w root ops))) = option_map shallow (at_path q root) /\
  (~ prefix q p -> at_path q (fst (run_ops w root ops)) = at_path q root).
Proof.
  intros w p q ops root F N. split.
  - apply (run_ops_outside w p q ops root F N).
  - intros N2. apply (run_ops_incomparable w p q ops root F N N2).
Qed.
Print Assumptions C11_namespaces_independent.

(** ... and two operations on buckets at incomparable paths commute: either
    order gives the same tree and the same two results. *)
Theorem C11_incomparable_buckets_commute : forall w o1 o2 root,
  ~ prefix (fst o1) (fst o2) -> ~ prefix (fst o2) (fst o1) ->
  let '(r1, x1) := exec_op w o1 root in
  let '(r12, x2) := exec_op w o2 r1 in
  let '(r2, y2) := exec_op w o2 root in
  let '(r21, y1) := exec_op w o1 r2 in
  r12 = r21 /\ x1 = y1 /\ x2 = y2.
Proof. exact exec_op_comm. Qed.
Print Assumptions C11_incomparable_buckets_commute.

(** Non-vacuity. *)
Definition ex_k1 : bytes := [107; 1].
Definition ex_k0 : bytes := [0].
Definition ex_kff : bytes := [255; 0].
Definition ex_a : bytes := [97].
Definition ex_b : bytes := [98].

(** a failing update after a committed one: nothing of it survives, and the
    next update runs; inside the failing update its own write was visible. *)
Example C11_nonvacuous_atomicity :
  let t1 := (KUpdate OOk, [([], CreateBucketIfNotExists ex_a); ([ex_a], Put ex_k1 (Some [1]))]) in
  let t2 := (KUpdate OErr, [([ex_a], Put ex_k1 (Some [2])); ([ex_a], Get ex_k1); ([ex_a], CreateBucket ex_b)]) in
  let t3 := (KUpdate OPanic, [([ex_a], Delete ex_k1); ([ex_a], Get ex_k1)]) in
  let t4 := (KView OOk, [([ex_a], Get ex_k1); ([ex_a], Put ex_k1 None); ([ex_a], Nested ex_b)]) in
  option_map snd (run_txs code_flows init_db [t1; t2; t3; t4]) =
  Some [ [RErr None; RErr None];
         [RErr None; RVal (Some [2]); RErr None];
         [RErr None; RVal None];
         [RVal (Some [1]); RErr (Some ETxNotWritable); RBool false] ].
Proof. vm_compute. reflexivity. Qed.

(** one name space per bucket, in byte order, in both directions; a nil value
    read back as nil inside the transaction and as empty after commit. *)
Example C11_nonvacuous_cursor :
  let body := [([], CreateBucketIfNotExists ex_a);
               ([ex_a], Put ex_kff (Some [])); ([ex_a], Put ex_k1 None); ([ex_a], CreateBucket ex_b);
               ([ex_a], Put ex_k0 (Some [7])); ([ex_a], Put ex_b (Some [1]));
               ([ex_a], Get ex_k1);
               ([ex_a], Cursor [CFirst; CNext; CNext; CNext; CNext; CPrev; CSeek [1]; CDelete; CSeek [98]; CDelete]);
               ([ex_a], Cursor [CLast; CPrev; CPrev; CPrev])] in
  option_map (fun x => snd (fst x)) (update code_flows init_db body OOk) =
  Some [ RErr None; RErr None; RErr None; RErr None; RErr None; RErr (Some EIncompatibleValue);
         RVal None;
         RCur [CKV (Some (ex_k0, Some [7])); CKV (Some (ex_b, None)); CKV (Some (ex_k1, None));
               CKV (Some (ex_kff, Some [])); CKV None; CKV (Some (ex_k1, None));
               CKV (Some (ex_b, None)); CErr (Some EIncompatibleValue);
               CKV (Some (ex_b, None)); CErr (Some EIncompatibleValue)];
         RCur [CKV (Some (ex_kff, Some [])); CKV (Some (ex_k1, None)); CKV (Some (ex_b, None));
               CKV (Some (ex_k0, Some [7]))] ] /\
  option_map (fun x => lookup [ex_a] ex_k1 (committed (fst (fst x)))) (update code_flows init_db body OOk)
    = Some (Some (inl (Some []))).
Proof. vm_compute. split; reflexivity. Qed.

(** Batch and concurrency: a failing batch (run twice by bbolt) leaves nothing,
    a committed one is applied once; three goroutines, interleaved as far as
    the lock admits (the second cannot begin before the first has ended), end
    in the serial result of the two whose closure returned nil. *)
Example C11_nonvacuous_batch_and_schedule :
  let mk := ([], CreateBucketIfNotExists ex_a) in
  let jobs := [Job [mk; ([ex_a], NextSequence); ([ex_a], Put ex_k0 (Some [1]))] OOk;
               Job [mk; ([ex_a], NextSequence); ([ex_a], Put ex_k0 (Some [2]))] OErr;
               Job [mk; ([ex_a], NextSequence); ([ex_a], Get ex_k0); ([ex_a], Put ex_k1 (Some [3]))] OOk] in
  option_map (fun x => committed (fst (fst x)))
             (batch code_flows 1 init_db [mk; ([ex_a], Put ex_k0 (Some [9]))] OErr) = Some empty_bkt /\
  sched_step (fl_update code_flows) jobs
     (CState {| committed := empty_bkt; writer := true; readers := 0 |} (fun _ => TIdle)) 1%nat = None /\
  option_map (fun c => (committed (c_db c), c_thr c 1%nat, c_thr c 2%nat))
     (run_sched (fl_update code_flows) jobs (cinit init_db)
        [2; 2; 2; 2; 2; 2; 1; 1; 1; 1; 1; 0; 0; 0; 0; 0]%nat) =
  Some (Bkt 0 [(ex_a, inr (Bkt 2 [(ex_k0, inl (Some [1])); (ex_k1, inl (Some [3]))]))],
        TDone [RErr None; RNumErr 2 None; RErr None] (Some OErr),
        TDone [RErr None; RNumErr 1 None; RVal None; RErr None] (Some OOk)).
Proof. vm_compute. repeat split; reflexivity. Qed.
