(** C11 - Database transactions are all-or-nothing, isolated and ordered.
    Property theorems only; the model is KV/KV.v (walletdb over bbolt as used
    through walletdb/bdb), the proofs are in KV/KVProofs.v.

    Quantifiers: every database state [s], every transaction body (list of
    operations: put / get / delete / nested-bucket create and delete / sequence
    / cursor calls, on buckets addressed by path, over arbitrary byte strings),
    every way the closure ends (nil, error, panic), every sequence of such
    transactions.  Durability of a committed bbolt transaction across a close
    and reopen of the file is trusted: [reopen] is the identity on the
    committed tree. *)
From Verif Require Import Base.Prelude KV.KV KV.KVProofs.
Local Open Scope N_scope.

(** (a) A managed update whose closure returns an error or panics leaves the
    database exactly as before, and the writer lock is released. *)
Theorem C11_failed_update_changes_nothing : forall s body o s' rs o',
  o <> OOk -> update s body o = Some (s', rs, o') ->
  committed s' = committed s /\ writer s' = false /\ o' = o.
Proof. intros s body o s' rs o' N H. exact (update_failed s body o s' rs o' H N). Qed.
Print Assumptions C11_failed_update_changes_nothing.

(** ... and the database stays usable: whatever mix of committed, failed and
    panicking updates, views and manual transactions has run, the writer lock
    is free afterwards, so the next transaction of any kind begins and runs
    ([None] would be a BeginReadWriteTx that blocks for ever). *)
Theorem C11_db_usable_after_any_history : forall txs,
  exists s rss, run_txs init_db txs = Some (s, rss) /\ writer s = false /\
    forall k body, exists s' rs o, run_tx s k body = Some (s', rs, o) /\ writer s' = false.
Proof.
  intros txs. destruct (run_txs_runs txs init_db eq_refl) as (s & rss & H & W).
  exists s, rss. repeat split; auto. intros k body. apply run_tx_runs. exact W.
Qed.
Print Assumptions C11_db_usable_after_any_history.

(** (b) A closure that returns nil: the committed tree becomes the working
    copy the closure ended with (nil slices stored as empty), i.e. every name
    it bound is bound and every name it removed is gone, together; the reported
    results are those of the working copy; every later view reads it and
    every later update starts from it. *)
Theorem C11_commit_makes_all_changes_visible_together : forall s body s' rs o',
  update s body OOk = Some (s', rs, o') ->
  let w := fst (run_ops true (committed s) body) in
  committed s' = normalize w /\
  rs = snd (run_ops true (committed s) body) /\
  (forall p k, lookup p k (committed s') = option_map norm_ent (lookup p k w)) /\
  (forall body2 o2, snd (fst (view s' body2 o2)) = snd (run_ops false (committed s') body2)) /\
  (exists s1, begin_rw s' = Some (s1, committed s')).
Proof.
  intros s body s' rs o' H. destruct (update_committed _ _ _ _ _ H) as (C & R & W & _).
  repeat split; auto.
  - intros p k. rewrite C. apply lookup_normalize.
  - unfold begin_rw. rewrite W. eauto.
Qed.
Print Assumptions C11_commit_makes_all_changes_visible_together.

(** "... and after the file is reopened": PARTIAL.  In the model a close and
    reopen is the identity on the committed tree, so what was committed is what
    a transaction after the reopen sees.  What is missing: that bbolt's file
    really holds a committed transaction after Close/Open (and after a crash) -
    durability and crash atomicity of the file are bbolt's and are trusted; the
    check only exercises clean close+reopen on the real file. *)
Theorem C11_reopen_sees_committed_partial : forall s,
  committed (reopen s) = committed s /\ writer (reopen s) = false /\
  forall body o, snd (fst (view (reopen s) body o)) = snd (run_ops false (committed s) body).
Proof. intros s. repeat split. Qed.
Print Assumptions C11_reopen_sees_committed_partial.

(** Committed trees are well formed (every bucket strictly ascending by name,
    so no name is both a key and a nested bucket) and contain no nil values;
    working copies stay well formed during a transaction. *)
Theorem C11_reachable_states_well_formed : forall txs s rss,
  run_txs init_db txs = Some (s, rss) ->
  wf (committed s) /\ normalize (committed s) = committed s /\
  forall w ops, wf (fst (run_ops w (committed s) ops)).
Proof.
  intros txs s rss H. destruct (run_txs_good txs _ _ _ good_init H) as [W N].
  repeat split; auto. intros w ops. apply run_ops_wf. exact W.
Qed.
Print Assumptions C11_reachable_states_well_formed.

(** (c) Reads see the transaction's own writes: after a successful Put of
    (k, v) into the bucket at path p, Get k on that bucket returns v after any
    number of further operations that do not overwrite or delete that key, run
    a deleting cursor over that bucket, or delete a bucket on the path to it
    ([interferes]); operations on other keys and other buckets are arbitrary. *)
Theorem C11_read_your_writes : forall root root1 p k v ops w,
  exec_op true (p, Put k v) root = (root1, RErr None) ->
  forallb (fun o => negb (interferes o p k)) ops = true ->
  snd (exec_op w (p, Get k) (fst (run_ops w root1 ops))) = RVal v.
Proof.
  intros root root1 p k v ops w HP HF.
  rewrite (has_val_get w p k v); [reflexivity|].
  apply run_ops_keeps_val; [|exact HF]. eapply put_has_val. exact HP.
Qed.
Print Assumptions C11_read_your_writes.

(** (d) On a read-only transaction every operation leaves the working copy
    unchanged, and every mutating call reports the not-writable error
    (walletdb.ErrTxNotWritable; bbolt's own error value for NextSequence and
    SetSequence, which bdb does not convert); hence a view of any body never
    changes the database. *)
Theorem C11_readonly_cannot_modify :
  (forall o root root' r, exec_op false o root = (root', r) ->
     root' = root /\ (r = RNoBucket \/ not_writable_result (snd o) r)) /\
  (forall ops root, fst (run_ops false root ops) = root) /\
  (forall s body o, fst (fst (view s body o)) = s).
Proof.
  repeat split.
  - eapply exec_op_readonly; eauto.
  - destruct (exec_op_readonly _ _ _ _ H) as [_ X]. exact X.
  - apply run_ops_readonly.
Qed.
Print Assumptions C11_readonly_cannot_modify.

(** (e) Cursor: on every bucket of a well formed tree the names of the
    entries (keys and nested buckets in one name space) are strictly ascending
    in byte-lexicographic order; First;Next* reports exactly these entries in
    this order and then nil; Last;Prev* reports the reverse and then nil;
    ForEach reports the same list; Seek k lands on the least entry that is not
    below k, or reports nil when there is none. *)
Theorem C11_cursor_order : forall w root p b,
  wf root -> at_path p root = Some b ->
  let l := bents b in
  StronglySorted blt (map fst (map obs_ent l)) /\
  exec_op w (p, Cursor (CFirst :: repeat CNext (length l))) root
    = (root, RCur (map seen l ++ [CKV None])) /\
  exec_op w (p, Cursor (CLast :: repeat CPrev (length l))) root
    = (root, RCur (map seen (rev l) ++ [CKV None])) /\
  exec_op w (p, ForEach) root = (root, REnts (map obs_ent l)) /\
  forall k pos0,
    match first_ge k l with
    | Some ke =>
        cursor_step w (l, pos0) (CSeek k) = (l, PAt (fst ke), seen ke) /\
        In ke l /\ bltb (fst ke) k = false /\
        forall ke', In ke' l -> bltb (fst ke') k = false -> ke' = ke \/ blt (fst ke) (fst ke')
    | None =>
        cursor_step w (l, pos0) (CSeek k) = (l, PEnd, CKV None) /\
        forall ke', In ke' l -> bltb (fst ke') k = true
    end.
Proof.
  intros w root p b W A l. pose proof (W p b A) as S.
  split; [apply seen_sorted; exact S|].
  split; [apply exec_op_forward_scan; assumption|].
  split; [apply exec_op_backward_scan; assumption|].
  split; [apply exec_op_foreach; assumption|].
  intros k pos0. pose proof (first_ge_spec k l S) as F. pose proof (seek_step w l pos0 k) as E.
  destruct (first_ge k l) as [ke|]; split; auto.
Qed.
Print Assumptions C11_cursor_order.

(** Deleting through the cursor and re-positioning (the documented way to go
    on after Cursor.Delete): the entry is removed and Seek of the same key
    lands on the entry that followed it. *)
Theorem C11_cursor_delete_then_reseek : forall l k v,
  ent_get k l = Some (inl v) ->
  cursor_run true (l, PAt k) [CDelete; CSeek k] =
  (ent_del k l, [CErr None; match first_gt k l with Some ke => seen ke | None => CKV None end]).
Proof. exact delete_then_reseek. Qed.
Print Assumptions C11_cursor_delete_then_reseek.

(** (f) Nested buckets are independent name spaces: operations on buckets at
    or below path p leave the own content (sequence, names, values, which names
    are buckets) of every bucket that is not at or below p unchanged, and leave
    the whole subtree of every bucket on an incomparable path unchanged. *)
Theorem C11_namespaces_independent : forall w p q ops root,
  Forall (fun o => prefix p (fst o)) ops -> ~ prefix p q ->
  option_map shallow (at_path q (fst (run_ops w root ops))) = option_map shallow (at_path q root) /\
  (~ prefix q p -> at_path q (fst (run_ops w root ops)) = at_path q root).
Proof.
  intros w p q ops root F N. split.
  - apply (run_ops_outside w p q ops root F N).
  - intros N2. apply (run_ops_incomparable w p q ops root F N N2).
Qed.
Print Assumptions C11_namespaces_independent.

(** ... and two operations on buckets at incomparable paths commute: either
    order gives the same tree and the same two results. *)
Theorem C11_incomparable_buckets_commute : forall w o1 o2 root,
  ~ prefix (fst o1) (fst o2) -> ~ prefix (fst o2) (fst o1) ->
  let '(r1, x1) := exec_op w o1 root in
  let '(r12, x2) := exec_op w o2 r1 in
  let '(r2, y2) := exec_op w o2 root in
  let '(r21, y1) := exec_op w o1 r2 in
  r12 = r21 /\ x1 = y1 /\ x2 = y2.
Proof. exact exec_op_comm. Qed.
Print Assumptions C11_incomparable_buckets_commute.

(** Non-vacuity. *)
Definition ex_k1 : bytes := [107; 1].
Definition ex_k0 : bytes := [0].
Definition ex_kff : bytes := [255; 0].
Definition ex_a : bytes := [97].
Definition ex_b : bytes := [98].

(** a failing update after a committed one: nothing of it survives, and the
    next update runs; inside the failing update its own write was visible. *)
Example C11_nonvacuous_atomicity :
  let t1 := (KUpdate OOk, [([], CreateBucketIfNotExists ex_a); ([ex_a], Put ex_k1 (Some [1]))]) in
  let t2 := (KUpdate OErr, [([ex_a], Put ex_k1 (Some [2])); ([ex_a], Get ex_k1); ([ex_a], CreateBucket ex_b)]) in
  let t3 := (KUpdate OPanic, [([ex_a], Delete ex_k1); ([ex_a], Get ex_k1)]) in
  let t4 := (KView OOk, [([ex_a], Get ex_k1); ([ex_a], Put ex_k1 None); ([ex_a], Nested ex_b)]) in
  option_map snd (run_txs init_db [t1; t2; t3; t4]) =
  Some [ [RErr None; RErr None];
         [RErr None; RVal (Some [2]); RErr None];
         [RErr None; RVal None];
         [RVal (Some [1]); RErr (Some ETxNotWritable); RBool false] ].
Proof. vm_compute. reflexivity. Qed.

(** one name space per bucket, in byte order, in both directions; a nil value
    read back as nil inside the transaction and as empty after commit. *)
Example C11_nonvacuous_cursor :
  let body := [([], CreateBucketIfNotExists ex_a);
               ([ex_a], Put ex_kff (Some [])); ([ex_a], Put ex_k1 None); ([ex_a], CreateBucket ex_b);
               ([ex_a], Put ex_k0 (Some [7])); ([ex_a], Put ex_b (Some [1]));
               ([ex_a], Get ex_k1);
               ([ex_a], Cursor [CFirst; CNext; CNext; CNext; CNext; CPrev; CSeek [1]; CDelete; CSeek [98]; CDelete]);
               ([ex_a], Cursor [CLast; CPrev; CPrev; CPrev])] in
  option_map (fun x => snd (fst x)) (update init_db body OOk) =
  Some [ RErr None; RErr None; RErr None; RErr None; RErr None; RErr (Some EIncompatibleValue);
         RVal None;
         RCur [CKV (Some (ex_k0, Some [7])); CKV (Some (ex_b, None)); CKV (Some (ex_k1, None));
               CKV (Some (ex_kff, Some [])); CKV None; CKV (Some (ex_k1, None));
               CKV (Some (ex_b, None)); CErr (Some EIncompatibleValue);
               CKV (Some (ex_b, None)); CErr (Some EIncompatibleValue)];
         RCur [CKV (Some (ex_kff, Some [])); CKV (Some (ex_k1, None)); CKV (Some (ex_b, None));
               CKV (Some (ex_k0, Some [7]))] ] /\
  option_map (fun x => lookup [ex_a] ex_k1 (committed (fst (fst x)))) (update init_db body OOk)
    = Some (Some (inl (Some []))).
Proof. vm_compute. split; reflexivity. Qed.
