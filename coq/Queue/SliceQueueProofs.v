(** Proofs about the transition system of Queue/SliceQueue.v (property C18, the
    inline slice queues of chain/btcd.go and chain/neutrino.go).  Everything is
    about the shape [canonical], for every initial best block [b0] and every
    schedule (= every list of labels that [run] accepts from [init b0]); no
    bound on burst lengths.  Same structure as Queue/QueueProofs.v. *)
From Verif Require Import Base.Prelude Queue.QueueCorr Queue.SliceQueue Queue.SliceQueueCorr.

Local Arguments step : simpl never.
Local Notation C := canonical.

Definition nonempty {A} (l : list A) : bool := match l with [] => false | _ :: _ => true end.

(** * Invariant *)

Record Inv (b0 : N) (s : state) : Prop := {
  inv_cons : rcvd s ++ pend s = sent s;
  inv_head : pend s <> [] -> nxt s = hd_ntfn (pend s);
  inv_armed : done s = false -> armed s = nonempty (pend s);
  inv_panic : panicked s = false;
  inv_done : done s = true -> stopped s = true;
  inv_closed : closed s = done s;
  inv_inopen : inopen s = false -> inclosed s = true;
  inv_drain : inopen s = false -> done s = false -> pend s <> [];
  inv_bs : bs s = last_connected b0 (rcvd s) }.

Ltac break_step H :=
  repeat match type of H with
  | None = Some _ => discriminate H
  | context [if ?b then _ else _] => let E := fresh "E" in destruct b eqn:E
  | context [match ?x with _ => _ end] => let E := fresh "E" in destruct x eqn:E
  | Some _ = Some _ => inv H
  end.

Ltac lists :=
  simpl; repeat rewrite app_nil_r; repeat rewrite <- app_assoc; simpl; try reflexivity.

Ltac open_step H :=
  unfold step, leave, crash in H; simpl in H; break_step H.

Lemma last_connected_snoc b l v :
  last_connected b (l ++ [v]) =
  match v with Connected h => h | _ => last_connected b l end.
Proof.
  revert b. induction l as [|a l IH]; simpl; intro b.
  - destruct v; reflexivity.
  - destruct a; apply IH.
Qed.

Lemma Inv_init b0 : Inv b0 (init b0).
Proof. constructor; simpl; auto; try discriminate; intro H; exfalso; apply H; reflexivity. Qed.

Lemma bools3 a b c : a || negb b || c = false -> a = false /\ b = true /\ c = false.
Proof. destruct a, b, c; simpl; intro H; try discriminate; repeat split. Qed.

Lemma step_Inv b0 s l s' : Inv b0 s -> step C s l = Some s' -> Inv b0 s'.
Proof.
  intros [Hc Hh Ha Hp Hd Hcl Hio Hdr Hb] H.
  destruct s as [pe nx ar io ic b st d cl pa se rc]. simpl in *. subst pa cl.
  destruct l; unfold step in H; simpl in H.
  - (* Send *)
    destruct (d || negb io || ic) eqn:E; [discriminate|].
    apply bools3 in E. destruct E as (-> & -> & ->). specialize (Ha eq_refl).
    destruct pe as [|h0 t]; simpl in *; inv H; constructor; simpl; auto;
      try discriminate; try solve [lists];
      try (intros _; apply Hh; discriminate).
  - (* Recv *)
    destruct d; [discriminate|]. specialize (Ha eq_refl). simpl in H.
    destruct ar; [|discriminate]. simpl in H.
    destruct pe as [|h0 t]; [discriminate|]. clear Ha.
    assert (nx = h0) by (apply Hh; discriminate). subst nx.
    assert (Hbs : (match h0 with Connected h => h | _ => last_connected b0 rc end)
                  = last_connected b0 (rc ++ [h0])) by (rewrite last_connected_snoc; reflexivity).
    destruct t as [|y t'].
    + destruct io; simpl in H; inv H; constructor; simpl; auto; try discriminate;
        try solve [lists | rewrite <- Hc; lists]; try (intro HH; exfalso; apply HH; reflexivity).
    + inv H. constructor; simpl; auto; try discriminate; try solve [lists | rewrite <- Hc; lists].
  - (* ReadBS *)
    destruct d; inv H. constructor; simpl; auto.
  - (* Stop *)
    destruct st; inv H. constructor; simpl; auto.
  - (* CloseIn *)
    destruct ic; inv H. constructor; simpl; auto.
  - (* SeeClosed *)
    destruct d; inv H. constructor; simpl; auto.
  - (* WQuit *)
    destruct st, d; simpl in H; inv H. constructor; simpl; auto; discriminate.
  - (* WInClosed *)
    destruct (d || negb io || negb ic) eqn:E; [discriminate|].
    destruct d, io, ic; simpl in E; try discriminate.
    destruct pe as [|h0 t]; inv H; constructor; simpl; auto; discriminate.
Qed.

Lemma run_Inv b0 ls : forall s s', Inv b0 s -> run C s ls = Some s' -> Inv b0 s'.
Proof.
  induction ls as [|l ls IH]; simpl; intros s s' HI H.
  - inv H. exact HI.
  - destruct (step C s l) as [s1|] eqn:E; [|discriminate].
    eapply IH; [eapply step_Inv; eauto | exact H].
Qed.

Lemma reachable_Inv b0 s : reachable C b0 s -> Inv b0 s.
Proof. intros [ls H]. eapply run_Inv; [apply Inv_init | exact H]. Qed.

Lemma run_app sh l1 : forall s l2,
  run sh s (l1 ++ l2) = match run sh s l1 with Some s' => run sh s' l2 | None => None end.
Proof.
  induction l1 as [|l l1 IH]; simpl; intros s l2; [reflexivity|].
  destruct (step sh s l); [apply IH | reflexivity].
Qed.

Lemma reachable_run b0 s ls s' : reachable C b0 s -> run C s ls = Some s' -> reachable C b0 s'.
Proof. intros [l0 H0] H. exists (l0 ++ ls). rewrite run_app, H0. exact H. Qed.

Lemma reachable_init b0 : reachable C b0 (init b0).
Proof. exists []. reflexivity. Qed.

(** * (a) conservation and order *)

Theorem conservation b0 ls s :
  run C (init b0) ls = Some s -> rcvd s ++ pend s = sent s.
Proof. intro H. exact (inv_cons _ _ (run_Inv _ _ _ _ (Inv_init b0) H)). Qed.

Theorem received_prefix b0 ls s :
  run C (init b0) ls = Some s -> exists rest, sent s = rcvd s ++ rest.
Proof. intro H. exists (pend s). symmetry. exact (conservation b0 ls s H). Qed.

Theorem drained_exact b0 ls s :
  run C (init b0) ls = Some s -> pend s = [] -> rcvd s = sent s.
Proof.
  intros H Hp. pose proof (conservation b0 ls s H) as E.
  rewrite Hp, app_nil_r in E. exact E.
Qed.

Lemma step_sent sh s l s' :
  step sh s l = Some s' ->
  sent s' = sent s ++ match l with Send x => [x] | _ => [] end.
Proof.
  intro H. destruct s as [pe nx ar io ic b st d cl pa se rc].
  destruct l; open_step H; simpl; rewrite ?app_nil_r; reflexivity.
Qed.

Lemma run_sent sh ls : forall s s', run sh s ls = Some s' -> sent s' = sent s ++ sends_of ls.
Proof.
  induction ls as [|l ls IH]; simpl; intros s s' H.
  - inv H. rewrite app_nil_r. reflexivity.
  - destruct (step sh s l) as [s1|] eqn:E; [|discriminate].
    rewrite (IH _ _ H), (step_sent _ _ _ _ E), <- app_assoc. reflexivity.
Qed.

Theorem sent_is_schedule b0 ls s : run C (init b0) ls = Some s -> sent s = sends_of ls.
Proof. intro H. exact (run_sent C ls (init b0) s H). Qed.

(** What a [Recv] hands to the consumer is [recv_val] = the local [next]
    (true for every shape) ... *)
Lemma step_rcvd sh s l s' :
  step sh s l = Some s' ->
  match l with
  | Recv => exists v, recv_val s = Some v /\ rcvd s' = rcvd s ++ [v]
  | _ => rcvd s' = rcvd s
  end.
Proof.
  intro H. destruct s as [pe nx ar io ic b st d cl pa se rc]. unfold recv_val.
  destruct l; unfold step, leave, crash in H; simpl in *.
  2:{ destruct (d || negb ar); [discriminate|].
      exists nx. split; [reflexivity|].
      destruct pe as [|h0 [|y t]]; [inv H; reflexivity| |inv H; reflexivity].
      destruct (negb io); inv H; reflexivity. }
  all: break_step H; reflexivity.
Qed.

(** ... and, for the canonical shape, [next] IS the head of the pending
    slice whenever the send case is armed: the consumer gets the oldest
    outstanding notification, and the slice is non-empty (no index panic). *)
Theorem recv_delivers_head b0 s s' :
  reachable C b0 s -> step C s Recv = Some s' ->
  exists v rest, pend s = v :: rest /\ recv_val s = Some v /\
                 rcvd s' = rcvd s ++ [v] /\ pend s' = rest.
Proof.
  intros HR H. pose proof (reachable_Inv _ _ HR) as [Hc Hh Ha Hp Hd Hcl Hio Hdr Hb].
  destruct s as [pe nx ar io ic b st d cl pa se rc]. unfold recv_val. simpl in *.
  unfold step, leave, crash in H. simpl in H.
  destruct d; [discriminate|]. specialize (Ha eq_refl). simpl in *.
  destruct ar; [|discriminate]. simpl in *.
  destruct pe as [|h0 t]; [discriminate|].
  assert (nx = h0) by (apply Hh; discriminate). subst nx.
  exists h0, t. split; [reflexivity|]. split; [reflexivity|].
  destruct t as [|y t']; [destruct io|]; inv H; split; reflexivity.
Qed.

Lemma NoDup_app_l {A} (l1 l2 : list A) : NoDup (l1 ++ l2) -> NoDup l1.
Proof.
  induction l1 as [|a l1 IH]; simpl; intro H; [constructor|].
  inv H. constructor; [|apply IH; assumption].
  intro Hin. apply H2. apply in_or_app. left. exact Hin.
Qed.

Theorem no_duplication b0 ls s :
  run C (init b0) ls = Some s -> NoDup (sent s) -> NoDup (rcvd s).
Proof.
  intros H ND. destruct (received_prefix b0 ls s H) as [rest E].
  rewrite E in ND. eapply NoDup_app_l. exact ND.
Qed.

(** The loop never indexes an empty slice, the send case is armed exactly
    when something is pending, and the channel is closed exactly when the loop
    has been left. *)
Theorem control_state b0 ls s :
  run C (init b0) ls = Some s ->
  panicked s = false /\
  (done s = false -> armed s = nonempty (pend s)) /\
  (pend s <> [] -> nxt s = hd_ntfn (pend s)) /\
  closed s = done s.
Proof.
  intro H. pose proof (run_Inv _ _ _ _ (Inv_init b0) H) as HI.
  repeat split; [apply (inv_panic _ _ HI) | apply (inv_armed _ _ HI)
                 | apply (inv_head _ _ HI) | apply (inv_closed _ _ HI)].
Qed.

(** Best-block bookkeeping: [bs] is the height of the last BlockConnected
    DELIVERED to the consumer (not merely enqueued), else the initial one. *)
Theorem best_block_follows_delivery b0 ls s :
  run C (init b0) ls = Some s -> bs s = last_connected b0 (rcvd s).
Proof. intro H. exact (inv_bs _ _ (run_Inv _ _ _ _ (Inv_init b0) H)). Qed.

(** * (b) the producer is never blocked by a slow consumer *)

Definition send_enabled (s : state) : Prop := forall x, step C s (Send x) <> None.

(** the loop is running and nobody closed the input channel *)
Definition running (s : state) : Prop := done s = false /\ inclosed s = false.

(** No worker step and no consumer step is needed: the loop is always at the
    select, whose receive case on [enqueue] is always on. *)
Theorem producer_never_blocked b0 s :
  reachable C b0 s -> running s -> send_enabled s.
Proof.
  intros HR [Hd Hi] x. pose proof (reachable_Inv _ _ HR) as HI.
  pose proof (inv_inopen _ _ HI) as Hio.
  unfold step. rewrite Hd, Hi.
  destruct (inopen s); [simpl; discriminate|].
  specialize (Hio eq_refl). congruence.
Qed.

Lemma send_step s x :
  done s = false -> inopen s = true -> inclosed s = false ->
  exists s', step C s (Send x) = Some s' /\ pend s' = pend s ++ [x] /\
    sent s' = sent s ++ [x] /\ rcvd s' = rcvd s /\
    done s' = false /\ inopen s' = true /\ inclosed s' = false /\ stopped s' = stopped s.
Proof.
  intros Hd Hio Hic. unfold step. rewrite Hd, Hio, Hic. simpl.
  eexists. split; [reflexivity|]. simpl. repeat split.
Qed.

(** Any burst, of any length, is accepted with no consumer step at all (and
    no worker step either), from any state in which the loop is running. *)
Theorem burst_without_consumer xs : forall s,
  done s = false -> inopen s = true -> inclosed s = false ->
  exists s', run C s (map Send xs) = Some s' /\ pend s' = pend s ++ xs /\
    sent s' = sent s ++ xs /\ rcvd s' = rcvd s /\ running s' /\ stopped s' = stopped s.
Proof.
  induction xs as [|x xs IH]; intros s Hd Hio Hic.
  - exists s. simpl. rewrite !app_nil_r. repeat split; auto.
  - destruct (send_step s x Hd Hio Hic) as (s1 & H1 & Hp & Hs & Hr & Hd1 & Hio1 & Hic1 & Hst1).
    destruct (IH s1 Hd1 Hio1 Hic1) as (s2 & H2 & Hp2 & Hs2 & Hr2 & Hrun2 & Hst2).
    exists s2. simpl. rewrite H1. split; [exact H2|].
    rewrite Hp2, Hs2, Hr2, Hp, Hs, Hr, Hst2, Hst1, <- !app_assoc. simpl. repeat split; apply Hrun2.
Qed.

Corollary burst_from_init b0 xs :
  exists s', run C (init b0) (map Send xs) = Some s' /\
    sent s' = xs /\ rcvd s' = [] /\ pend s' = xs /\ running s' /\ stopped s' = false.
Proof.
  destruct (burst_without_consumer xs (init b0) eq_refl eq_refl eq_refl)
    as (s' & H & Hp & Hs & Hr & Hrun & Hst).
  exists s'. simpl in *. repeat split; auto; apply Hrun.
Qed.

(** * Draining is always possible while the loop lives: [length (pend s)]
    receives, and nothing else, deliver everything that was sent. *)

Theorem drain_possible b0 : forall n s,
  Inv b0 s -> done s = false -> length (pend s) = n ->
  exists s', run C s (repeat Recv n) = Some s' /\
    pend s' = [] /\ sent s' = sent s /\ rcvd s' = sent s.
Proof.
  induction n as [|n IH]; intros s HI Hd Hn.
  - exists s. simpl. destruct (pend s) eqn:Ep; [|discriminate].
    repeat split; auto. pose proof (inv_cons _ _ HI) as E. rewrite Ep, app_nil_r in E. exact E.
  - pose proof HI as [Hc Hh Ha Hp Hdd Hcl Hio Hdr Hb].
    destruct s as [pe nx ar io ic b st d cl pa se rc]. simpl in *. subst d.
    specialize (Ha eq_refl).
    destruct pe as [|h0 t]; [discriminate|]. simpl in Ha. subst ar.
    assert (nx = h0) by (apply Hh; discriminate). subst nx.
    injection Hn as Hn.
    destruct t as [|y t'].
    + subst n. simpl. unfold step, leave. simpl.
      destruct io; simpl; eexists; (split; [reflexivity|]); simpl;
        repeat split; auto; rewrite <- Hc; reflexivity.
    + set (s1 := St (y :: t') y true io ic
                    (match h0 with Connected h => h | _ => b end) st false cl pa se (rc ++ [h0])).
      assert (H1 : step C (St (h0 :: y :: t') h0 true io ic b st false cl pa se rc) Recv = Some s1)
        by reflexivity.
      destruct (IH s1 (step_Inv _ _ _ _ HI H1) eq_refl Hn) as (s2 & H2 & Hp2 & Hs2 & Hr2).
      exists s2. change (repeat Recv (S n)) with (Recv :: repeat Recv n).
      simpl run. rewrite H1. repeat split; auto.
Qed.

Corollary drain_reachable b0 s :
  reachable C b0 s -> done s = false ->
  exists s', run C s (repeat Recv (length (pend s))) = Some s' /\
    pend s' = [] /\ sent s' = sent s /\ rcvd s' = sent s.
Proof. intros HR Hd. exact (drain_possible b0 _ s (reachable_Inv _ _ HR) Hd eq_refl). Qed.

(** * (c) stop *)

Theorem quit_enabled s :
  stopped s = true -> done s = false ->
  exists s', step C s WQuit = Some s' /\ done s' = true /\ closed s' = true /\
             pend s' = pend s /\ rcvd s' = rcvd s /\ sent s' = sent s.
Proof.
  intros Hs Hd. unfold step. rewrite Hs, Hd. simpl. eexists. split; [reflexivity|].
  simpl. repeat split.
Qed.

(** Once the loop has been left nothing is handed over in either direction
    any more and the worker takes no step; the state never changes again except
    for the flags set by the environment ([Stop], [CloseIn]). *)
Theorem done_final s l s' :
  done s = true -> step C s l = Some s' ->
  is_worker l = false /\ is_send l = false /\ is_recv l = false /\
  done s' = true /\ pend s' = pend s /\ sent s' = sent s /\ rcvd s' = rcvd s /\ closed s' = closed s.
Proof.
  intros Hd H. destruct s as [pe nx ar io ic b st d cl pa se rc]. simpl in Hd. subst d.
  destruct l; unfold step in H; simpl in H; rewrite ?andb_false_r in H; try discriminate.
  - destruct st; inv H. simpl. repeat split.
  - destruct ic; inv H. simpl. repeat split.
  - destruct cl; inv H. simpl. repeat split.
Qed.

Lemma stopped_stable s l s' : stopped s = true -> step C s l = Some s' -> stopped s' = true.
Proof.
  intros Hd H. destruct s as [pe nx ar io ic b st d cl pa se rc]. simpl in Hd. subst st.
  destruct l; open_step H; simpl in *; try discriminate; reflexivity.
Qed.

Lemma run_stopped_stable ls : forall s s',
  stopped s = true -> run C s ls = Some s' -> stopped s' = true.
Proof.
  induction ls as [|l ls IH]; simpl; intros s s' Hs H.
  - inv H. exact Hs.
  - destruct (step C s l) as [s1|] eqn:E; [|discriminate].
    eapply IH; [eapply stopped_stable; eauto | exact H].
Qed.

(** [Stop] only sets the flag. *)
Lemma stop_step s s' :
  step C s Stop = Some s' ->
  stopped s = false /\ stopped s' = true /\ done s' = done s /\
  pend s' = pend s /\ sent s' = sent s /\ rcvd s' = rcvd s.
Proof.
  intro H. destruct s as [pe nx ar io ic b st d cl pa se rc]. open_step H. simpl. repeat split.
Qed.

(** Worker-only activity is bounded by 2 steps. *)
Definition wmeasure (s : state) : nat :=
  if done s then 0 else 1 + (if inopen s then 1 else 0).

Lemma worker_step_decreases s l s' :
  step C s l = Some s' -> is_worker l = true -> wmeasure s' < wmeasure s.
Proof.
  intros H Hl. destruct s as [pe nx ar io ic b st d cl pa se rc]. unfold wmeasure.
  destruct l; simpl in Hl; try discriminate; unfold step, leave in H; simpl in *.
  - destruct st, d; simpl in H; inv H. simpl. destruct io; lia.
  - destruct d, io, ic; simpl in H; try discriminate.
    destruct pe; inv H; simpl; lia.
Qed.

Lemma worker_runs_bounded ls : forall s s',
  forallb is_worker ls = true -> run C s ls = Some s' ->
  length ls + wmeasure s' <= wmeasure s.
Proof.
  induction ls as [|l ls IH]; simpl; intros s s' Hf H.
  - inv H. lia.
  - apply andb_true_iff in Hf. destruct Hf as [H1 H2].
    destruct (step C s l) as [s1|] eqn:E; [|discriminate].
    pose proof (worker_step_decreases _ _ _ E H1). pose proof (IH _ _ H2 H). lia.
Qed.

(** After stop: as long as the loop is alive its quit case is enabled and
    taking it leaves the loop and closes the output channel; every run of
    worker steps alone has length <= 2, and one that cannot be extended has
    terminated.  NOT proved (hence the name): that Go's select actually takes
    the quit case while a producer keeps sending and a consumer keeps
    receiving - a fairness property of select's random choice. *)
Theorem stop_terminates_partial s :
  stopped s = true ->
  (done s = false -> exists s', step C s WQuit = Some s' /\ done s' = true /\ closed s' = true) /\
  (forall ls s', forallb is_worker ls = true -> run C s ls = Some s' ->
     length ls <= 2 /\ stopped s' = true /\
     ((forall l, is_worker l = true -> step C s' l = None) -> done s' = true)).
Proof.
  intro Hs. split.
  - intro Hd. destruct (quit_enabled s Hs Hd) as (s' & H & Hd' & Hc' & _). eauto.
  - intros ls s' Hf Hrun.
    pose proof (worker_runs_bounded ls s s' Hf Hrun) as Hb.
    pose proof (run_stopped_stable ls s s' Hs Hrun) as Hs'.
    repeat split.
    + unfold wmeasure in Hb. destruct (done s), (done s'), (inopen s); lia.
    + exact Hs'.
    + intro Hstuck. destruct (done s') eqn:Hd; [reflexivity|].
      destruct (quit_enabled s' Hs' Hd) as (s2 & Hq & _).
      rewrite (Hstuck WQuit eq_refl) in Hq. discriminate.
Qed.

(** * The correspondence checker accepts only external projections of runs *)

Definition ext_sends (es : list ext) : list ntfn :=
  flat_map (fun e => match e with ESend x => [x] | _ => [] end) es.
Definition ext_recvs (es : list ext) : list ntfn :=
  flat_map (fun e => match e with ERecv y => [y] | _ => [] end) es.

Lemma list_eqb_eq {A} (f : A -> A -> bool) :
  (forall a b, f a b = true -> a = b) ->
  forall l1 l2, list_eqb f l1 l2 = true -> l1 = l2.
Proof.
  intros Hf. induction l1 as [|a l1 IH]; destruct l2 as [|b l2]; simpl; intro H;
    try discriminate; [reflexivity|].
  apply andb_true_iff in H. destruct H as [H1 H2].
  rewrite (Hf _ _ H1), (IH _ H2). reflexivity.
Qed.

Lemma ntfn_eqb_eq a b : ntfn_eqb a b = true -> a = b.
Proof.
  destruct a, b; simpl; intro H; try discriminate; try reflexivity;
    apply N.eqb_eq in H; subst; reflexivity.
Qed.

Lemma ext_eqb_eq a b : ext_eqb a b = true -> a = b.
Proof.
  destruct a, b; simpl; intro H; try discriminate; try reflexivity;
    try (apply ntfn_eqb_eq in H; subst; reflexivity).
  apply N.eqb_eq in H; subst; reflexivity.
Qed.

Lemma observe_hist sh ls : forall s es,
  observe sh s ls = Some es ->
  exists s', run sh s ls = Some s' /\
    sent s' = sent s ++ ext_sends es /\ rcvd s' = rcvd s ++ ext_recvs es.
Proof.
  induction ls as [|l ls IH]; simpl; intros s es H.
  - inv H. exists s. simpl. rewrite !app_nil_r. repeat split.
  - destruct (step sh s l) as [s1|] eqn:E; [|discriminate].
    destruct (observe sh s1 ls) as [es1|] eqn:O; [|discriminate].
    destruct (IH s1 es1 O) as (s' & Hrun & Hs & Hr).
    pose proof (step_sent _ _ _ _ E) as Ss. pose proof (step_rcvd _ _ _ _ E) as Sr.
    exists s'. split; [exact Hrun|].
    destruct l; try (inv H; simpl; rewrite Hs, Hr, Ss, Sr, ?app_nil_r; split; reflexivity).
    + (* Send *) inv H. simpl. rewrite Hs, Hr, Ss, Sr, <- app_assoc. split; reflexivity.
    + (* Recv *) destruct Sr as (v & Hv & Sr). rewrite Hv in H. inv H. simpl.
      rewrite Hs, Hr, Ss, Sr, app_nil_r, <- app_assoc. split; reflexivity.
Qed.

Theorem accepted_is_model_run b0 script :
  model_accepts C b0 script = true ->
  exists ls s, run C (init b0) ls = Some s /\ observe C (init b0) ls = Some script /\
    sent s = ext_sends script /\ rcvd s = ext_recvs script /\
    exists rest, ext_sends script = ext_recvs script ++ rest.
Proof.
  unfold model_accepts. intro H.
  destruct (search C b0 script) as [ls|]; [|discriminate].
  destruct (observe C (init b0) ls) as [es|] eqn:O; [|discriminate].
  apply (list_eqb_eq ext_eqb ext_eqb_eq) in H. subst es.
  destruct (observe_hist C ls (init b0) script O) as (s & Hrun & Hs & Hr). simpl in Hs, Hr.
  exists ls, s. repeat split; auto.
  destruct (received_prefix b0 ls s Hrun) as [rest E]. exists rest. congruence.
Qed.
