(** Executable correspondence check of C18 for the inline slice queues
    (chain/btcd.go handler, chain/neutrino.go notificationHandler).

    A case is (b0, script): the best-block height the backend reported when the
    handler started, and the externally visible actions the harness performed
    on the REAL loop, in the order it performed them:

      [ESend x]   a notification callback (onBlockConnected, ...) returned,
                  i.e. [enqueueNotification <- x] completed;
      [ERecv y]   a receive from [Notifications()] delivered [y];
      [EBS h]     [BlockStamp()] returned height [h];
      [EStop]     [Stop()] was called;
      [EClosed]   a receive from [Notifications()] reported the channel closed.

    The only hidden step is the worker taking its quit case, so the search
    (same construction as Queue/QueueCorr.v: close the candidate set under the
    hidden steps after every external action, keep the schedule with every
    candidate, then REPLAY the schedule found with [run] and compare its
    external projection with the script) is almost deterministic.  A case is
    accepted iff the replay reproduces the script and the property oracle
    (each receive delivers the oldest outstanding item) holds on it.

    The model instance is [canonical]: the shape Properties/C18.v proves the
    two loops to have ([C18_slice_code_shape]). *)
From Verif Require Import Base.Prelude Queue.QueueCorr Queue.SliceQueue.

Inductive ext := ESend (x : ntfn) | ERecv (y : ntfn) | EBS (h : N) | EStop | EClosed.

Definition ntfn_eqb (a b : ntfn) : bool :=
  match a, b with
  | NilNtfn, NilNtfn => true
  | Connected x, Connected y | Other x, Other y => N.eqb x y
  | _, _ => false
  end.

Definition ext_eqb (a b : ext) : bool :=
  match a, b with
  | ESend x, ESend y | ERecv x, ERecv y => ntfn_eqb x y
  | EBS x, EBS y => N.eqb x y
  | EStop, EStop | EClosed, EClosed => true
  | _, _ => false
  end.

(** Same configuration (the ghost histories are determined by the script). *)
Definition same_config (a b : state) : bool :=
  Bool.eqb (stopped a) (stopped b) && Bool.eqb (done a) (done b) &&
  Bool.eqb (closed a) (closed b) && Bool.eqb (panicked a) (panicked b) &&
  Bool.eqb (armed a) (armed b) && Bool.eqb (inopen a) (inopen b) &&
  Bool.eqb (inclosed a) (inclosed b) && N.eqb (bs a) (bs b) &&
  ntfn_eqb (nxt a) (nxt b) && list_eqb ntfn_eqb (pend a) (pend b).

(** Hidden steps.  [WInClosed] needs [CloseIn], which no script contains. *)
Definition internal : list label := [WQuit; WInClosed].

Definition cand := (state * list label)%type.

Definition succ (sh : shape) (k : cand) (l : label) : option cand :=
  match step sh (fst k) l with Some s' => Some (s', l :: snd k) | None => None end.

Fixpoint closure (fuel : nat) (sh : shape) (todo seen : list cand) : option (list cand) :=
  match todo with
  | [] => Some seen
  | k :: rest =>
      match fuel with
      | 0 => None
      | S f =>
          if existsb (fun k' => same_config (fst k) (fst k')) seen
          then closure f sh rest seen
          else closure f sh (omap (succ sh k) internal ++ rest) (k :: seen)
      end
  end.

Definition ext_succ (sh : shape) (e : ext) (k : cand) : option cand :=
  match e with
  | ESend x => succ sh k (Send x)
  | ERecv y =>
      match recv_val (fst k) with
      | Some v => if ntfn_eqb v y then succ sh k Recv else None
      | None => None
      end
  | EBS h => if N.eqb (bs (fst k)) h then succ sh k ReadBS else None
  | EStop => succ sh k Stop
  | EClosed => succ sh k SeeClosed
  end.

Definition fuel0 : nat := 1000.

Fixpoint search_from (sh : shape) (cands : list cand) (script : list ext) : option (list label) :=
  match script with
  | [] => match cands with k :: _ => Some (rev (snd k)) | [] => None end
  | e :: r =>
      match closure fuel0 sh (omap (ext_succ sh e) cands) [] with
      | Some (k :: ks) => search_from sh (k :: ks) r
      | _ => None
      end
  end.

Definition search (sh : shape) (b0 : N) (script : list ext) : option (list label) :=
  match closure fuel0 sh [(init b0, [])] [] with
  | Some cands => search_from sh cands script
  | None => None
  end.

(** External projection of a schedule, obtained by replaying it with [step]. *)
Fixpoint observe (sh : shape) (s : state) (ls : list label) : option (list ext) :=
  match ls with
  | [] => Some []
  | l :: r =>
      match step sh s l with
      | None => None
      | Some s' =>
          match observe sh s' r with
          | None => None
          | Some es =>
              match l with
              | Send x => Some (ESend x :: es)
              | Recv => match recv_val s with Some v => Some (ERecv v :: es) | None => None end
              | ReadBS => Some (EBS (bs s) :: es)
              | Stop => Some (EStop :: es)
              | SeeClosed => Some (EClosed :: es)
              | _ => Some es
              end
          end
      end
  end.

Definition model_accepts (sh : shape) (b0 : N) (script : list ext) : bool :=
  match search sh b0 script with
  | Some ls =>
      match observe sh (init b0) ls with
      | Some es => list_eqb ext_eqb es script
      | None => false
      end
  | None => false
  end.

(** Property oracle on the script alone: each receive delivers the oldest
    outstanding item; nothing arrives after the channel was seen closed. *)
Fixpoint fifo_ok (outstanding : list ntfn) (script : list ext) : bool :=
  match script with
  | [] => true
  | ESend x :: r => fifo_ok (outstanding ++ [x]) r
  | ERecv y :: r =>
      match outstanding with
      | p :: ps => ntfn_eqb p y && fifo_ok ps r
      | [] => false
      end
  | EClosed :: r => forallb (fun e => match e with ERecv _ => false | _ => true end) r && fifo_ok outstanding r
  | _ :: r => fifo_ok outstanding r
  end.

Definition oracle_ok (script : list ext) : bool := fifo_ok [] script.

(** case = (b0, script). *)
Definition case_ok (k : N * list ext) : bool :=
  let '(b0, script) := k in
  model_accepts canonical b0 script && oracle_ok script.

Definition mismatches := mismatches_from case_ok 0.
