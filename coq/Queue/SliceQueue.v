(** Model of the INLINE slice queue of chain/btcd.go (RPCClient.handler) and
    chain/neutrino.go (NeutrinoClient.notificationHandler) as a labelled
    transition system.  Both functions contain the same loop (the neutrino
    one has one more select case, [err := <-rescanErr], which only logs):

      bs := &BlockStamp{best block of the backend at start}
      var notifications []interface{}
      enqueue := c.enqueueNotification          -- UNBUFFERED
      var dequeue chan interface{}              -- nil: the send case is off
      var next interface{}
    out:
      for { select {
        case n, ok := <-enqueue:
            if !ok {
                if len(notifications) == 0 { break out }
                enqueue = nil
                continue
            }
            if len(notifications) == 0 {
                next = n
                dequeue = c.dequeueNotification  -- UNBUFFERED
            }
            notifications = append(notifications, n)
        case dequeue <- next:
            if n, ok := next.(BlockConnected); ok { bs = {n.Height, n.Hash} }
            notifications[0] = nil
            notifications = notifications[1:]
            if len(notifications) != 0 {
                next = notifications[0]
            } else {
                if enqueue == nil { break out }
                dequeue = nil
            }
        case c.currentBlock <- bs:
        case <-c.quit:
            break out
      } }
      c.Stop()                                   -- closes quit
      close(c.dequeueNotification)
      c.wg.Done()

    The worker is ALWAYS at the one select (the bodies of the cases do not
    block), so every step of the system is a rendezvous with the environment
    or the quit case; there is no hidden intermediate control point.

    State.  [pend] = notifications, [nxt] = next, [armed] = (dequeue != nil),
    [inopen] = (enqueue != nil) are the four local variables, kept
    INDEPENDENT of each other exactly as in the code: that the value handed to
    the consumer ([nxt]) is the head of [pend], and that the send case is
    armed iff [pend] is non-empty, are THEOREMS (SliceQueueProofs.Inv), not
    part of the definition.  [bs] = height of the best-block bookkeeping.
    [inclosed]: somebody closed enqueueNotification (no code in the repository
    does; the branch exists, so it is modelled).  [stopped]: quit is closed.
    [done]: the loop has been left.  [closed]: dequeueNotification is closed.
    [panicked]: the Go code would have panicked ([notifications[0]] on an empty
    slice).  [sent], [rcvd]: ghost histories.

    The step function is parameterised by a [shape]: the facts the source
    reader (harness/cmd/extract-c18 -> Generated/QueueSites.v) establishes
    about each of the two loops.  Every theorem is about [canonical]; that
    both loops have this shape is Properties/C18.v's [C18_slice_code_shape].
    The other values of each field have a definite meaning (the slip it
    stands for) so that Properties/C18.v can show, by a concrete run per
    field, that the conclusion FAILS when the fact does not hold. *)
From Verif Require Import Base.Prelude.

(** A notification.  [NilNtfn] is the nil interface value (what [next] holds
    before the first enqueue).  [Connected h] is a [BlockConnected] of height
    [h] (the only kind the loop looks into); [Other v] any other kind. *)
Inductive ntfn := NilNtfn | Connected (h : N) | Other (v : N).

Record shape := Shape {
  enq_tail : bool;     (* true: notifications = append(notifications, n)
                          false: the new element is put in FRONT *)
  enq_arms : bool;     (* true: if len(notifications) == 0 { next = n; dequeue = out }
                                evaluated BEFORE the append
                          false: that block is missing *)
  deq_shift_first : bool;
                       (* true: notifications = notifications[1:], THEN
                                if len != 0 { next = notifications[0] }
                          false: next is refreshed from index 0 BEFORE the shift
                                (= the element just delivered) *)
  deq_disarms : bool;  (* true: the empty branch sets dequeue = nil; false: it does not *)
  deq_tracks_bs : bool;(* true: `if n, ok := next.(BlockConnected); ok { bs = .. }` is the first
                                statement of the send case (it reads the element just delivered)
                          false: the best-block bookkeeping is missing *)
  sel_quit : bool;     (* the select has the case <-quit: break out *)
  exit_closes : bool   (* close(dequeueNotification) follows the loop *)
}.

Definition canonical : shape := Shape true true true true true true true.

Record state := St {
  pend : list ntfn;
  nxt : ntfn;
  armed : bool;
  inopen : bool;
  inclosed : bool;
  bs : N;
  stopped : bool;
  done : bool;
  closed : bool;
  panicked : bool;
  sent : list ntfn;
  rcvd : list ntfn }.

(** [b0]: height of the backend's best block when the handler starts. *)
Definition init (b0 : N) : state :=
  St [] NilNtfn false true false b0 false false false false [] [].

Inductive label :=
| Send (x : ntfn)  (* producer: enqueueNotification <- x has completed          *)
| Recv             (* consumer: <-Notifications() delivered a value              *)
| ReadBS           (* BlockStamp(): <-currentBlock has completed                 *)
| Stop             (* close(quit)                                                *)
| CloseIn          (* close(enqueueNotification)  (never done by the repository) *)
| SeeClosed        (* consumer: <-Notifications() returned !ok                   *)
| WQuit            (* worker: case <-quit: break out                             *)
| WInClosed.       (* worker: case n, ok := <-enqueue with !ok                   *)

(** Leaving the loop: c.Stop(); close(dequeueNotification) [if the shape has
    it]; wg.Done(). *)
Definition leave (sh : shape) (s : state) : state :=
  St (pend s) (nxt s) (armed s) (inopen s) (inclosed s) (bs s)
     true true (exit_closes sh) (panicked s) (sent s) (rcvd s).

Definition crash (s : state) : state :=
  St (pend s) (nxt s) (armed s) (inopen s) (inclosed s) (bs s)
     (stopped s) true (closed s) true (sent s) (rcvd s).

Definition hd_ntfn (l : list ntfn) : ntfn := match l with x :: _ => x | [] => NilNtfn end.

Definition step (sh : shape) (s : state) (l : label) : option state :=
  match l with
  | Send x =>
      (* the receive case of an open, non-nil enqueue channel *)
      if done s || negb (inopen s) || inclosed s then None else
      let fire := match pend s with [] => enq_arms sh | _ :: _ => false end in
      Some (St (if enq_tail sh then pend s ++ [x] else x :: pend s)
               (if fire then x else nxt s)
               (if fire then true else armed s)
               (inopen s) (inclosed s) (bs s) (stopped s) (done s) (closed s) (panicked s)
               (sent s ++ [x]) (rcvd s))
  | Recv =>
      (* case dequeue <- next: enabled iff dequeue != nil *)
      if done s || negb (armed s) then None else
      let v := nxt s in
      let bs' := match v with
                 | Connected h => if deq_tracks_bs sh then h else bs s
                 | _ => bs s
                 end in
      match pend s with
      | [] =>
          (* notifications[0] = nil on an empty slice: index out of range *)
          Some (crash (St [] v (armed s) (inopen s) (inclosed s) bs' (stopped s) (done s)
                          (closed s) (panicked s) (sent s) (rcvd s ++ [v])))
      | h0 :: t =>
          let nx := if deq_shift_first sh
                    then (match t with [] => v | y :: _ => y end)
                    else (match t with [] => v | _ :: _ => h0 end) in
          let s1 := St t nx (armed s) (inopen s) (inclosed s) bs' (stopped s) (done s)
                       (closed s) (panicked s) (sent s) (rcvd s ++ [v]) in
          match t with
          | _ :: _ => Some s1
          | [] =>
              if negb (inopen s) then Some (leave sh s1)
              else Some (St t nx (if deq_disarms sh then false else armed s) (inopen s) (inclosed s)
                            bs' (stopped s) (done s) (closed s) (panicked s) (sent s) (rcvd s ++ [v]))
          end
      end
  | ReadBS => if done s then None else Some s
  | Stop =>
      if stopped s then None
      else Some (St (pend s) (nxt s) (armed s) (inopen s) (inclosed s) (bs s)
                    true (done s) (closed s) (panicked s) (sent s) (rcvd s))
  | CloseIn =>
      if inclosed s then None
      else Some (St (pend s) (nxt s) (armed s) (inopen s) true (bs s)
                    (stopped s) (done s) (closed s) (panicked s) (sent s) (rcvd s))
  | SeeClosed => if closed s then Some s else None
  | WQuit =>
      if stopped s && negb (done s) && sel_quit sh then Some (leave sh s) else None
  | WInClosed =>
      if done s || negb (inopen s) || negb (inclosed s) then None else
      match pend s with
      | [] => Some (leave sh s)
      | _ :: _ => Some (St (pend s) (nxt s) (armed s) false (inclosed s) (bs s)
                           (stopped s) (done s) (closed s) (panicked s) (sent s) (rcvd s))
      end
  end.

Fixpoint run (sh : shape) (s : state) (ls : list label) : option state :=
  match ls with
  | [] => Some s
  | l :: r => match step sh s l with Some s' => run sh s' r | None => None end
  end.

Definition reachable (sh : shape) (b0 : N) (s : state) : Prop :=
  exists ls, run sh (init b0) ls = Some s.

Definition is_worker (l : label) : bool :=
  match l with WQuit | WInClosed => true | _ => false end.

Definition sends_of (ls : list label) : list ntfn :=
  flat_map (fun l => match l with Send x => [x] | _ => [] end) ls.

Definition is_send (l : label) : bool := match l with Send _ => true | _ => false end.
Definition is_recv (l : label) : bool := match l with Recv => true | _ => false end.

(** The value the next [Recv] delivers, if it is enabled. *)
Definition recv_val (s : state) : option ntfn :=
  if done s || negb (armed s) then None else Some (nxt s).

(** Best-block bookkeeping: height of the last [Connected] among [l], else [b]. *)
Fixpoint last_connected (b : N) (l : list ntfn) : N :=
  match l with
  | [] => b
  | Connected h :: r => last_connected h r
  | _ :: r => last_connected b r
  end.
