(** Proofs about the transition system of Queue/Queue.v (property C18).
    Everything is proved for every [cfg] (all capacities of chanIn and chanOut,
    zero included) and every schedule (= every list of labels that [run]
    accepts from [init]); no bound on burst lengths. *)
From Verif Require Import Base.Prelude Queue.Queue Queue.QueueCorr.

Local Arguments step : simpl never.

(** * Invariant *)

Record Inv (c : cfg) (s : state) : Prop := {
  inv_cons : rcvd s ++ pending s = sent s;
  inv_hold : hold s <> None -> ovf s = [];
  inv_out : length (out s) <= cout c;
  inv_in : length (chin s) <= cin c;
  inv_done : done s = true -> stopped s = true }.

Ltac break_step H :=
  repeat match type of H with
  | None = Some _ => discriminate H
  | context [if ?b then _ else _] => let E := fresh "E" in destruct b eqn:E
  | context [match ?x with _ => _ end] => let E := fresh "E" in destruct x eqn:E
  | Some _ = Some _ => inv H
  end.

Ltac lists :=
  simpl; repeat rewrite app_nil_r; repeat rewrite <- app_assoc; simpl; try reflexivity.

Ltac open_step H :=
  unfold step, take, idle, room in H; simpl in H; break_step H.

Lemma length_zero_nil {A} (l : list A) : length l <= 0 -> l = [].
Proof. destruct l; simpl; [reflexivity | lia]. Qed.

Lemma Inv_init c : Inv c init.
Proof. constructor; simpl; auto; try lia; discriminate. Qed.

Lemma step_Inv c s l s' : Inv c s -> step c s l = Some s' -> Inv c s'.
Proof.
  intros [Hc Hh Ho Hi Hd] H.
  destruct s as [ci o ov h st d se rc]. unfold pending in *. simpl in *.
  destruct h as [hx|], d; destruct l; open_step H; simpl in *;
    try (assert (ci = []) by (apply length_zero_nil; lia); subst ci);
    try (assert (o = []) by (apply length_zero_nil; lia); subst o);
    try (assert (ov = []) by (apply Hh; discriminate); subst ov);
    constructor; unfold pending; simpl; try subst se;
    try solve [ lists
              | intros; try discriminate; try reflexivity; auto
              | intro HH; exfalso; apply HH; reflexivity
              | rewrite ?app_length; simpl in *; lia
              | auto ].
Qed.

Lemma run_Inv c ls : forall s s', Inv c s -> run c s ls = Some s' -> Inv c s'.
Proof.
  induction ls as [|l ls IH]; simpl; intros s s' HI H.
  - inv H. exact HI.
  - destruct (step c s l) as [s1|] eqn:E; [|discriminate].
    eapply IH; [eapply step_Inv; eauto | exact H].
Qed.

Lemma reachable_Inv c s : reachable c s -> Inv c s.
Proof. intros [ls H]. eapply run_Inv; [apply Inv_init | exact H]. Qed.

Lemma run_app c l1 : forall s l2,
  run c s (l1 ++ l2) = match run c s l1 with Some s' => run c s' l2 | None => None end.
Proof.
  induction l1 as [|l l1 IH]; simpl; intros s l2; [reflexivity|].
  destruct (step c s l); [apply IH | reflexivity].
Qed.

Lemma reachable_run c s ls s' : reachable c s -> run c s ls = Some s' -> reachable c s'.
Proof.
  intros [l0 H0] H. exists (l0 ++ ls). rewrite run_app, H0. exact H.
Qed.

Lemma reachable_init c : reachable c init.
Proof. exists []. reflexivity. Qed.

(** * (a) conservation and order *)

Theorem conservation c ls s :
  run c init ls = Some s ->
  rcvd s ++ out s ++ ovf s ++ opt_list (hold s) ++ chin s = sent s.
Proof. intro H. exact (inv_cons _ _ (run_Inv _ _ _ _ (Inv_init c) H)). Qed.

Theorem received_prefix c ls s :
  run c init ls = Some s -> exists rest, sent s = rcvd s ++ rest.
Proof. intro H. exists (pending s). symmetry. exact (conservation c ls s H). Qed.

Theorem drained_exact c ls s :
  run c init ls = Some s ->
  out s = [] -> ovf s = [] -> hold s = None -> chin s = [] -> rcvd s = sent s.
Proof.
  intros H Ho Hv Hh Hi. pose proof (conservation c ls s H) as E.
  rewrite Ho, Hv, Hh, Hi in E. simpl in E. rewrite app_nil_r in E. exact E.
Qed.

(** The ghost histories are what the labels say: [sent] is the sequence of
    [Send] labels of the schedule, and every [Recv] appends exactly the value
    [recv_val] announces. *)
Lemma step_sent c s l s' :
  step c s l = Some s' ->
  sent s' = sent s ++ match l with Send x => [x] | _ => [] end.
Proof.
  intro H. destruct s as [ci o ov h st d se rc].
  destruct l; open_step H; simpl; rewrite ?app_nil_r; reflexivity.
Qed.

Lemma run_sent c ls : forall s s', run c s ls = Some s' -> sent s' = sent s ++ sends_of ls.
Proof.
  induction ls as [|l ls IH]; simpl; intros s s' H.
  - inv H. rewrite app_nil_r. reflexivity.
  - destruct (step c s l) as [s1|] eqn:E; [|discriminate].
    rewrite (IH _ _ H), (step_sent _ _ _ _ E), <- app_assoc. reflexivity.
Qed.

Theorem sent_is_schedule c ls s : run c init ls = Some s -> sent s = sends_of ls.
Proof. intro H. exact (run_sent c ls init s H). Qed.

Lemma step_rcvd c s l s' :
  step c s l = Some s' ->
  match l with
  | Recv => exists v, recv_val c s = Some v /\ rcvd s' = rcvd s ++ [v]
  | _ => rcvd s' = rcvd s
  end.
Proof.
  intro H. destruct s as [ci o ov h st d se rc]. unfold recv_val.
  destruct l; open_step H; simpl; try reflexivity; eexists; split; reflexivity.
Qed.

Lemma NoDup_app_l {A} (l1 l2 : list A) : NoDup (l1 ++ l2) -> NoDup l1.
Proof.
  induction l1 as [|a l1 IH]; simpl; intro H; [constructor|].
  inv H. constructor; [|apply IH; assumption].
  intro Hin. apply H2. apply in_or_app. left. exact Hin.
Qed.

Theorem no_duplication c ls s :
  run c init ls = Some s -> NoDup (sent s) -> NoDup (rcvd s).
Proof.
  intros H ND. destruct (received_prefix c ls s H) as [rest E].
  rewrite E in ND. eapply NoDup_app_l. exact ND.
Qed.

(** * (b) the producer is never blocked by a slow consumer *)

Definition send_enabled (c : cfg) (s : state) : Prop := forall x, step c s (Send x) <> None.

Definition running (s : state) : Prop := done s = false /\ stopped s = false.

(** At the inner select one intake step is enabled without the consumer. *)
Lemma inner_select_progress c s x :
  running s -> hold s = Some x ->
  exists l s', is_intake l = true /\ step c s l = Some s' /\
    hold s' = None /\ running s' /\ chin s' = chin s.
Proof.
  intros [Hd Hs] Hh. destruct s as [ci o ov h st d se rc]. simpl in *. subst.
  destruct (room c (St ci o ov (Some x) false false se rc)) eqn:R.
  - exists WDirect. eexists. split; [reflexivity|]. unfold step. simpl. rewrite R.
    split; [reflexivity|]. simpl. repeat split.
  - exists WDefault. eexists. split; [reflexivity|]. unfold step. simpl. rewrite R.
    split; [reflexivity|]. simpl. repeat split.
Qed.

Lemma idle_send_enabled_unbuffered c s :
  cin c = 0 -> done s = false -> hold s = None -> send_enabled c s.
Proof.
  intros Hc Hd Hh x. unfold step, idle. rewrite Hc, Hd, Hh. simpl. discriminate.
Qed.

Lemma room_send_enabled_buffered c s :
  cin c <> 0 -> length (chin s) < cin c -> send_enabled c s.
Proof.
  intros Hc Hl x. unfold step.
  destruct (cin c =? 0) eqn:E; [lia|].
  destruct (length (chin s) <? cin c) eqn:E2; [discriminate | lia].
Qed.

Lemma wrecv_frees_slot c s :
  cin c <> 0 -> done s = false -> hold s = None -> length (chin s) = cin c ->
  Inv c s ->
  exists s', step c s WRecv = Some s' /\ length (chin s') < cin c /\
             done s' = done s /\ stopped s' = stopped s.
Proof.
  intros Hc Hd Hh Hl HI. destruct s as [ci o ov h st d se rc]. simpl in *. subst.
  unfold step, idle, take. simpl.
  destruct (cin c =? 0) eqn:E; [lia|].
  destruct ci as [|y r]; [simpl in *; lia|].
  destruct ov; eexists; (split; [reflexivity|]); simpl in *; repeat split; lia.
Qed.

Theorem producer_never_blocked c s :
  reachable c s -> running s ->
  exists ls s', length ls <= 2 /\ forallb is_intake ls = true /\
    run c s ls = Some s' /\ send_enabled c s' /\ running s'.
Proof.
  intros HR Hrun. pose proof (reachable_Inv c s HR) as HI.
  destruct (Nat.eq_dec (cin c) 0) as [Hc|Hc].
  - (* unbuffered chanIn: the code as it is *)
    destruct (hold s) as [x|] eqn:Hh.
    + destruct (inner_select_progress c s x Hrun Hh) as (l & s' & Hl & Hst & Hh' & Hr' & _).
      exists [l], s'. simpl. rewrite Hl, Hst. repeat split; auto; try apply Hr'.
      apply idle_send_enabled_unbuffered; auto. apply Hr'.
    + exists [], s. simpl. repeat split; auto; try apply Hrun.
      apply idle_send_enabled_unbuffered; auto. apply Hrun.
  - (* buffered chanIn *)
    destruct (Nat.eq_dec (length (chin s)) (cin c)) as [Hfull|Hnf].
    + destruct (hold s) as [x|] eqn:Hh.
      * destruct (inner_select_progress c s x Hrun Hh) as (l & s1 & Hl & Hst & Hh1 & Hr1 & Hci).
        assert (HI1 : Inv c s1) by (eapply step_Inv; eauto).
        destruct (wrecv_frees_slot c s1 Hc (proj1 Hr1) Hh1) as (s2 & Hst2 & Hlt & Hd2 & Hs2);
          [rewrite Hci; exact Hfull | exact HI1 |].
        exists [l; WRecv], s2. simpl. rewrite Hl, Hst, Hst2. repeat split; auto.
        -- apply room_send_enabled_buffered; auto.
        -- rewrite Hd2. apply Hr1.
        -- rewrite Hs2. apply Hr1.
      * destruct (wrecv_frees_slot c s Hc (proj1 Hrun) Hh Hfull HI) as (s2 & Hst2 & Hlt & Hd2 & Hs2).
        exists [WRecv], s2. simpl. rewrite Hst2. repeat split; auto.
        -- apply room_send_enabled_buffered; auto.
        -- rewrite Hd2. apply Hrun.
        -- rewrite Hs2. apply Hrun.
    + exists [], s. simpl. repeat split; auto; try apply Hrun.
      apply room_send_enabled_buffered; auto. pose proof (inv_in _ _ HI). lia.
Qed.

(** A [Send] keeps the queue running. *)
Lemma send_keeps_running c s x s' : step c s (Send x) = Some s' -> running s -> running s'.
Proof.
  intros H [Hd Hs]. destruct s as [ci o ov h st d se rc]. simpl in *. subst.
  open_step H; split; reflexivity.
Qed.

Definition is_send_or_intake (l : label) : bool :=
  match l with Send _ => true | _ => is_intake l end.

Lemma forallb_intake_weaken ls :
  forallb is_intake ls = true -> forallb is_send_or_intake ls = true.
Proof.
  induction ls as [|l ls IH]; simpl; [reflexivity|].
  intro H. apply andb_true_iff in H. destruct H as [H1 H2].
  rewrite (IH H2). destruct l; simpl in *; try discriminate; reflexivity.
Qed.

Lemma sends_of_app l1 l2 : sends_of (l1 ++ l2) = sends_of l1 ++ sends_of l2.
Proof. unfold sends_of. apply flat_map_app. Qed.

Lemma sends_of_intake ls : forallb is_intake ls = true -> sends_of ls = [].
Proof.
  induction ls as [|l ls IH]; simpl; [reflexivity|].
  intro H. apply andb_true_iff in H. destruct H as [H1 H2].
  rewrite (IH H2). destruct l; simpl in *; try discriminate; reflexivity.
Qed.

(** Any burst, of any length, is accepted with no consumer step at all. *)
Theorem burst_without_consumer c xs : forall s,
  reachable c s -> running s ->
  exists ls s', run c s ls = Some s' /\ sends_of ls = xs /\
    forallb is_send_or_intake ls = true /\ running s'.
Proof.
  induction xs as [|x xs IH]; intros s HR Hrun.
  - exists [], s. simpl. repeat split; auto; apply Hrun.
  - destruct (producer_never_blocked c s HR Hrun) as (l1 & s1 & _ & Hint & Hrun1 & Hen & Hr1).
    destruct (step c s1 (Send x)) as [s2|] eqn:Hsend; [|exfalso; exact (Hen x Hsend)].
    assert (HR2 : reachable c s2).
    { eapply reachable_run; [exact HR|]. instantiate (1 := l1 ++ [Send x]).
      rewrite run_app, Hrun1. simpl. rewrite Hsend. reflexivity. }
    destruct (IH s2 HR2 (send_keeps_running _ _ _ _ Hsend Hr1)) as (l3 & s3 & Hrun3 & Hs3 & Hf3 & Hr3).
    exists (l1 ++ Send x :: l3), s3. repeat split; try apply Hr3.
    + rewrite run_app, Hrun1. simpl. rewrite Hsend. exact Hrun3.
    + rewrite sends_of_app. simpl. rewrite (sends_of_intake _ Hint), Hs3. reflexivity.
    + rewrite forallb_app. simpl. rewrite (forallb_intake_weaken _ Hint), Hf3. reflexivity.
Qed.

Lemma step_rcvd_nonrecv c s l s' :
  step c s l = Some s' -> is_send_or_intake l = true -> rcvd s' = rcvd s.
Proof.
  intros H Hl. pose proof (step_rcvd c s l s' H) as R.
  destruct l; simpl in Hl; try discriminate; exact R.
Qed.

Lemma run_rcvd_nonrecv c ls : forall s s',
  run c s ls = Some s' -> forallb is_send_or_intake ls = true -> rcvd s' = rcvd s.
Proof.
  induction ls as [|l ls IH]; simpl; intros s s' H Hf.
  - inv H. reflexivity.
  - apply andb_true_iff in Hf. destruct Hf as [H1 H2].
    destruct (step c s l) as [s1|] eqn:E; [|discriminate].
    rewrite (IH _ _ H H2). eapply step_rcvd_nonrecv; eauto.
Qed.

Corollary burst_from_init c xs :
  exists ls s', run c init ls = Some s' /\ forallb is_send_or_intake ls = true /\
    sent s' = xs /\ rcvd s' = [] /\ pending s' = xs /\ running s'.
Proof.
  destruct (burst_without_consumer c xs init (reachable_init c)) as (ls & s' & Hrun & Hs & Hf & Hr);
    [split; reflexivity|].
  exists ls, s'. pose proof (sent_is_schedule c ls s' Hrun) as Hsent.
  pose proof (run_rcvd_nonrecv c ls init s' Hrun Hf) as Hrc. simpl in Hrc.
  pose proof (inv_cons _ _ (run_Inv _ _ _ _ (Inv_init c) Hrun)) as Hc.
  rewrite Hrc in Hc. simpl in Hc.
  repeat split; auto; try apply Hr; congruence.
Qed.

(** * Draining is always possible while the worker lives *)

Lemma forward_decreases c s l s' :
  step c s l = Some s' -> is_forward l = true -> weight s' < weight s.
Proof.
  intros H Hl. destruct s as [ci o ov h st d se rc]. unfold weight.
  destruct l; simpl in Hl; try discriminate; open_step H; simpl;
    rewrite ?app_length; simpl; lia.
Qed.

Lemma forward_keeps c s l s' :
  step c s l = Some s' -> is_forward l = true ->
  sent s' = sent s /\ done s' = done s /\ stopped s' = stopped s.
Proof.
  intros H Hl. destruct s as [ci o ov h st d se rc].
  destruct l; simpl in Hl; try discriminate; open_step H; simpl; repeat split.
Qed.

Lemma forward_progress c s :
  Inv c s -> done s = false -> 0 < weight s ->
  exists l s', is_forward l = true /\ step c s l = Some s'.
Proof.
  intros [Hc Hh Ho Hi Hd] Hdn Hw.
  destruct s as [ci o ov h st d se rc]. unfold weight in Hw. simpl in *. subst d.
  destruct (cout c =? 0) eqn:Ec.
  - (* unbuffered chanOut *)
    assert (o = []) by (apply length_zero_nil; lia). subst o.
    destruct h as [x|].
    + exists Recv. eexists. split; [reflexivity|]. unfold step. simpl. rewrite Ec. reflexivity.
    + destruct ov as [|hd tl].
      * destruct ci as [|y r]; [simpl in Hw; lia|].
        exists WRecv. eexists. split; [reflexivity|]. unfold step, idle. simpl.
        destruct (cin c =? 0) eqn:Ei; [simpl in Hi; lia|]. reflexivity.
      * exists Recv. eexists. split; [reflexivity|]. unfold step. simpl. rewrite Ec. reflexivity.
  - destruct (room c (St ci o ov h st false se rc)) eqn:R.
    + destruct h as [x|].
      * exists WDirect. eexists. split; [reflexivity|]. unfold step. simpl. rewrite R. reflexivity.
      * destruct ov as [|hd tl].
        -- destruct o as [|y r].
           ++ destruct ci as [|z r]; [simpl in Hw; lia|].
              exists WRecv. eexists. split; [reflexivity|]. unfold step, idle. simpl.
              destruct (cin c =? 0) eqn:Ei; [simpl in Hi; lia|]. reflexivity.
           ++ exists Recv. eexists. split; [reflexivity|]. unfold step. simpl. rewrite Ec. reflexivity.
        -- exists WMove. eexists. split; [reflexivity|]. unfold step, idle. simpl. rewrite R. reflexivity.
    + (* chanOut full, hence non-empty *)
      unfold room in R. simpl in R.
      destruct o as [|y r]; [simpl in R; lia|].
      exists Recv. eexists. split; [reflexivity|]. unfold step. simpl. rewrite Ec. reflexivity.
Qed.

Lemma weight_zero_pending s : weight s = 0 -> pending s = [].
Proof.
  destruct s as [ci o ov h st d se rc]. unfold weight, pending. simpl.
  destruct ci, o, ov, h; simpl; try lia. reflexivity.
Qed.

Theorem drain_possible c s :
  reachable c s -> done s = false ->
  exists ls s', forallb is_forward ls = true /\ run c s ls = Some s' /\
    pending s' = [] /\ sent s' = sent s /\ rcvd s' = sent s.
Proof.
  intros HR. pose proof (reachable_Inv c s HR) as HI. clear HR.
  remember (weight s) as n eqn:Hn. revert s HI Hn.
  induction n as [n IH] using lt_wf_ind. intros s HI Hn Hd.
  destruct (Nat.eq_dec n 0) as [Hz|Hnz].
  - exists [], s. subst n. pose proof (weight_zero_pending s Hz) as Hp.
    simpl. repeat split; auto.
    pose proof (inv_cons _ _ HI) as E. rewrite Hp, app_nil_r in E. exact E.
  - destruct (forward_progress c s HI Hd) as (l & s1 & Hl & Hst); [lia|].
    pose proof (forward_decreases _ _ _ _ Hst Hl) as Hlt.
    destruct (forward_keeps _ _ _ _ Hst Hl) as (Hse & Hdn & _).
    destruct (IH (weight s1) ltac:(lia) s1 (step_Inv _ _ _ _ HI Hst) eq_refl ltac:(congruence))
      as (ls & s2 & Hf & Hrun & Hp & Hs2 & Hr2).
    exists (l :: ls), s2. simpl. rewrite Hl, Hf, Hst. repeat split; auto; congruence.
Qed.

(** * (c) stop *)

(** quit is a case of every select the live worker can be at. *)
Theorem quit_enabled c s :
  stopped s = true -> done s = false ->
  exists s', step c s WQuit = Some s' /\ done s' = true.
Proof.
  intros Hs Hd. unfold step. rewrite Hs, Hd. simpl. eexists. split; reflexivity.
Qed.

(** A terminated worker takes no further step and stays terminated. *)
Theorem done_final c s l s' :
  done s = true -> step c s l = Some s' -> is_worker l = false /\ done s' = true.
Proof.
  intros Hd H. destruct s as [ci o ov h st d se rc]. simpl in Hd. subst d.
  destruct l; open_step H; simpl in *; rewrite ?andb_false_r in *;
    try discriminate; split; reflexivity.
Qed.

Lemma stopped_stable c s l s' : stopped s = true -> step c s l = Some s' -> stopped s' = true.
Proof.
  intros Hd H. destruct s as [ci o ov h st d se rc]. simpl in Hd. subst st.
  destruct l; open_step H; simpl in *; try discriminate; reflexivity.
Qed.

Lemma run_stopped_stable c ls : forall s s',
  stopped s = true -> run c s ls = Some s' -> stopped s' = true.
Proof.
  induction ls as [|l ls IH]; simpl; intros s s' Hs H.
  - inv H. exact Hs.
  - destruct (step c s l) as [s1|] eqn:E; [|discriminate].
    eapply IH; [eapply stopped_stable; eauto | exact H].
Qed.

(** [Stop] only sets the flag. *)
Lemma stop_step c s s' :
  step c s Stop = Some s' ->
  stopped s = false /\ stopped s' = true /\ done s' = done s /\
  pending s' = pending s /\ sent s' = sent s /\ rcvd s' = rcvd s.
Proof.
  intro H. destruct s as [ci o ov h st d se rc]. open_step H. simpl. repeat split.
Qed.

(** Worker-only activity is bounded: each worker step decreases
    [weight + (1 if the worker is alive)]. *)
Definition wmeasure (s : state) : nat := weight s + (if done s then 0 else 1).

Lemma worker_step_decreases c s l s' :
  step c s l = Some s' -> is_worker l = true -> wmeasure s' < wmeasure s.
Proof.
  intros H Hl. destruct s as [ci o ov h st d se rc]. unfold wmeasure, weight.
  destruct l; simpl in Hl; try discriminate; open_step H; simpl in *;
    rewrite ?app_length; simpl; try lia.
  all: destruct d; simpl in *; try discriminate; lia.
Qed.

Lemma worker_runs_bounded c ls : forall s s',
  forallb is_worker ls = true -> run c s ls = Some s' ->
  length ls + wmeasure s' <= wmeasure s.
Proof.
  induction ls as [|l ls IH]; simpl; intros s s' Hf H.
  - inv H. lia.
  - apply andb_true_iff in Hf. destruct Hf as [H1 H2].
    destruct (step c s l) as [s1|] eqn:E; [|discriminate].
    pose proof (worker_step_decreases _ _ _ _ E H1). pose proof (IH _ _ H2 H). lia.
Qed.

(** After stop: as long as the worker is alive its quit case is enabled and
    taking it terminates the worker; every run of worker steps alone is
    bounded by [weight s + 1]; and a worker-only run that cannot be extended
    has terminated.  What is NOT proved (hence the name): that the Go
    scheduler / the random choice of [select] actually takes the quit case
    while a producer keeps sending - that needs a fairness assumption. *)
Theorem stop_terminates_partial c s :
  stopped s = true ->
  (done s = false -> exists s', step c s WQuit = Some s' /\ done s' = true) /\
  (forall ls s', forallb is_worker ls = true -> run c s ls = Some s' ->
     length ls <= weight s + 1 /\ stopped s' = true /\
     ((forall l, is_worker l = true -> step c s' l = None) -> done s' = true)).
Proof.
  intro Hs. split.
  - intro Hd. exact (quit_enabled c s Hs Hd).
  - intros ls s' Hf Hrun.
    pose proof (worker_runs_bounded c ls s s' Hf Hrun) as Hb.
    pose proof (run_stopped_stable c ls s s' Hs Hrun) as Hs'.
    repeat split.
    + unfold wmeasure in Hb. destruct (done s), (done s'); lia.
    + exact Hs'.
    + intro Hstuck. destruct (done s') eqn:Hd; [reflexivity|].
      destruct (quit_enabled c s' Hs' Hd) as (s2 & Hq & _).
      rewrite (Hstuck WQuit eq_refl) in Hq. discriminate.
Qed.

(** * The correspondence checker accepts only external projections of runs *)

Definition ext_sends (es : list ext) : list item :=
  flat_map (fun e => match e with ESend x => [x] | _ => [] end) es.
Definition ext_recvs (es : list ext) : list item :=
  flat_map (fun e => match e with ERecv y => [y] | _ => [] end) es.

Lemma list_eqb_eq {A} (f : A -> A -> bool) :
  (forall a b, f a b = true -> a = b) ->
  forall l1 l2, list_eqb f l1 l2 = true -> l1 = l2.
Proof.
  intros Hf. induction l1 as [|a l1 IH]; destruct l2 as [|b l2]; simpl; intro H;
    try discriminate; [reflexivity|].
  apply andb_true_iff in H. destruct H as [H1 H2].
  rewrite (Hf _ _ H1), (IH _ H2). reflexivity.
Qed.

Lemma ext_eqb_eq a b : ext_eqb a b = true -> a = b.
Proof.
  destruct a, b; simpl; intro H; try discriminate; try reflexivity;
    apply N.eqb_eq in H; subst; reflexivity.
Qed.

Lemma observe_hist c ls : forall s es,
  observe c s ls = Some es ->
  exists s', run c s ls = Some s' /\
    sent s' = sent s ++ ext_sends es /\ rcvd s' = rcvd s ++ ext_recvs es.
Proof.
  induction ls as [|l ls IH]; simpl; intros s es H.
  - inv H. exists s. simpl. rewrite !app_nil_r. repeat split.
  - destruct (step c s l) as [s1|] eqn:E; [|discriminate].
    destruct (observe c s1 ls) as [es1|] eqn:O; [|discriminate].
    destruct (IH s1 es1 O) as (s' & Hrun & Hs & Hr).
    pose proof (step_sent _ _ _ _ E) as Ss. pose proof (step_rcvd _ _ _ _ E) as Sr.
    exists s'. split; [exact Hrun|].
    destruct l; try (inv H; rewrite Hs, Hr, Ss, Sr, ?app_nil_r; split; reflexivity).
    + (* Send *) inv H. simpl. rewrite Hs, Hr, Ss, Sr, <- app_assoc. split; reflexivity.
    + (* Recv *) destruct Sr as (v & Hv & Sr). rewrite Hv in H. inv H. simpl.
      rewrite Hs, Hr, Ss, Sr, app_nil_r, <- app_assoc. split; reflexivity.
Qed.

Theorem accepted_is_model_run c script :
  model_accepts c script = true ->
  exists ls s, run c init ls = Some s /\ observe c init ls = Some script /\
    sent s = ext_sends script /\ rcvd s = ext_recvs script /\
    exists rest, ext_sends script = ext_recvs script ++ rest.
Proof.
  unfold model_accepts. intro H.
  destruct (search c script) as [ls|]; [|discriminate].
  destruct (observe c init ls) as [es|] eqn:O; [|discriminate].
  apply (list_eqb_eq ext_eqb ext_eqb_eq) in H. subst es.
  destruct (observe_hist c ls init script O) as (s & Hrun & Hs & Hr). simpl in Hs, Hr.
  exists ls, s. repeat split; auto.
  destruct (received_prefix c ls s Hrun) as [rest E]. exists rest. congruence.
Qed.
