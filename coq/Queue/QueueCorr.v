(** Executable correspondence check of C18.

    A case is (bufferSize, script): the externally visible actions the harness
    performed on the real [chain.ConcurrentQueue], in the order it performed
    them - [ESend x] (a send into ChanIn completed), [ERecv y] (a receive from
    ChanOut delivered [y]), [EStop] ([Stop] returned).  The worker's steps are
    hidden, so [search] explores the model: after every external action it
    closes the set of candidate states under the worker's internal steps
    (deduplicated on the configuration) and keeps, with every candidate, the
    schedule that led to it.  A case is accepted iff

      - [search] finds a schedule, and REPLAYING that schedule with [run]
        (through [observe]) from [init] reproduces the script exactly - so an
        accepted script is, by evaluation, the external projection of a run of
        the model (the search itself need not be trusted), and
      - the property oracle holds on the script: every received value is the
        oldest value sent and not yet received (received = prefix of sent).

    The model instance is the code's: [code_cfg bufferSize] (chanIn unbuffered). *)
From Verif Require Import Base.Prelude Queue.Queue.

Inductive ext := ESend (x : item) | ERecv (y : item) | EStop.

Definition ext_eqb (a b : ext) : bool :=
  match a, b with
  | ESend x, ESend y | ERecv x, ERecv y => N.eqb x y
  | EStop, EStop => true
  | _, _ => false
  end.

Fixpoint list_eqb {A} (f : A -> A -> bool) (a b : list A) : bool :=
  match a, b with
  | [], [] => true
  | x :: a', y :: b' => f x y && list_eqb f a' b'
  | _, _ => false
  end.

Definition opt_eqb (a b : option item) : bool :=
  match a, b with
  | Some x, Some y => N.eqb x y
  | None, None => true
  | _, _ => false
  end.

(** Same configuration (the ghost histories are determined by the script). *)
Definition same_config (a b : state) : bool :=
  Bool.eqb (stopped a) (stopped b) && Bool.eqb (done a) (done b) &&
  opt_eqb (hold a) (hold b) &&
  list_eqb N.eqb (out a) (out b) && list_eqb N.eqb (ovf a) (ovf b) &&
  list_eqb N.eqb (chin a) (chin b).

Fixpoint omap {A B} (f : A -> option B) (l : list A) : list B :=
  match l with
  | [] => []
  | x :: r => match f x with Some y => y :: omap f r | None => omap f r end
  end.

Definition internal : list label := [WRecv; WDirect; WDefault; WMove; WQuit].

(** A candidate: a model state and the schedule (reversed) that produced it. *)
Definition cand := (state * list label)%type.

Definition succ (c : cfg) (k : cand) (l : label) : option cand :=
  match step c (fst k) l with Some s' => Some (s', l :: snd k) | None => None end.

(** Closure under internal steps; [None] = out of fuel (reported as failure). *)
Fixpoint closure (fuel : nat) (c : cfg) (todo seen : list cand) : option (list cand) :=
  match todo with
  | [] => Some seen
  | k :: rest =>
      match fuel with
      | 0 => None
      | S f =>
          if existsb (fun k' => same_config (fst k) (fst k')) seen
          then closure f c rest seen
          else closure f c (omap (succ c k) internal ++ rest) (k :: seen)
      end
  end.

Definition ext_succ (c : cfg) (e : ext) (k : cand) : option cand :=
  match e with
  | ESend x => succ c k (Send x)
  | ERecv y =>
      match recv_val c (fst k) with
      | Some v => if N.eqb v y then succ c k Recv else None
      | None => None
      end
  | EStop => succ c k Stop
  end.

Definition fuel0 : nat := 200 * 100.

Fixpoint search_from (c : cfg) (cands : list cand) (script : list ext) : option (list label) :=
  match script with
  | [] => match cands with k :: _ => Some (rev (snd k)) | [] => None end
  | e :: r =>
      match closure fuel0 c (omap (ext_succ c e) cands) [] with
      | Some (k :: ks) => search_from c (k :: ks) r
      | _ => None
      end
  end.

Definition search (c : cfg) (script : list ext) : option (list label) :=
  match closure fuel0 c [(init, [])] [] with
  | Some cands => search_from c cands script
  | None => None
  end.

(** External projection of a schedule, obtained by replaying it with [step]. *)
Fixpoint observe (c : cfg) (s : state) (ls : list label) : option (list ext) :=
  match ls with
  | [] => Some []
  | l :: r =>
      match step c s l with
      | None => None
      | Some s' =>
          match observe c s' r with
          | None => None
          | Some es =>
              match l with
              | Send x => Some (ESend x :: es)
              | Recv => match recv_val c s with Some v => Some (ERecv v :: es) | None => None end
              | Stop => Some (EStop :: es)
              | _ => Some es
              end
          end
      end
  end.

(** The script is the external projection of a run of the model. *)
Definition model_accepts (c : cfg) (script : list ext) : bool :=
  match search c script with
  | Some ls =>
      match observe c init ls with
      | Some es => list_eqb ext_eqb es script
      | None => false
      end
  | None => false
  end.

(** Property oracle on the script alone: each receive delivers the oldest
    outstanding item (so the received sequence is always a prefix of the sent
    sequence: nothing lost in between, duplicated or reordered). *)
Fixpoint fifo_ok (outstanding : list item) (script : list ext) : bool :=
  match script with
  | [] => true
  | ESend x :: r => fifo_ok (outstanding ++ [x]) r
  | ERecv y :: r =>
      match outstanding with
      | p :: ps => N.eqb p y && fifo_ok ps r
      | [] => false
      end
  | EStop :: r => fifo_ok outstanding r
  end.

Definition oracle_ok (script : list ext) : bool := fifo_ok [] script.

(** case = (bufferSize, script). *)
Definition case_ok (k : nat * list ext) : bool :=
  let '(cap, script) := k in
  model_accepts (code_cfg cap) script && oracle_ok script.

Fixpoint mismatches_from {A} (f : A -> bool) (i : nat) (l : list A) : list nat :=
  match l with
  | [] => []
  | c :: l' => if f c then mismatches_from f (S i) l' else i :: mismatches_from f (S i) l'
  end.

Definition mismatches := mismatches_from case_ok 0.
