(** Model of chain/queue.go (ConcurrentQueue) as a labelled transition system.

    The Go code (chain/queue.go):

      chanIn  = make(chan interface{})               -- UNBUFFERED
      chanOut = make(chan interface{}, bufferSize)
      quit    = make(chan struct{});  overflow = list.New()

      Start: go func() { for {
          nextElement := overflow.Front()
          if nextElement == nil {
              select {                                  (* select A *)
              case item := <-chanIn:
                  select {                              (* inner, non-blocking *)
                  case chanOut <- item:
                  case <-quit:  return
                  default:      overflow.PushBack(item)
                  }
              case <-quit: return
              }
          } else {
              select {                                  (* select B *)
              case item := <-chanIn:              overflow.PushBack(item)
              case chanOut <- nextElement.Value:  overflow.Remove(nextElement)
              case <-quit: return
              }
          } } }()
      Stop: close(quit)

    The model is parametric in the capacities of BOTH channels ([cin], [cout]);
    the code that exists is the instance [code_cfg bufferSize] = (cin = 0,
    cout = bufferSize).  Capacity 0 means an unbuffered channel: a send and the
    matching receive are one rendezvous step.  All theorems are proved for
    every [cin] and every [cout], so they cover the code as it is and the
    variant in which chanIn is buffered too.

    State.  [chin], [out]: buffer contents of chanIn / chanOut (always [[]] for
    capacity 0).  [ovf]: the overflow list.  [hold]: [Some x] when the worker
    has received [x] in select A and is about to run the inner non-blocking
    select.  The worker's control point is determined by [done], [hold] and
    [ovf]:   done               -> the goroutine has returned
             hold = Some x      -> at the inner select, holding x
             hold = None, ovf = []      -> blocked in select A
             hold = None, ovf = h :: _  -> blocked in select B, nextElement = h
    ([overflow] is touched by the worker only, so the test at the loop head
    and the select the worker then blocks in always agree.)
    [stopped]: quit has been closed.  [sent], [rcvd]: ghost histories of the
    values that entered chanIn / left chanOut.

    Go semantics used: a select picks any ready case; [default] is taken only
    when no other case is ready; a receive from a closed channel is always
    ready; a buffered channel accepts a send iff it is not full.  For
    [cout = 0] the model does not track whether a consumer is parked on
    chanOut: [WDefault] (no consumer there) and the rendezvous [Recv] (a
    consumer is there) are both offered. *)
From Verif Require Import Base.Prelude.

Definition item := N.

Record cfg := Cfg { cin : nat; cout : nat }.

(** The configuration of the code as it exists: [NewConcurrentQueue(bufferSize)]. *)
Definition code_cfg (bufferSize : nat) : cfg := Cfg 0 bufferSize.

Record state := St {
  chin : list item;
  out : list item;
  ovf : list item;
  hold : option item;
  stopped : bool;
  done : bool;
  sent : list item;
  rcvd : list item }.

Definition init : state := St [] [] [] None false false [] [].

Inductive label :=
| Send (x : item)  (* producer: chanIn <- x has completed                       *)
| Recv             (* consumer: <-chanOut has completed                         *)
| Stop             (* close(quit)                                               *)
| WRecv            (* worker: case item := <-chanIn, buffered chanIn only       *)
| WDirect          (* worker, inner select: case chanOut <- item                *)
| WDefault         (* worker, inner select: default: overflow.PushBack(item)    *)
| WMove            (* worker, select B: case chanOut <- nextElement.Value; Remove *)
| WQuit.           (* worker: case <-quit: return  (select A, inner select, select B) *)

(** The worker is blocked in select A or select B. *)
Definition idle (s : state) : bool :=
  negb (done s) && match hold s with None => true | Some _ => false end.

(** chanOut (buffered) has room. Never true for [cout = 0]. *)
Definition room (c : cfg) (s : state) : bool := length (out s) <? cout c.

(** Effect of the case [item := <-chanIn] with value [x], in the select the
    worker is blocked in: select A keeps the item for the inner select,
    select B pushes it to the back of the overflow list. *)
Definition take (s : state) (x : item) : state :=
  match ovf s with
  | [] => St (chin s) (out s) [] (Some x) (stopped s) (done s) (sent s) (rcvd s)
  | _ :: _ => St (chin s) (out s) (ovf s ++ [x]) None (stopped s) (done s) (sent s) (rcvd s)
  end.

Definition step (c : cfg) (s : state) (l : label) : option state :=
  match l with
  | Send x =>
      if cin c =? 0 then
        (* unbuffered chanIn: the send completes iff the worker is in a select
           (both blocking selects have the case <-chanIn) *)
        if idle s
        then Some (take (St (chin s) (out s) (ovf s) (hold s) (stopped s) (done s)
                            (sent s ++ [x]) (rcvd s)) x)
        else None
      else if length (chin s) <? cin c
      then Some (St (chin s ++ [x]) (out s) (ovf s) (hold s) (stopped s) (done s)
                    (sent s ++ [x]) (rcvd s))
      else None
  | WRecv =>
      if cin c =? 0 then None
      else if idle s then
        match chin s with
        | x :: r => Some (take (St r (out s) (ovf s) (hold s) (stopped s) (done s)
                                   (sent s) (rcvd s)) x)
        | [] => None
        end
      else None
  | WDirect =>
      if done s then None else
      match hold s with
      | Some x => if room c s
                  then Some (St (chin s) (out s ++ [x]) (ovf s) None (stopped s) (done s)
                                (sent s) (rcvd s))
                  else None
      | None => None
      end
  | WDefault =>
      (* default is taken only if neither chanOut nor quit is ready *)
      if done s || stopped s then None else
      match hold s with
      | Some x => if room c s then None
                  else Some (St (chin s) (out s) (ovf s ++ [x]) None (stopped s) (done s)
                                (sent s) (rcvd s))
      | None => None
      end
  | WMove =>
      if idle s then
        match ovf s with
        | h :: t => if room c s
                    then Some (St (chin s) (out s ++ [h]) t None (stopped s) (done s)
                                  (sent s) (rcvd s))
                    else None
        | [] => None
        end
      else None
  | WQuit =>
      (* every control point of a live worker is a select with case <-quit *)
      if stopped s && negb (done s)
      then Some (St (chin s) (out s) (ovf s) (hold s) true true (sent s) (rcvd s))
      else None
  | Recv =>
      if cout c =? 0 then
        (* unbuffered chanOut: rendezvous with the worker's send case *)
        if done s then None else
        match hold s with
        | Some x => Some (St (chin s) (out s) (ovf s) None (stopped s) (done s)
                             (sent s) (rcvd s ++ [x]))
        | None =>
            match ovf s with
            | h :: t => Some (St (chin s) (out s) t None (stopped s) (done s)
                                 (sent s) (rcvd s ++ [h]))
            | [] => None
            end
        end
      else
        match out s with
        | y :: r => Some (St (chin s) r (ovf s) (hold s) (stopped s) (done s)
                             (sent s) (rcvd s ++ [y]))
        | [] => None
        end
  | Stop =>
      if stopped s then None
      else Some (St (chin s) (out s) (ovf s) (hold s) true (done s) (sent s) (rcvd s))
  end.

(** Replaying a schedule. *)
Fixpoint run (c : cfg) (s : state) (ls : list label) : option state :=
  match ls with
  | [] => Some s
  | l :: r => match step c s l with Some s' => run c s' r | None => None end
  end.

Definition reachable (c : cfg) (s : state) : Prop := exists ls, run c init ls = Some s.

(** Classification of labels. *)
Definition is_worker (l : label) : bool :=
  match l with WRecv | WDirect | WDefault | WMove | WQuit => true | _ => false end.

(** Worker steps that are neither the quit case nor a hand-over to chanOut's
    consumer: the ones that may be needed before the next send is accepted. *)
Definition is_intake (l : label) : bool :=
  match l with WRecv | WDirect | WDefault => true | _ => false end.

(** Steps that move items towards the consumer (used by "draining is possible"). *)
Definition is_forward (l : label) : bool :=
  match l with WRecv | WDirect | WDefault | WMove | Recv => true | _ => false end.

Definition sends_of (ls : list label) : list item :=
  flat_map (fun l => match l with Send x => [x] | _ => [] end) ls.

Definition opt_list {A} (o : option A) : list A :=
  match o with Some x => [x] | None => [] end.

(** Everything that has been sent and not yet received, in queue order. *)
Definition pending (s : state) : list item :=
  out s ++ ovf s ++ opt_list (hold s) ++ chin s.

(** The value the next [Recv] would deliver, if it is enabled. *)
Definition recv_val (c : cfg) (s : state) : option item :=
  if cout c =? 0 then
    if done s then None else
    match hold s with
    | Some x => Some x
    | None => match ovf s with h :: _ => Some h | [] => None end
    end
  else match out s with y :: _ => Some y | [] => None end.

(** Termination measure of the worker's internal activity. *)
Definition weight (s : state) : nat :=
  4 * length (chin s) + 3 * length (opt_list (hold s)) + 2 * length (ovf s) + length (out s).
