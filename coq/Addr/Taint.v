(** C04 - what the address manager writes to the database, as symbolic terms.

    Executable model of the DISK EFFECTS of waddrmgr (manager.go,
    scoped_manager.go, db.go).  Every value the code stores is a
    concatenation of fields; a field is a symbolic [term]: an atom in the
    clear, a hash, a KDF output, a secretbox sealing [Enc k t] under one of
    the manager's keys, or public constant bytes.  Atoms carry a
    classification ([Secret], [Sensitive], [Passphrase], [Public]).

    Each operation yields the list of writes ([WPut] bucket path, key term,
    field list / [WDel]) it performs inside its database transaction; one
    operation = one committed transaction, so the disk after each prefix of
    a history is a commit boundary.

    Transcription notes (file:function):
    - snacl/snacl.go Marshal: the stored "master key parameters" are
      salt(32) | sha256(scrypt(passphrase, salt))(32) | N,r,p(24).  The
      digest is [Hash (Kdf (Cat passphrase salt))]: a one-way image of the
      passphrase, not the passphrase.  It is classified as derived-public:
      it lets the holder of the file TEST passphrase guesses at scrypt cost,
      which any passphrase-sealed file allows anyway (the Poly1305 tag of
      [Enc masterPriv cryptoPriv] gives the same test); the rule proved is
      "a passphrase atom occurs only below a Hash/Kdf".
    - manager.go Create / createManagerKeyScope, ChangePassphrase,
      ConvertToWatchingOnly, NeuterRootKey, NewScopedKeyManager;
      scoped_manager.go newAccount, newAccountWatchingOnly, nextAddresses,
      importPublicKey, ImportPrivateKey, importScriptAddress, RenameAccount,
      MarkUsed; sync.go SetSyncedTo; db.go put*/serialize*/deletePrivateKeys.
    - manager.go Unlock never decrypts cryptoKeyScript (DESIGN section 6, S5):
      the in-memory script key is the all-zero key; [KCryptoScript] names
      that in-memory key, the random key persisted by Create as
      main/cscript is the atom [SKeyScriptStored] and is never used.
      [priv_key true KCryptoScript = false] is the "strict" reading in which
      a sealing under the script key protects nothing.
    - db.go deletePrivateKeys: the address switch has cases adtImport,
      adtScript, adtWitnessScript; whether adtTaprootScript rows are stripped
      is the parameter [strip_tr] (regenerated from source into
      Generated/TaintSites.v; true since fix 71c2e41).
    - WHICH key seals WHAT is not written down here: every sealed field the
      operations write is [sealT T site ctx] where the [table] [T] maps each
      write [site] of the code (a place where the result of [X.Encrypt(arg)]
      is stored) to the sealing key [X] and the [content] class of [arg].
      The table of the current tree is regenerated from the source
      (Generated/TaintSites.v: receiver of each Encrypt call, origin of its
      argument); the theorems hold for every table that passes the decidable
      check [table_ok], and Properties/C04.v discharges [table_ok] of the
      regenerated table by computation. *)
From Coq Require Import String.
From Verif Require Import Base.Prelude.
Local Open Scope N_scope.

(* ------------------------------------------------------------------ terms *)

Definition scope := (N * N)%type.            (* purpose, coin type *)

Inductive keyid := KMasterPub | KMasterPriv | KCryptoPub | KCryptoPriv | KCryptoScript.

Inductive addrid :=
| AChain (s : scope) (acct : N) (internal : bool) (idx : N)   (* derived address *)
| AImp (n : N)     (* imported key AS SERIALISED: 2*key, +1 if uncompressed (two distinct addresses) *)
| AScr (n hlen : N).                                          (* n-th imported script; length of its hash / output key *)

Inductive atom :=
(* secret *)
| SSeed
| SMasterXprv
| SCoinXprv (s : scope)
| SAcctXprv (s : scope) (a : N)
| SAddrPriv (id : addrid)
| SImpPriv (n : N)
| SScript (n len : N)
| SKeyPriv                      (* bytes of cryptoKeyPriv *)
| SKeyScriptStored              (* bytes of the random script key persisted by Create *)
(* passphrases *)
| SPass (private : bool) (gen : N)
(* sensitive *)
| PKeyPub                       (* bytes of cryptoKeyPub *)
| PMasterXpub
| PCoinXpub (s : scope)
| PAcctXpub (s : scope) (a : N)
| PImpXpub (n : N)
| PPubKey (n : N) (compressed : bool)
| PAddrId (id : addrid)         (* hash160 / witness program / taproot output key *)
| PScript (n len : N)
(* public *)
| UStr (s : string)
| UNum (n : N)
| UFlag (b : bool)
| UTag (n : N)
| UName (id len : N)
| UScope (s : scope)
| USalt (private : bool) (gen : N).

Inductive class := Passphrase | Secret | Sensitive | Public.

(** [strict = true]: the script key counts for nothing, and a secret script
    is then only required to be treated like sensitive data. *)
Definition class_of (strict : bool) (a : atom) : class :=
  match a with
  | SSeed | SMasterXprv | SCoinXprv _ | SAcctXprv _ _ | SAddrPriv _ | SImpPriv _
  | SKeyPriv | SKeyScriptStored => Secret
  | SScript _ _ => if strict then Sensitive else Secret
  | SPass _ _ => Passphrase
  | PKeyPub | PMasterXpub | PCoinXpub _ | PAcctXpub _ _ | PImpXpub _ | PPubKey _ _
  | PAddrId _ | PScript _ _ => Sensitive
  | UStr _ | UNum _ | UFlag _ | UTag _ | UName _ _ | UScope _ | USalt _ _ => Public
  end.

Inductive term :=
| Enc (k : keyid) (t : term)
| Hash (t : term)
| Kdf (t : term)
| Clear (a : atom)
| Cat (t1 t2 : term)
| Const (len : N).

Definition priv_key (strict : bool) (k : keyid) : bool :=
  match k with
  | KCryptoPriv | KMasterPriv => true
  | KCryptoScript => negb strict
  | KMasterPub | KCryptoPub => false
  end.

(** [ok strict upriv uany hashed t]: every atom of [t] sits in an allowed
    context, given that the context of [t] already is: below a sealing under
    a private-class key ([upriv]), below any sealing ([uany]), below a
    one-way function ([hashed]). *)
Fixpoint ok (strict upriv uany hashed : bool) (t : term) : bool :=
  match t with
  | Clear a =>
    match class_of strict a with
    | Passphrase => hashed
    | Secret => upriv
    | Sensitive => uany || hashed
    | Public => true
    end
  | Enc k t' => ok strict (upriv || priv_key strict k) true hashed t'
  | Hash t' => ok strict upriv uany true t'
  | Kdf t' => ok strict upriv uany true t'
  | Cat a b => ok strict upriv uany hashed a && ok strict upriv uany hashed b
  | Const _ => true
  end.

(** private material: what a LIVE ROW of a watching-only database must not
    hold in any form (sealed or not): secret atoms and the private
    passphrase.  (The model's disk is the set of live rows; pages that bbolt
    has freed but not yet overwritten still hold the old ciphertexts - they
    are outside this model and outside the letter of the property, see
    Properties/C04.v "What is NOT claimed".) *)
Definition private_atom (a : atom) : bool :=
  match a with
  | SSeed | SMasterXprv | SCoinXprv _ | SAcctXprv _ _ | SAddrPriv _ | SImpPriv _
  | SScript _ _ | SKeyPriv | SKeyScriptStored => true
  | SPass private _ => private
  | _ => false
  end.

Fixpoint has_private (t : term) : bool :=
  match t with
  | Clear a => private_atom a
  | Enc _ t' | Hash t' | Kdf t' => has_private t'
  | Cat a b => has_private a || has_private b
  | Const _ => false
  end.

(** atoms that no operation ever writes, in any form *)
Definition never_atom (a : atom) : bool :=
  match a with SSeed | SAddrPriv _ => true | _ => false end.

Fixpoint mentions (p : atom -> bool) (t : term) : bool :=
  match t with
  | Clear a => p a
  | Enc _ t' | Hash t' | Kdf t' => mentions p t'
  | Cat a b => mentions p a || mentions p b
  | Const _ => false
  end.

(* ---------------------------------------------------- sealing-site table *)

(** what the argument of an [Encrypt] call is, by origin in the source *)
Inductive content :=
| CtMasterXprv | CtMasterXpub            (* rootKey.String() / its Neuter() *)
| CtCoinXprv | CtCoinXpub                (* derived coin-type key *)
| CtAcctXprv | CtAcctXpub                (* derived account key *)
| CtImpXpub                             (* account public key handed in by the caller *)
| CtPrivKey                             (* serialised EC private key (WIF import) *)
| CtPubKey                              (* serialised EC public key *)
| CtAddrId                              (* script hash / witness program / taproot output key *)
| CtSecretScript | CtPublicScript        (* imported script, by the isSecretScript flag *)
| CtKeyPub | CtKeyPriv | CtKeyScript      (* bytes of a crypto key *)
| CtPassphrase | CtSeed
| CtUnknown.                            (* origin not recognised: treated as the worst case *)

Record entry := { e_key : keyid; e_content : content }.

(** the write sites the operations of the model use *)
Inductive site :=
| XCreateMhdPriv | XCreateMhdPub | XCreateCPub | XCreateCPriv | XCreateCScript   (* Create *)
| XScopeCtPub | XScopeCtPriv | XScopeAcctPub | XScopeAcctPriv                    (* createManagerKeyScope *)
| XNewAcctPub | XNewAcctPriv                                                     (* newAccount *)
| XWatchAcctPub                                                                  (* newAccountWatchingOnly *)
| XImpPub | XImpPriv                                                             (* importPublicKey / ImportPrivateKey *)
| XScriptHash | XScriptSecret | XScriptPublic                                    (* importScriptAddress *)
| XChPrivCPriv | XChPrivCScript | XChPubCPub.                                    (* ChangePassphrase *)

Definition all_sites : list site :=
  [XCreateMhdPriv; XCreateMhdPub; XCreateCPub; XCreateCPriv; XCreateCScript;
   XScopeCtPub; XScopeCtPriv; XScopeAcctPub; XScopeAcctPriv; XNewAcctPub; XNewAcctPriv;
   XWatchAcctPub; XImpPub; XImpPriv; XScriptHash; XScriptSecret; XScriptPublic;
   XChPrivCPriv; XChPrivCScript; XChPubCPub].

Definition table := site -> entry.

(** the run-time identity of what a site seals *)
Record ctx := { cx_scope : scope; cx_acct : N; cx_n : N; cx_comp : bool; cx_len : N; cx_hlen : N }.

Definition ctx0 : ctx :=
  {| cx_scope := (0, 0); cx_acct := 0; cx_n := 0; cx_comp := true; cx_len := 0; cx_hlen := 0 |}.

Definition atom_of (c : content) (x : ctx) : atom :=
  match c with
  | CtMasterXprv => SMasterXprv
  | CtMasterXpub => PMasterXpub
  | CtCoinXprv => SCoinXprv (cx_scope x)
  | CtCoinXpub => PCoinXpub (cx_scope x)
  | CtAcctXprv => SAcctXprv (cx_scope x) (cx_acct x)
  | CtAcctXpub => PAcctXpub (cx_scope x) (cx_acct x)
  | CtImpXpub => PImpXpub (cx_n x)
  | CtPrivKey => SImpPriv (cx_n x)
  | CtPubKey => PPubKey (cx_n x) (cx_comp x)
  | CtAddrId => PAddrId (AScr (cx_n x) (cx_hlen x))
  | CtSecretScript => SScript (cx_n x) (cx_len x)
  | CtPublicScript => PScript (cx_n x) (cx_len x)
  | CtKeyPub => PKeyPub
  | CtKeyPriv => SKeyPriv
  | CtKeyScript => SKeyScriptStored
  | CtPassphrase => SPass true 0
  | CtSeed | CtUnknown => SSeed
  end.

(** the field a site stores *)
Definition sealT (T : table) (s : site) (x : ctx) : term :=
  Enc (e_key (T s)) (Clear (atom_of (e_content (T s)) x)).

(** class of a content (that of its atom; independent of the run-time identity) *)
Definition cclass (strict : bool) (c : content) : class := class_of strict (atom_of c ctx0).

Definition content_private (c : content) : bool := private_atom (atom_of c ctx0).
Definition content_never (c : content) : bool := never_atom (atom_of c ctx0).

(** the sealing alone satisfies the rule of the property, in both readings
    of the script key *)
Definition seal_ok_for (strict : bool) (e : entry) : bool :=
  match cclass strict (e_content e) with
  | Passphrase => false
  | Secret => priv_key strict (e_key e)
  | Sensitive | Public => true
  end.

Definition entry_safe (e : entry) : bool :=
  seal_ok_for false e && seal_ok_for true e && negb (content_never (e_content e)).

(** sites whose field is still there after a conversion to watching-only
    (neither deleted nor blanked by deletePrivateKeys) *)
Definition site_survives (s : site) : bool :=
  match s with
  | XCreateMhdPub | XCreateCPub | XScopeCtPub | XScopeAcctPub | XNewAcctPub | XWatchAcctPub
  | XImpPub | XScriptHash | XScriptPublic | XChPubCPub => true
  | _ => false
  end.

Definition entry_ok (s : site) (e : entry) : bool :=
  entry_safe e && (negb (site_survives s) || negb (content_private (e_content e))).

(** the decidable condition on a table under which all theorems hold *)
Definition table_ok (T : table) : bool := forallb (fun s => entry_ok s (T s)) all_sites.

(* ------------------------------------------------------------------- rows *)

Inductive seg :=
| BMain | BSync | BSchema | BScope | BScopeOf (s : scope)
| BAcct | BAddr | BUsed | BAddrAcctIdx | BAcctOf (a : N) | BNameIdx | BIdIdx | BMeta.

Record row := { r_path : list seg; r_key : term; r_val : list term }.

Definition disk := list row.

Definition keyid_eq_dec : forall a b : keyid, {a = b} + {a <> b}.
Proof. decide equality. Defined.
Definition scope_eq_dec : forall a b : scope, {a = b} + {a <> b}.
Proof. decide equality; apply N.eq_dec. Defined.
Definition addrid_eq_dec : forall a b : addrid, {a = b} + {a <> b}.
Proof. decide equality; try apply N.eq_dec; try apply Bool.bool_dec; apply scope_eq_dec. Defined.
Definition atom_eq_dec : forall a b : atom, {a = b} + {a <> b}.
Proof.
  decide equality; try apply N.eq_dec; try apply Bool.bool_dec; try apply scope_eq_dec;
    try apply addrid_eq_dec; apply string_dec.
Defined.
Definition term_eq_dec : forall a b : term, {a = b} + {a <> b}.
Proof. decide equality; try apply N.eq_dec; try apply atom_eq_dec; apply keyid_eq_dec. Defined.
Definition seg_eq_dec : forall a b : seg, {a = b} + {a <> b}.
Proof. decide equality; try apply N.eq_dec; apply scope_eq_dec. Defined.

Definition term_eqb (a b : term) : bool := if term_eq_dec a b then true else false.
Definition path_eqb (a b : list seg) : bool := if list_eq_dec seg_eq_dec a b then true else false.

Definition same_slot (p : list seg) (k : term) (r : row) : bool :=
  path_eqb p (r_path r) && term_eqb k (r_key r).

Definition del (p : list seg) (k : term) (d : disk) : disk :=
  filter (fun r => negb (same_slot p k r)) d.

Definition put (p : list seg) (k : term) (v : list term) (d : disk) : disk :=
  {| r_path := p; r_key := k; r_val := v |} :: del p k d.

Definition get (p : list seg) (k : term) (d : disk) : option (list term) :=
  option_map r_val (find (same_slot p k) d).

Definition has (p : list seg) (k : term) (d : disk) : bool :=
  existsb (same_slot p k) d.

Inductive write :=
| WPut (p : list seg) (k : term) (v : list term)
| WDel (p : list seg) (k : term).

Definition apply_write (w : write) (d : disk) : disk :=
  match w with WPut p k v => put p k v d | WDel p k => del p k d end.

Definition apply_writes (ws : list write) (d : disk) : disk :=
  fold_left (fun d w => apply_write w d) ws d.

(* ------------------------------------------------------------ row layouts *)

Local Open Scope string_scope.
Local Open Scope N_scope.
Local Open Scope list_scope.

Definition kstr (s : string) : term := Clear (UStr s).
Definition knum (n : N) : term := Clear (UNum n).
Definition kaddr (id : addrid) : term := Hash (Clear (PAddrId id)).     (* sha256(address id) *)
Definition kname (id len : N) : term := Clear (UName id len).           (* <len><name> *)

Definition p_scope (s : scope) : list seg := [BScope; BScopeOf s].

Definition imported_acct : N := 2147483647.      (* ImportedAddrAccount = MaxAccountNum + 1 *)
Definition max_reorg_depth : N := 10000.

(** snacl parameters of a passphrase-derived master key *)
Definition master_params (private : bool) (gen : N) : list term :=
  [Clear (USalt private gen);
   Hash (Kdf (Cat (Clear (SPass private gen)) (Clear (USalt private gen))));
   Const 24].

(** account rows: the model keeps the deserialised form, as Go re-reads it;
    the sealed key fields are carried as read and written back unchanged *)
Inductive acct_kind :=
| ADefault (pub priv : term)          (* accountDefault; the "imported" account has empty key fields *)
| AWatch (pub : term) (schema : term). (* accountWatchOnly, imported xpub *)

Record acct_info := { ai_kind : acct_kind; ai_name : N * N; ai_ext : N; ai_int : N }.

Definition acct_val (i : acct_info) : list term :=
  match ai_kind i with
  | ADefault pub priv =>
    [Clear (UTag 0); Const 8; pub; Const 4; priv;
     knum (ai_ext i); knum (ai_int i); kname (fst (ai_name i)) (snd (ai_name i))]
  | AWatch pub sch =>
    [Clear (UTag 1); Const 8; pub; Const 4 (* master key fingerprint *);
     knum (ai_ext i); knum (ai_int i); kname (fst (ai_name i)) (snd (ai_name i)); sch]
  end.

Definition cx_account (s : scope) (a : N) : ctx :=
  {| cx_scope := s; cx_acct := a; cx_n := 0; cx_comp := true; cx_len := 0; cx_hlen := 0 |}.

Definition cx_item (n : N) (comp : bool) (len hlen : N) : ctx :=
  {| cx_scope := (0, 0); cx_acct := 0; cx_n := n; cx_comp := comp; cx_len := len; cx_hlen := hlen |}.

(** [xpub], [xprv]: the two sites of the calling function (createManagerKeyScope or newAccount) *)
Definition new_default_acct (T : table) (xpub xprv : site) (s : scope) (a : N) (nm : N * N) : acct_info :=
  {| ai_kind := ADefault (sealT T xpub (cx_account s a)) (sealT T xprv (cx_account s a));
     ai_name := nm; ai_ext := 0; ai_int := 0 |}.

Definition new_watch_acct (T : table) (x : N) (sch : bool) (nm : N * N) : acct_info :=
  {| ai_kind := AWatch (sealT T XWatchAcctPub (cx_item x true 0 0)) (Const (if sch then 3 else 1));
     ai_name := nm; ai_ext := 0; ai_int := 0 |}.

Definition seal_opt (present : bool) (t : term) : term :=
  if present then t else Const 0.

(** putAccountInfo: row + id index + name index *)
Definition w_account (s : scope) (a : N) (i : acct_info) : list write :=
  [WPut (p_scope s ++ [BAcct]) (knum a) (acct_val i);
   WPut (p_scope s ++ [BIdIdx]) (knum a) [kname (fst (ai_name i)) (snd (ai_name i))];
   WPut (p_scope s ++ [BNameIdx]) (kname (fst (ai_name i)) (snd (ai_name i))) [knum a]].

(** putAddress: row + the two address/account index entries *)
Definition w_address (s : scope) (id : addrid) (acct : N) (v : list term) : list write :=
  [WPut (p_scope s ++ [BAddr]) (kaddr id) v;
   WPut (p_scope s ++ [BAddrAcctIdx]) (kaddr id) [knum acct];
   WPut (p_scope s ++ [BAddrAcctIdx; BAcctOf acct]) (kaddr id) [Const 1]].

(* addrType | account(4) addTime(8) syncStatus(1) rdlen(4) | raw data *)
Definition chain_val : list term := [Clear (UTag 0); Const 17; Const 8].

Definition import_val (T : table) (n : N) (compressed has_priv : bool) : list term :=
  [Clear (UTag 1); Const 17; Const 4; sealT T XImpPub (cx_item n compressed 0 0);
   Const 4; seal_opt has_priv (sealT T XImpPriv (cx_item n compressed 0 0))].

Inductive script_kind := KP2SH | KWitness (secret : bool) | KTaproot (secret : bool).

Definition script_secret (k : script_kind) : bool :=
  match k with KP2SH => true | KWitness b | KTaproot b => b end.

Definition script_hlen (k : script_kind) : N := match k with KP2SH => 20 | _ => 32 end.

Definition script_field (T : table) (n len hlen : N) (secret : bool) : term :=
  sealT T (if secret then XScriptSecret else XScriptPublic) (cx_item n true len hlen).

Definition script_val (T : table) (n len : N) (k : script_kind) : list term :=
  let hl := script_hlen k in
  let hash := sealT T XScriptHash (cx_item n true len hl) in
  match k with
  | KP2SH =>
    [Clear (UTag 2); Const 17; Const 4; hash; Const 4; script_field T n len hl true]
  | KWitness sec =>
    [Clear (UTag 3); Const 17; Const 1; Clear (UFlag sec); Const 4; hash; Const 4; script_field T n len hl sec]
  | KTaproot sec =>
    [Clear (UTag 4); Const 17; Const 1; Clear (UFlag sec); Const 4; hash; Const 4; script_field T n len hl sec]
  end.

(** createManagerKeyScope: coin-type keys, account 0 "default", the keyless
    "imported" account, the last-account row.  Name ids: 0 = "default" (7 bytes), 1 = "imported" (8). *)
Definition imported_acct_info : acct_info :=
  {| ai_kind := ADefault (Const 0) (Const 0); ai_name := (1, 8); ai_ext := 0; ai_int := 0 |}.

Definition w_key_scope (T : table) (s : scope) : list write :=
  [WPut (p_scope s) (kstr "ctpub") [sealT T XScopeCtPub (cx_account s 0)];
   WPut (p_scope s) (kstr "ctpriv") [sealT T XScopeCtPriv (cx_account s 0)]]
  ++ w_account s 0 (new_default_acct T XScopeAcctPub XScopeAcctPriv s 0 (0, 7))
  ++ w_account s imported_acct imported_acct_info
  (* the default account is the last account of the new scope *)
  ++ [WPut (p_scope s ++ [BMeta]) (kstr "lastaccount") [knum 0]].

Definition default_scopes : list scope := [(49, 0); (84, 0); (86, 0); (44, 0)].

(** PutSyncedTo *)
Definition w_synced (h : N) : list write :=
  [WPut [BSync] (knum h) [Const 32]]
  ++ (if max_reorg_depth <? h then [WDel [BSync] (knum (h - max_reorg_depth))] else [])
  ++ [WPut [BSync] (kstr "syncedto") [Const 40]].

(** manager.go Create (with a root key), in the order of the code *)
Definition w_create (T : table) : list write :=
  flat_map (fun s => [WPut [BSchema] (Clear (UScope s)) [Const 2];
                      WPut (p_scope s ++ [BMeta]) (kstr "lastaccount") [knum 0]]) default_scopes
  ++ [WPut [BMain] (kstr "mgrver") [Const 4]; WPut [BMain] (kstr "mgrcreated") [Const 8]]
  ++ flat_map (w_key_scope T) default_scopes
  ++ [WPut [BMain] (kstr "mhdpriv") [sealT T XCreateMhdPriv ctx0];
      WPut [BMain] (kstr "mhdpub") [sealT T XCreateMhdPub ctx0];
      WPut [BMain] (kstr "mpriv") (master_params true 0);
      WPut [BMain] (kstr "mpub") (master_params false 0);
      WPut [BMain] (kstr "cpub") [sealT T XCreateCPub ctx0];
      WPut [BMain] (kstr "cpriv") [sealT T XCreateCPriv ctx0];
      WPut [BMain] (kstr "cscript") [sealT T XCreateCScript ctx0];
      WPut [BMain] (kstr "watchonly") [Clear (UFlag false)]]
  ++ w_synced 0
  ++ [WPut [BSync] (kstr "startblock") [Const 36]; WPut [BSync] (kstr "birthday") [Const 8]].

(* --------------------------------------------- conversion to watching-only *)

Definition main_private_keys : list string := ["mpriv"; "cpriv"; "cscript"; "mhdpriv"].

Definition is_ctpriv (r : row) : bool :=
  match r_path r, r_key r with
  | [BScope; BScopeOf _], Clear (UStr k) => if string_dec k "ctpriv" then true else false
  | _, _ => false
  end.

(** deletePrivateKeys re-serialises a row without its private field.
    [None]: the type switch has no case for the row (it is left alone). *)
Definition strip_val (strip_tr : bool) (p : list seg) (v : list term) : option (list term) :=
  match p with
  | [BScope; BScopeOf _; BAcct] =>
    match v with
    | [Clear (UTag 0); c1; pub; c2; _; e; i; nm] => Some [Clear (UTag 0); c1; pub; c2; Const 0; e; i; nm]
    | _ => None
    end
  | [BScope; BScopeOf _; BAddr] =>
    match v with
    | [Clear (UTag 1); h; c1; pub; c2; _] => Some [Clear (UTag 1); h; c1; pub; c2; Const 0]
    | [Clear (UTag 2); h; c1; hs; c2; _] => Some [Clear (UTag 2); h; c1; hs; c2; Const 0]
    | [Clear (UTag 3); h; ver; Clear (UFlag true); c1; hs; c2; _] =>
      Some [Clear (UTag 3); h; ver; Clear (UFlag true); c1; hs; c2; Const 0]
    | [Clear (UTag 4); h; ver; Clear (UFlag true); c1; hs; c2; _] =>
      if strip_tr then Some [Clear (UTag 4); h; ver; Clear (UFlag true); c1; hs; c2; Const 0] else None
    | _ => None
    end
  | _ => None
  end.

(** The writes of one pass of deletePrivateKeys over an existing row.  (The
    code deletes "ctpriv" in every scope bucket; deleting an absent key is a
    no-op, so the delete is generated where the row exists.) *)
Definition conv_row (strip_tr : bool) (r : row) : list write :=
  if is_ctpriv r then [WDel (r_path r) (r_key r)]
  else match strip_val strip_tr (r_path r) (r_val r) with
       | Some v' => [WPut (r_path r) (r_key r) v']
       | None => []
       end.

Definition w_convert (strip_tr : bool) (d : disk) : list write :=
  map (fun k => WDel [BMain] (kstr k)) main_private_keys
  ++ flat_map (conv_row strip_tr) d
  ++ [WPut [BMain] (kstr "watchonly") [Clear (UFlag true)]].

(* ------------------------------------------------------------- operations *)

Inductive op :=
| OCreate
| OReopen                                             (* Close + Open *)
| OUnlock (pass_ok : bool)
| OLock
| ONewAccount (s : scope) (name nlen : N)
| ONewScope (s : scope)
| ODerive (s : scope) (acct : N) (internal : bool) (n : N)
| OImportPriv (s : scope) (id : N) (compressed : bool)
| OImportPub (s : scope) (id : N)
| OImportScript (s : scope) (id len : N) (k : script_kind)
| OImportXpub (s : scope) (id name nlen : N) (with_schema : bool)
| ORename (s : scope) (acct name nlen : N)
| OChangePass (private old_ok : bool)
| OMarkUsed (s : scope) (id : addrid)
| OSyncTo (h : N)
| ONeuter
| OConvert.

Record state := {
  dsk : disk;
  created : bool;
  locked : bool;
  wo : bool;
  gen_priv : N;
  gen_pub : N
}.

Definition init : state :=
  {| dsk := []; created := false; locked := true; wo := false; gen_priv := 0; gen_pub := 0 |}.

(** the watching-only flag as Open reads it *)
Definition disk_wo (d : disk) : bool :=
  match get [BMain] (kstr "watchonly") d with
  | Some [Clear (UFlag b)] => b
  | _ => false
  end.

Definition scope_exists (s : scope) (d : disk) : bool := has [BSchema] (Clear (UScope s)) d.

(** deserialised account row *)
Definition read_acct (s : scope) (a : N) (d : disk) : option acct_info :=
  match get (p_scope s ++ [BAcct]) (knum a) d with
  | Some [Clear (UTag 0); _; pub; _; priv; Clear (UNum e); Clear (UNum i); Clear (UName nid nlen)] =>
    Some {| ai_kind := ADefault pub priv; ai_name := (nid, nlen); ai_ext := e; ai_int := i |}
  | Some [Clear (UTag 1); _; pub; _; Clear (UNum e); Clear (UNum i); Clear (UName nid nlen); sch] =>
    Some {| ai_kind := AWatch pub sch; ai_name := (nid, nlen); ai_ext := e; ai_int := i |}
  | _ => None
  end.

(** fetchLastAccount + 1 in uint32 arithmetic (an absent row reads as 2^32-1) *)
Definition next_account (s : scope) (d : disk) : N :=
  match get (p_scope s ++ [BMeta]) (kstr "lastaccount") d with
  | Some [Clear (UNum a)] => (a + 1) mod 4294967296
  | _ => 0
  end.

Definition name_taken (s : scope) (name nlen : N) (d : disk) : bool :=
  has (p_scope s ++ [BNameIdx]) (kname name nlen) d.

Definition addr_known (s : scope) (id : addrid) (d : disk) : bool :=
  has (p_scope s ++ [BAddr]) (kaddr id) d.

Definition can_derive (i : acct_info) : bool :=
  match ai_kind i with
  | ADefault (Const _) _ => false        (* no account public key: decrypt fails *)
  | _ => true
  end.

Definition rangeN (a n : N) : list N := map (fun k => a + N.of_nat k) (seq 0 (N.to_nat n)).

Definition set_next (i : acct_info) (internal : bool) (nx : N) : acct_info :=
  if internal then {| ai_kind := ai_kind i; ai_name := ai_name i; ai_ext := ai_ext i; ai_int := nx |}
  else {| ai_kind := ai_kind i; ai_name := ai_name i; ai_ext := nx; ai_int := ai_int i |}.

Definition set_name (i : acct_info) (nm : N * N) : acct_info :=
  {| ai_kind := ai_kind i; ai_name := nm; ai_ext := ai_ext i; ai_int := ai_int i |}.

(** putChainedAddress for one index: address row, index entries, and the
    account row re-serialised with the advanced next index *)
Definition w_chain (s : scope) (acct : N) (internal : bool) (i : acct_info) (idx : N) : list write :=
  w_address s (AChain s acct internal idx) acct chain_val
  ++ [WPut (p_scope s ++ [BAcct]) (knum acct) (acct_val (set_next i internal (idx + 1)))].

(** [writes T strip_tr st o]: [None] = the call returns an error (the
    transaction is rolled back); [Some ws] = it commits the writes [ws]. *)
Definition writes (T : table) (strip_tr : bool) (st : state) (o : op) : option (list write) :=
  let d := dsk st in
  match o with
  | OCreate => if created st then None else Some (w_create T)
  | OReopen => if created st then Some [] else None
  | OUnlock pass_ok => if negb (created st) || wo st || negb pass_ok then None else Some []
  | OLock => if negb (created st) || wo st || locked st then None else Some []
  | ONewAccount s name nlen =>
    if negb (created st) || wo st || locked st || negb (scope_exists s d) || name_taken s name nlen d
       || negb (has (p_scope s) (kstr "ctpriv") d)
    then None
    else let a := next_account s d in
         Some (w_account s a (new_default_acct T XNewAcctPub XNewAcctPriv s a (name, nlen))
               ++ [WPut (p_scope s ++ [BMeta]) (kstr "lastaccount") [knum a]])
  | ONewScope s =>
    if negb (created st) || wo st || locked st || scope_exists s d || negb (has [BMain] (kstr "mhdpriv") d)
    then None
    else Some (WPut [BSchema] (Clear (UScope s)) [Const 2] :: w_key_scope T s)
  | ODerive s acct internal n =>
    if negb (created st) || (n =? 0) then None
    else match read_acct s acct d with
         | Some i =>
           if can_derive i then
             let first := if internal then ai_int i else ai_ext i in
             Some (flat_map (w_chain s acct internal i) (rangeN first n))
           else None
         | None => None
         end
  | OImportPriv s id compressed =>
    if negb (created st) || negb (scope_exists s d) || (locked st && negb (wo st)) || addr_known s (AImp id) d
    then None
    else Some (w_address s (AImp id) imported_acct (import_val T id compressed (negb (wo st))))
  | OImportPub s id =>
    if negb (created st) || negb (scope_exists s d) || addr_known s (AImp id) d then None
    else Some (w_address s (AImp id) imported_acct (import_val T id true false))
  | OImportScript s id len k =>
    let sec := script_secret k in
    if negb (created st) || negb (scope_exists s d) || (sec && (locked st || wo st))
       || addr_known s (AScr id (script_hlen k)) d
    then None
    else Some (w_address s (AScr id (script_hlen k)) imported_acct (script_val T id len k))
  | OImportXpub s id name nlen sch =>
    if negb (created st) || negb (scope_exists s d) || name_taken s name nlen d then None
    else let a := next_account s d in
         Some (w_account s a (new_watch_acct T id sch (name, nlen))
               ++ [WPut (p_scope s ++ [BMeta]) (kstr "lastaccount") [knum a]])
  | ORename s acct name nlen =>
    if negb (created st) || (acct =? imported_acct) || negb (scope_exists s d) || name_taken s name nlen d then None
    else match read_acct s acct d with
         | Some i =>
           Some ([WDel (p_scope s ++ [BIdIdx]) (knum acct);
                  WDel (p_scope s ++ [BNameIdx]) (kname (fst (ai_name i)) (snd (ai_name i)))]
                 ++ w_account s acct (set_name i (name, nlen)))
         | None => None
         end
  | OChangePass private old_ok =>
    if negb (created st) || (private && wo st) || negb old_ok then None
    else if private then
      Some [WPut [BMain] (kstr "cpriv") [sealT T XChPrivCPriv ctx0];
            WPut [BMain] (kstr "cscript") [sealT T XChPrivCScript ctx0];
            WPut [BMain] (kstr "mpriv") (master_params true (gen_priv st + 1))]
    else
      Some [WPut [BMain] (kstr "cpub") [sealT T XChPubCPub ctx0];
            WPut [BMain] (kstr "mpub") (master_params false (gen_pub st + 1))]
  | OMarkUsed s id =>
    if negb (created st) || negb (addr_known s id d) then None
    else if has (p_scope s ++ [BUsed]) (kaddr id) d then Some []
    else Some [WPut (p_scope s ++ [BUsed]) (kaddr id) [Const 1]]
  | OSyncTo h => if created st then Some (w_synced h) else None
  | ONeuter => if created st then Some [WDel [BMain] (kstr "mhdpriv")] else None
  | OConvert =>
    if negb (created st) then None
    else if wo st then Some []
    else Some (w_convert strip_tr d)
  end.

(** memory side of an operation (lock state, watching-only flag, passphrase
    generations).  Lock and Unlock have no disk effect: their write list is
    empty. *)
Definition step (T : table) (strip_tr : bool) (st : state) (o : op) : state * bool :=
  match writes T strip_tr st o with
  | None =>
    (* a failed Unlock locks the manager *)
    (match o with
     | OUnlock _ =>
       if created st && negb (wo st)
       then {| dsk := dsk st; created := created st; locked := true; wo := wo st;
               gen_priv := gen_priv st; gen_pub := gen_pub st |}
       else st
     | _ => st
     end, false)
  | Some ws =>
    let d' := apply_writes ws (dsk st) in
    ({| dsk := d';
        created := match o with OCreate => true | _ => created st end;
        locked := match o with
                  | OCreate | OReopen | OLock | OConvert => true
                  | OUnlock _ => false
                  | _ => locked st
                  end;
        wo := match o with
              | OConvert => true
              | OReopen => disk_wo d'
              | _ => wo st
              end;
        gen_priv := match o with OChangePass true _ => gen_priv st + 1 | _ => gen_priv st end;
        gen_pub := match o with OChangePass false _ => gen_pub st + 1 | _ => gen_pub st end |}, true)
  end.

Definition run (T : table) (strip_tr : bool) (h : list op) : state :=
  fold_left (fun st o => fst (step T strip_tr st o)) h init.

(** every commit boundary of a history: the states after each prefix *)
Fixpoint boundaries (T : table) (strip_tr : bool) (st : state) (h : list op) : list state :=
  match h with
  | [] => []
  | o :: h' => let st' := fst (step T strip_tr st o) in st' :: boundaries T strip_tr st' h'
  end.

(* -------------------------------------------------------- row predicates *)

Definition fields (r : row) : list term := r_key r :: r_val r.

(** (a)+(b): every atom of every stored key and value is in an allowed context *)
Definition ok_row (strict : bool) (r : row) : bool := forallb (ok strict false false false) (fields r).

(** no private material in any form in this (live) row *)
Definition clean_row (r : row) : bool := forallb (fun t => negb (has_private t)) (fields r).

Definition avoids_never (r : row) : bool := forallb (fun t => negb (mentions never_atom t)) (fields r).

(** a secret taproot script row (address type 4, secret flag set) *)
Definition tr_secret_row (r : row) : bool :=
  match r_path r, r_val r with
  | [BScope; BScopeOf _; BAddr], [Clear (UTag 4); _; _; Clear (UFlag true); _; _; _; _] => true
  | _, _ => false
  end.

(* --------------------------------------------------------- API-level view *)

(** What the calls that can hand out private material answer, as far as it
    depends on the manager's mode (manager.go Unlock, selectCryptoKey;
    address.go PrivKey, Script; scoped_manager.go NewAccount). *)
Inductive api_call :=
| CUnlock | CPrivKey | CExportPrivKey | CSecretScript | CDecryptPrivate | CDecryptScript
| CNewAccount | CNewScope | CChangePrivatePassphrase.

Inductive api_result := ErrWatchingOnly | ErrLocked | Served.

Definition api (st : state) (c : api_call) : api_result :=
  match c with
  | CDecryptPrivate | CDecryptScript =>
    (* selectCryptoKey reports ErrLocked for both modes *)
    if locked st || wo st then ErrLocked else Served
  | CChangePrivatePassphrase | CUnlock =>
    if wo st then ErrWatchingOnly else Served
  | _ => if wo st then ErrWatchingOnly else if locked st then ErrLocked else Served
  end.

Definition refuses (r : api_result) : bool := match r with Served => false | _ => true end.

(** the in-memory key a sealing under [k] uses; [None] = real key material.
    S5: the script key is never decrypted on Unlock, it stays all-zero. *)
Definition sealing_key_is_constant (k : keyid) : bool :=
  match k with KCryptoScript => true | _ => false end.

(* ------------------------------------------------- slots (source and facts) *)

(** where a sealed field is stored: the parameter of the db.go function that
    receives it (source side) = the field of the row it ends up in (observed
    side).  [LScrScript sec]: the script field of a script row, by its
    secret flag (p2sh rows are always secret). *)
Inductive slot :=
| LMhdPriv | LMhdPub | LCPub | LCPriv | LCScript
| LCtPub | LCtPriv
| LAcctPub | LAcctPriv | LWatchAcctPub
| LImpPub | LImpPriv
| LScrHash | LScrScript (secret : bool).

(** fields that a conversion to watching-only neither deletes nor blanks
    (secret taproot scripts: see [strip_tr]; they are the set K) *)
Definition slot_survives (l : slot) : bool :=
  match l with
  | LMhdPub | LCPub | LCtPub | LAcctPub | LWatchAcctPub | LImpPub | LScrHash | LScrScript false => true
  | _ => false
  end.

(** the check of [entry_ok] for an arbitrary write site of the source, by the
    slot it stores into *)
Definition source_entry_ok (l : slot) (e : entry) : bool :=
  entry_safe e && (negb (slot_survives l) || negb (content_private (e_content e))).

Definition site_slot (s : site) : slot :=
  match s with
  | XCreateMhdPriv => LMhdPriv | XCreateMhdPub => LMhdPub
  | XCreateCPub | XChPubCPub => LCPub
  | XCreateCPriv | XChPrivCPriv => LCPriv
  | XCreateCScript | XChPrivCScript => LCScript
  | XScopeCtPub => LCtPub | XScopeCtPriv => LCtPriv
  | XScopeAcctPub | XNewAcctPub => LAcctPub
  | XScopeAcctPriv | XNewAcctPriv => LAcctPriv
  | XWatchAcctPub => LWatchAcctPub
  | XImpPub => LImpPub | XImpPriv => LImpPriv
  | XScriptHash => LScrHash
  | XScriptSecret => LScrScript true | XScriptPublic => LScrScript false
  end.
