(** Proofs about [MemDisk]: memory stays coherent with the database along
    every history outside the trigger pattern K; rolled-back address issuance
    never advances an index; the next committed issuance equals what a
    restarted manager issues outside K_idx; witnesses inside K.  Everything is
    proved for both values of the model parameter [rb] (see MemDisk.v). *)
From stdpp Require Import gmap list numbers.
From Coq Require Import ZArith NArith Lia.
From Verif Require Import Addr.MemDisk.

(** ** Coherence of memory with a database, and what it gives *)

Definition cached (m : mem) (a : N) : Prop := is_Some (m_accts m !! a).

Definition wfL (d : disk) : Prop := forall a, is_Some (d_accts d !! a) -> (a <= d_lastacct d)%N.
Definition wfA (d : disk) : Prop := forall a b i, Chain a b i ∈ d_addrs d -> is_Some (d_accts d !! a).
Definition wf_disk (d : disk) : Prop := wfL d /\ wfA d.

Definition coh_idx (m : mem) (d : disk) : Prop :=
  forall a ai, m_accts m !! a = Some ai ->
    exists r, d_accts d !! a = Some r /\
      forall b, next_of ai b = row_next r b /\ last_of ai b = N.pred (row_next r b).
Definition coh_name (m : mem) (d : disk) : Prop :=
  forall a ai r, m_accts m !! a = Some ai -> d_accts d !! a = Some r ->
    (ai_name ai, ai_kind ai) = (r_name r, r_kind r).
Definition coh_addr (m : mem) (d : disk) : Prop := m_addrs m ⊆ d_addrs d.
Definition coh_sync (m : mem) (d : disk) : Prop :=
  m_synced m = d_synced d /\ (s_height (m_start m), s_hash (m_start m)) = d_start d.
Definition coh_bday (m : mem) (d : disk) : Prop := m_birthday m = d_birthday d.
Definition coherent (m : mem) (d : disk) : Prop :=
  coh_idx m d /\ coh_name m d /\ coh_addr m d /\ coh_sync m d /\ coh_bday m d.

Lemma info_eq ai r :
  (ai_name ai, ai_kind ai) = (r_name r, r_kind r) ->
  (forall b, next_of ai b = row_next r b /\ last_of ai b = N.pred (row_next r b)) ->
  ai = info_of_row r.
Proof.
  intros [= Hn Hk] H. destruct (H true) as [H1 H2]. destruct (H false) as [H3 H4].
  destruct ai, r; simpl in *. unfold info_of_row; simpl. congruence.
Qed.

(** With coherent account entries the kind a chained address is reported with
    is the kind of the account's row. *)
Lemma kind_view_row m d a :
  coh_idx m d -> coh_name m d ->
  kind_view d m a = match d_accts d !! a with Some r => r_kind r | None => None end.
Proof.
  intros Hi Hn. unfold kind_view. destruct (m_accts m !! a) as [ai|] eqn:E; [|reflexivity].
  destruct (Hi a ai E) as (r & Hr & _). rewrite Hr. pose proof (Hn a ai r E Hr) as Hp. injection Hp; auto.
Qed.

Lemma kind_view_load d m a m1 o a' :
  load_acct d m a = (m1, o) -> kind_view d m1 a' = kind_view d m a'.
Proof.
  unfold load_acct, kind_view. destruct (m_accts m !! a) as [ai|] eqn:E; [intros [= <- <-]; reflexivity|].
  destruct (d_accts d !! a) as [r|] eqn:Er; intros [= <- <-]; [|reflexivity].
  simpl. destruct (decide (a' = a)) as [->|Hne].
  - rewrite lookup_insert, E, Er. reflexivity.
  - rewrite lookup_insert_ne by congruence. reflexivity.
Qed.

Lemma found_row m d x :
  coh_idx m d -> coh_name m d -> found d m x = found d (reopen d) x.
Proof.
  intros Hi Hn. destruct x as [a b i|k|k]; simpl; try reflexivity.
  rewrite (kind_view_row m d a Hi Hn). unfold kind_view; simpl. rewrite lookup_empty. reflexivity.
Qed.

Lemma found_load d m a m1 o x :
  load_acct d m a = (m1, o) -> found d m1 x = found d m x.
Proof.
  intros HL. destruct x as [a' b i|k|k]; simpl; try reflexivity.
  rewrite (kind_view_load _ _ _ _ _ a' HL). reflexivity.
Qed.

Lemma found_addrs d m v x : found d (set_m_addrs v m) x = found d m x.
Proof. destruct x; reflexivity. Qed.

Lemma coherent_reopen d : coherent (reopen d) d.
Proof.
  unfold coherent, coh_idx, coh_name, coh_addr, coh_sync, coh_bday, reopen; simpl.
  repeat split; try (intros; rewrite lookup_empty in *; congruence); try set_solver.
  destruct (d_start d); reflexivity.
Qed.

Lemma load_acct_cached d m a ai :
  m_accts m !! a = Some ai -> load_acct d m a = (m, Some ai).
Proof. unfold load_acct. intros ->. reflexivity. Qed.

Lemma observe_coherent m d q :
  coherent m d -> wfA d -> observe m d q = observe (reopen d) d q.
Proof.
  intros (Hi & Hn & Ha & [Hs1 Hs2] & Hb) HA.
  unfold observe. destruct q as [x|a b|a|nm|a| | |h| | ]; simpl; try reflexivity.
  - (* lookup *)
    assert (HE : forall y : addr, y ∈ (∅ : gset addr) -> False) by (intros y; apply not_elem_of_empty).
    assert (HF : forall m1 o a, load_acct d m a = (m1, o) -> found d m1 x = found d (reopen d) x).
    { intros m1 o a HL. rewrite (found_load _ _ _ _ _ x HL). apply found_row; assumption. }
    assert (HG : forall m1 o a, load_acct d (reopen d) a = (m1, o) -> found d m1 x = found d (reopen d) x).
    { intros m1 o a HL. apply (found_load _ _ _ _ _ x HL). }
    repeat case_bool_decide; try (exfalso; eauto; fail).
    all: try (exfalso; match goal with H : ~ (_ ∈ d_addrs _) |- _ => apply H, Ha; assumption end).
    all: try reflexivity.
    all: destruct x as [a b i|k|k]; try reflexivity.
    all: match goal with H : Chain _ _ _ ∈ d_addrs _ |- _ => destruct (HA _ _ _ H) as [r Hr] end.
    all: destruct (load_acct d (reopen d) a) as [mf [aif|]] eqn:ELf;
      [|exfalso; revert ELf; unfold load_acct; simpl; rewrite lookup_empty, Hr; discriminate].
    all: cbn [snd].
    + (* cached in the running manager *)
      rewrite (HG _ _ _ ELf). apply found_row; assumption.
    + (* loaded by both *)
      destruct (load_acct d m a) as [m1 [ai1|]] eqn:EL1.
      * cbn [snd]. rewrite (HF _ _ _ EL1), (HG _ _ _ ELf). reflexivity.
      * exfalso. revert EL1. unfold load_acct. destruct (m_accts m !! a); [discriminate|].
        rewrite Hr. discriminate.
  - (* last *)
    unfold load_acct; simpl. rewrite lookup_empty.
    destruct (m_accts m !! a) as [ai|] eqn:E.
    + destruct (Hi a ai E) as (r & Hr & Hf). rewrite Hr. simpl.
      destruct (Hf b) as [H1 H2].
      assert (next_of (info_of_row r) b = row_next r b) by (destruct b; reflexivity).
      assert (last_of (info_of_row r) b = N.pred (row_next r b)) by (destruct b; reflexivity).
      rewrite H1, H2, H, H0. reflexivity.
    + destruct (d_accts d !! a); reflexivity.
  - (* props *)
    destruct (a =? imported_acct)%N; [reflexivity|].
    unfold load_acct; simpl. rewrite lookup_empty.
    destruct (m_accts m !! a) as [ai|] eqn:E.
    + destruct (Hi a ai E) as (r & Hr & Hf). rewrite Hr. simpl.
      rewrite (info_eq ai r (Hn a ai r E Hr) Hf). reflexivity.
    + destruct (d_accts d !! a); reflexivity.
  - rewrite Hs1. reflexivity.
  - rewrite Hb. reflexivity.
Qed.

(** ** Reads only extend the caches, from the rows they see *)

Definition mem_ext (d : disk) (m m' : mem) : Prop :=
  (forall a ai, m_accts m !! a = Some ai -> m_accts m' !! a = Some ai) /\
  (forall a ai, m_accts m' !! a = Some ai -> m_accts m !! a = Some ai \/
       (m_accts m !! a = None /\ exists r, d_accts d !! a = Some r /\ ai = info_of_row r)) /\
  (forall x, x ∈ m_addrs m' -> x ∈ m_addrs m \/ x ∈ d_addrs d) /\
  m_synced m' = m_synced m /\ m_start m' = m_start m /\ m_birthday m' = m_birthday m.

Lemma mem_ext_refl d m : mem_ext d m m.
Proof. unfold mem_ext. repeat split; auto. Qed.

Lemma mem_ext_trans d m1 m2 m3 : mem_ext d m1 m2 -> mem_ext d m2 m3 -> mem_ext d m1 m3.
Proof.
  intros (A1 & B1 & C1 & D1 & E1 & F1) (A2 & B2 & C2 & D2 & E2 & F2).
  unfold mem_ext. repeat split; try congruence.
  - intros a ai H. auto.
  - intros a ai H. destruct (B2 a ai H) as [H2|(H2 & r & Hr & ->)].
    + auto.
    + destruct (m_accts m1 !! a) as [ai1|] eqn:E.
      * apply A1 in E. congruence.
      * right. split; [reflexivity|]. eauto.
  - intros x H. destruct (C2 x H) as [H2|H2]; auto.
Qed.

Lemma load_acct_spec d m a :
  match m_accts m !! a with
  | Some ai => load_acct d m a = (m, Some ai)
  | None =>
      match d_accts d !! a with
      | Some r => load_acct d m a = (set_m_accts (<[a := info_of_row r]> (m_accts m)) m, Some (info_of_row r))
      | None => load_acct d m a = (m, None)
      end
  end.
Proof. unfold load_acct. destruct (m_accts m !! a); [reflexivity|]. destruct (d_accts d !! a); reflexivity. Qed.

Lemma load_acct_ext d m a m' o :
  load_acct d m a = (m', o) ->
  mem_ext d m m' /\ m_addrs m' = m_addrs m /\
  match o with
  | Some ai => m_accts m' !! a = Some ai
  | None => m' = m /\ m_accts m !! a = None /\ d_accts d !! a = None
  end.
Proof.
  pose proof (load_acct_spec d m a) as S.
  destruct (m_accts m !! a) as [ai|] eqn:E1.
  - rewrite S. intros [= <- <-]. split; [apply mem_ext_refl|]. auto.
  - destruct (d_accts d !! a) as [r|] eqn:E2; rewrite S; intros [= <- <-].
    + split; [|split; [reflexivity|simpl; apply lookup_insert]].
      unfold mem_ext; simpl. repeat split; auto.
      * intros a' ai' H. destruct (decide (a' = a)) as [->|Hne]; [congruence|].
        rewrite lookup_insert_ne by congruence. exact H.
      * intros a' ai' H. destruct (decide (a' = a)) as [->|Hne].
        -- rewrite lookup_insert in H. injection H as <-. right. eauto.
        -- rewrite lookup_insert_ne in H by congruence. auto.
    + split; [apply mem_ext_refl|]. auto.
Qed.

Lemma mem_ext_add_addr d m x :
  x ∈ d_addrs d -> mem_ext d m (set_m_addrs ({[x]} ∪ m_addrs m) m).
Proof.
  intros Hx. unfold mem_ext; simpl. repeat split; auto.
  intros y Hy. apply elem_of_union in Hy as [Hy|Hy]; [|auto].
  apply elem_of_singleton in Hy. subst. auto.
Qed.

Lemma read_ext d m q m' r : read q d m = (m', r) -> mem_ext d m m'.
Proof.
  destruct q as [x|a b|a|nm|a| | |h| | ]; simpl;
    try (intros [= <- <-]; apply mem_ext_refl).
  - case_bool_decide as E1; [intros [= <- <-]; apply mem_ext_refl|].
    case_bool_decide as E2; [|intros [= <- <-]; apply mem_ext_refl].
    destruct x as [a b i|k|k].
    + destruct (load_acct d m a) as [m1 o] eqn:EL.
      apply load_acct_ext in EL as (HE & HA & _).
      destruct o; intros [= <- <-]; [|exact HE].
      eapply mem_ext_trans; [exact HE|]. apply mem_ext_add_addr. exact E2.
    + intros [= <- <-]. apply mem_ext_add_addr. exact E2.
    + intros [= <- <-]. apply mem_ext_add_addr. exact E2.
  - destruct (load_acct d m a) as [m1 o] eqn:EL.
    apply load_acct_ext in EL as (HE & _). destruct o; intros [= <- <-]; exact HE.
  - destruct (a =? imported_acct)%N; [intros [= <- <-]; apply mem_ext_refl|].
    destruct (load_acct d m a) as [m1 o] eqn:EL.
    apply load_acct_ext in EL as (HE & _). destruct o; intros [= <- <-]; exact HE.
Qed.

Lemma run_queries_ext qs : forall d m m' rs,
  run_queries qs d m = (m', rs) -> mem_ext d m m'.
Proof.
  induction qs as [|q qs IH]; simpl; intros d m m' rs.
  - intros [= <- <-]. apply mem_ext_refl.
  - destruct (read q d m) as [m1 x] eqn:E1.
    destruct (run_queries qs d m1) as [m2 xs] eqn:E2.
    intros [= <- <-]. eapply mem_ext_trans; [eapply read_ext; eauto|eapply IH; eauto].
Qed.

(** Projections of an account row *)
Definition idxp (o : option acct_row) : option (N * N) := (fun r => (r_ext r, r_int r)) <$> o.
Definition namep (o : option acct_row) : option (N * option wo) := (fun r => (r_name r, r_kind r)) <$> o.

Lemma info_of_row_idx r b :
  next_of (info_of_row r) b = row_next r b /\ last_of (info_of_row r) b = N.pred (row_next r b).
Proof. destruct b; split; reflexivity. Qed.

Lemma coh_idx_ext m m' d0 d :
  coh_idx m d0 -> mem_ext d m m' ->
  (forall a, m_accts m !! a = None -> idxp (d_accts d !! a) = idxp (d_accts d0 !! a)) ->
  coh_idx m' d0.
Proof.
  intros HC (A & B & _) HU a ai H.
  destruct (B a ai H) as [H1|(H1 & r & Hr & ->)]; [apply (HC a ai H1)|].
  specialize (HU a H1). rewrite Hr in HU. simpl in HU.
  destruct (d_accts d0 !! a) as [r0|] eqn:E0; simpl in HU; [|discriminate].
  injection HU as He Hi. exists r0. split; [reflexivity|].
  intros b. destruct (info_of_row_idx r b) as [-> ->].
  destruct b; simpl; rewrite ?He, ?Hi; auto.
Qed.

Lemma coh_name_ext m m' d0 d :
  coh_name m d0 -> mem_ext d m m' ->
  (forall a, m_accts m !! a = None -> namep (d_accts d !! a) = namep (d_accts d0 !! a)) ->
  coh_name m' d0.
Proof.
  intros HC (A & B & _) HU a ai r0 H Hr0.
  destruct (B a ai H) as [H1|(H1 & r & Hr & ->)]; [apply (HC a ai r0 H1 Hr0)|].
  specialize (HU a H1). rewrite Hr, Hr0 in HU. simpl in HU. injection HU as HU1 HU2. simpl. congruence.
Qed.

Lemma coh_addr_ext m m' d0 d :
  coh_addr m d0 -> mem_ext d m m' -> d_addrs d ⊆ d_addrs d0 -> coh_addr m' d0.
Proof.
  intros HC (_ & _ & C & _) HS x Hx. destruct (C x Hx) as [H|H]; [apply HC, H|apply HS, H].
Qed.

Lemma coh_sync_ext m m' d0 d : coh_sync m d0 -> mem_ext d m m' -> coh_sync m' d0.
Proof. intros [H1 H2] (_ & _ & _ & D & E & _). unfold coh_sync. rewrite D, E. auto. Qed.

Lemma coh_bday_ext m m' d0 d : coh_bday m d0 -> mem_ext d m m' -> coh_bday m' d0.
Proof. intros H (_ & _ & _ & _ & _ & F). unfold coh_bday. rewrite F. exact H. Qed.

Lemma coherent_ext m m' d : coherent m d -> mem_ext d m m' -> coherent m' d.
Proof.
  intros (A & B & C & D & E) HE. split; [|split; [|split; [|split]]].
  - eapply coh_idx_ext; eauto.
  - eapply coh_name_ext; eauto.
  - eapply coh_addr_ext; eauto.
  - eapply coh_sync_ext; eauto.
  - eapply coh_bday_ext; eauto.
Qed.

(** ** Rolled-back transactions outside K leave memory coherent with the
    committed database *)

Definition AIK (d0 d : disk) (m : mem) (armed issued : bool) : Prop :=
  coherent m d0 /\ (issued = false -> d_addrs d = d_addrs d0) /\
  (armed = false -> forall a, m_accts m !! a = None -> d_accts d !! a = d_accts d0 !! a).

Definition arm (o : op) (armed : bool) : bool :=
  match o with ONewAccount _ | ONewAccountWO _ _ => true | _ => armed end.
Definition iss (o : op) (issued : bool) : bool :=
  match o with ONext _ _ _ => true | _ => issued end.

Lemma set_synced_accts s t t' r :
  set_synced s t = (t', r) ->
  d_accts (t_disk t') = d_accts (t_disk t) /\ d_addrs (t_disk t') = d_addrs (t_disk t) /\
  m_accts (t_mem t') = m_accts (t_mem t) /\ m_addrs (t_mem t') = m_addrs (t_mem t) /\
  t_cbs t' = t_cbs t /\ d_lastacct (t_disk t') = d_lastacct (t_disk t).
Proof.
  unfold set_synced. case_match; intros [= <- <-]; simpl; auto 10.
Qed.

Lemma read_nonloading q d m :
  loads_cache (ORead q) = false -> (read q d m).1 = m.
Proof. destruct q; simpl; try discriminate; reflexivity. Qed.

Lemma read_addrs_same q d m :
  (forall x, q <> QLookup x) -> m_addrs (read q d m).1 = m_addrs m.
Proof.
  intros Hq. destruct q as [x|a b|a|nm|a| | |h| | ]; simpl; try reflexivity.
  - exfalso. eapply Hq. reflexivity.
  - destruct (load_acct d m a) as [m1 o] eqn:EL. apply load_acct_ext in EL as (_ & HA & _).
    destruct o; exact HA.
  - destruct (a =? imported_acct)%N; [reflexivity|].
    destruct (load_acct d m a) as [m1 o] eqn:EL. apply load_acct_ext in EL as (_ & HA & _).
    destruct o; exact HA.
Qed.

Lemma mem_ext_uncached d m m' a :
  mem_ext d m m' -> m_accts m' !! a = None -> m_accts m !! a = None.
Proof.
  intros (E1 & _) H. destruct (m_accts m !! a) as [ai|] eqn:E; [|reflexivity].
  apply E1 in E. congruence.
Qed.

(** Cache extension from rows that, for uncached accounts, are the committed
    ones; the address cache does not grow. *)
Lemma AIK_ext_accts d0 d m m' issued :
  AIK d0 d m false issued -> mem_ext d m m' -> m_addrs m' = m_addrs m ->
  AIK d0 d m' false issued.
Proof.
  intros ((A & B & C & D & E) & H2 & H3) HE HA. specialize (H3 eq_refl).
  split; [|split; [exact H2|]].
  - split; [|split; [|split; [|split]]].
    + eapply coh_idx_ext; eauto. intros a Ha. rewrite (H3 a Ha). reflexivity.
    + eapply coh_name_ext; eauto. intros a Ha. rewrite (H3 a Ha). reflexivity.
    + unfold coh_addr. rewrite HA. exact C.
    + eapply coh_sync_ext; eauto.
    + eapply coh_bday_ext; eauto.
  - intros _ a Ha. apply H3. eapply mem_ext_uncached; eauto.
Qed.

Lemma AIK_ext_full d0 d m m' :
  AIK d0 d m false false -> mem_ext d m m' -> AIK d0 d m' false false.
Proof.
  intros ((A & B & C & D & E) & H2 & H3) HE. specialize (H3 eq_refl). specialize (H2 eq_refl).
  split; [|split; [auto|]].
  - split; [|split; [|split; [|split]]].
    + eapply coh_idx_ext; eauto. intros a Ha. rewrite (H3 a Ha). reflexivity.
    + eapply coh_name_ext; eauto. intros a Ha. rewrite (H3 a Ha). reflexivity.
    + eapply coh_addr_ext; eauto. rewrite H2. reflexivity.
    + eapply coh_sync_ext; eauto.
    + eapply coh_bday_ext; eauto.
  - intros _ a Ha. apply H3. eapply mem_ext_uncached; eauto.
Qed.

Lemma AIK_cong d0 d m armed issued d' m' :
  d_accts d' = d_accts d -> d_addrs d' = d_addrs d ->
  m_accts m' = m_accts m -> m_addrs m' ⊆ m_addrs m ->
  m_synced m' = m_synced m -> m_start m' = m_start m -> m_birthday m' = m_birthday m ->
  AIK d0 d m armed issued -> AIK d0 d' m' armed issued.
Proof.
  intros E1 E2 E3 E4 E5 E6 E7 ((A & B & C & D & E) & H2 & H3).
  split; [|split].
  - split; [|split; [|split; [|split]]].
    + unfold coh_idx. rewrite E3. exact A.
    + unfold coh_name. rewrite E3. exact B.
    + intros x Hx. apply C, E4, Hx.
    + unfold coh_sync. rewrite E5, E6. exact D.
    + unfold coh_bday. rewrite E7. exact E.
  - rewrite E2. exact H2.
  - rewrite E1, E3. exact H3.
Qed.

Lemma AIK_arm d0 d m armed issued : AIK d0 d m armed issued -> AIK d0 d m true issued.
Proof. intros (A & B & _). split; [exact A|split; [exact B|discriminate]]. Qed.

Lemma new_account_AIK d0 k nm t t' r armed issued :
  new_account k nm t = (t', r) ->
  AIK d0 (t_disk t) (t_mem t) armed issued -> AIK d0 (t_disk t') (t_mem t') true issued.
Proof.
  intros HS HI. apply AIK_arm in HI. unfold new_account in HS.
  repeat case_match; simplify_eq; simpl; try exact HI.
  destruct HI as (A & B & _). split; [exact A|split; [exact B|discriminate]].
Qed.

Lemma abort_k_step rb d0 o ops t t' r armed issued :
  abort_k rb armed issued (o :: ops) = false ->
  step rb o t = (t', r) ->
  AIK d0 (t_disk t) (t_mem t) armed issued ->
  AIK d0 (t_disk t') (t_mem t') (arm o armed) (iss o issued) /\
  abort_k rb (arm o armed) (iss o issued) ops = false.
Proof.
  intros HK HS HI.
  destruct o as [nm|a nm|a b n|a b last|x|s| |tm|s v|x bs|q|nm wk]; simpl in HK; try discriminate.
  - (* new account *)
    split; [|exact HK]. simpl in HS. eapply new_account_AIK; eauto.
  - (* next *)
    apply orb_false_iff in HK as [HK HK2]. apply orb_false_iff in HK as [-> ->].
    split; [|exact HK2]. simpl in HS.
    destruct (load_acct (t_disk t) (t_mem t) a) as [m1 o] eqn:EL.
    apply load_acct_ext in EL as (HE & HAd & Ho).
    pose proof (AIK_ext_accts _ _ _ _ _ HI HE HAd) as HI1.
    assert (HW : forall d', d_accts d' = d_accts (t_disk t) -> AIK d0 d' m1 false true).
    { intros d' Hd. destruct HI1 as (A & _ & C). split; [exact A|split; [discriminate|]].
      intros _ a' Ha'. rewrite Hd. apply C; auto. }
    destruct o as [ai|]; [|injection HS as <- <-; apply HW; reflexivity].
    destruct ((max_addrs <? n)%N || (max_addrs <? next_of ai b + n)%N); [injection HS as <- <-; apply HW; reflexivity|].
    destruct (n =? 0)%N; [injection HS as <- <-; apply HW; reflexivity|].
    unfold put_chain in HS.
    destruct (d_accts (t_disk t) !! a) as [r0|] eqn:Er0; injection HS as <- <-; simpl.
    + destruct HI1 as (A & _ & C). split; [exact A|split; [discriminate|]].
      intros _ a' Ha'. simpl. assert (a' <> a) by congruence.
      rewrite lookup_insert_ne by congruence. apply C; auto.
    + apply HW. reflexivity.
  - (* mark used *)
    apply orb_false_iff in HK as [_ HK]. split; [|exact HK].
    simpl in HS. injection HS as <- <-. simpl.
    eapply AIK_cong; [..|exact HI]; try reflexivity. simpl. set_solver.
  - (* birthday block *)
    apply orb_false_iff in HK as [_ HK]. split; [|exact HK].
    simpl in HS. injection HS as <- <-. simpl.
    eapply AIK_cong; [..|exact HI]; reflexivity.
  - (* read *)
    simpl in HS. destruct (read q (t_disk t) (t_mem t)) as [m' x] eqn:ER. injection HS as <- <-. simpl.
    destruct q as [y|a b|a|nm|a| | |h| | ]; simpl in HK.
    + (* lookup: nothing issued, nothing created *)
      apply orb_false_iff in HK as [HK HK2]. apply orb_false_iff in HK as [-> ->].
      split; [|exact HK2]. eapply AIK_ext_full; [exact HI|]. eapply read_ext; exact ER.
    + apply orb_false_iff in HK as [HL HK]. split; [|exact HK].
      rewrite andb_true_r in HL. subst armed.
      eapply AIK_ext_accts; [exact HI|eapply read_ext; exact ER|].
      pose proof (read_addrs_same (QLast a b) (t_disk t) (t_mem t)) as HA. rewrite ER in HA.
      apply HA. discriminate.
    + apply orb_false_iff in HK as [HL HK]. split; [|exact HK].
      rewrite andb_true_r in HL. subst armed.
      eapply AIK_ext_accts; [exact HI|eapply read_ext; exact ER|].
      pose proof (read_addrs_same (QProps a) (t_disk t) (t_mem t)) as HA. rewrite ER in HA.
      apply HA. discriminate.
    + apply orb_false_iff in HK as [_ HK]. split; [|exact HK]. simpl in ER. injection ER as <- <-. exact HI.
    + apply orb_false_iff in HK as [_ HK]. split; [|exact HK]. simpl in ER. injection ER as <- <-. exact HI.
    + apply orb_false_iff in HK as [_ HK]. split; [|exact HK]. simpl in ER. injection ER as <- <-. exact HI.
    + apply orb_false_iff in HK as [_ HK]. split; [|exact HK]. simpl in ER. injection ER as <- <-. exact HI.
    + apply orb_false_iff in HK as [_ HK]. split; [|exact HK]. simpl in ER. injection ER as <- <-. exact HI.
    + apply orb_false_iff in HK as [_ HK]. split; [|exact HK]. simpl in ER. injection ER as <- <-. exact HI.
    + apply orb_false_iff in HK as [_ HK]. split; [|exact HK]. simpl in ER. injection ER as <- <-. exact HI.
  - (* new watch-only account *)
    split; [|exact HK]. simpl in HS. eapply new_account_AIK; eauto.
Qed.

Lemma abort_k_ops rb d0 ops : forall t t' outs armed issued,
  abort_k rb armed issued ops = false ->
  run_ops rb ops t = (t', outs) ->
  AIK d0 (t_disk t) (t_mem t) armed issued ->
  coherent (t_mem t') d0.
Proof.
  induction ops as [|o ops IH]; simpl; intros t t' outs armed issued HK HR HI.
  - injection HR as <- <-. apply HI.
  - destruct (step rb o t) as [t1 x] eqn:ES.
    destruct (run_ops rb ops t1) as [t2 xs] eqn:ER. injection HR as <- <-.
    destruct (abort_k_step rb d0 o ops t t1 x armed issued HK ES HI) as [HI1 HK1].
    eapply IH; eauto.
Qed.

Lemma rename_switch_eq a nm r d : rename_switch a nm r d = rename_rows a nm r d.
Proof. unfold rename_switch. destruct (r_kind r); reflexivity. Qed.

(** ** Committed transactions: next indices *)

Definition cb_match (a : N) (b : bool) (c : callback) : bool :=
  (cb_acct c =? a)%N && Bool.eqb (cb_branch c) b.

(** (next index, last address index) of branch [b] of account [a] once the
    pending callbacks have run *)
Definition eff (cbs : list callback) (a : N) (b : bool) (v : N * N) : N * N :=
  fold_left (fun v c => if cb_match a b c then (cb_next c, cb_last c) else v) cbs v.

Definition TI_idx (d : disk) (m : mem) (cbs : list callback) (pend : list (N * bool)) : Prop :=
  wfL d /\
  Forall (fun c => cached m (cb_acct c) /\ (cb_acct c, cb_branch c) ∈ pend) cbs /\
  forall a ai, m_accts m !! a = Some ai ->
    exists r, d_accts d !! a = Some r /\
      forall b, eff cbs a b (next_of ai b, last_of ai b) = (row_next r b, N.pred (row_next r b)).

Lemma eff_cons c cbs a b v :
  eff (c :: cbs) a b v = eff cbs a b (if cb_match a b c then (cb_next c, cb_last c) else v).
Proof. reflexivity. Qed.

Lemma eff_snoc c cbs a b v :
  eff (cbs ++ [c]) a b v = if cb_match a b c then (cb_next c, cb_last c) else eff cbs a b v.
Proof. unfold eff. rewrite fold_left_app. reflexivity. Qed.

Lemma eff_nomatch cbs a b v :
  Forall (fun c => cb_match a b c = false) cbs -> eff cbs a b v = v.
Proof.
  induction 1 as [|c cbs Hc _ IH]; [reflexivity|]. rewrite eff_cons, Hc. exact IH.
Qed.

Lemma cb_match_acct a b c : cb_acct c <> a -> cb_match a b c = false.
Proof. intros H. unfold cb_match. apply andb_false_iff. left. apply N.eqb_neq. exact H. Qed.

Lemma cb_match_true a b c : cb_match a b c = true -> cb_acct c = a /\ cb_branch c = b.
Proof.
  unfold cb_match. intros H. apply andb_true_iff in H as [H1 H2].
  apply N.eqb_eq in H1. apply Bool.eqb_prop in H2. auto.
Qed.

Lemma TI_idx_nil d m pend : TI_idx d m [] pend -> coh_idx m d.
Proof.
  intros (_ & _ & H) a ai Ha. destruct (H a ai Ha) as (r & Hr & Hb).
  exists r. split; [exact Hr|]. intros b. specialize (Hb b). simpl in Hb.
  unfold eff in Hb. simpl in Hb. injection Hb as -> ->. auto.
Qed.

Lemma TI_idx_init d m : wfL d -> coh_idx m d -> TI_idx d m [] [].
Proof.
  intros HL HC. split; [exact HL|]. split; [constructor|].
  intros a ai Ha. destruct (HC a ai Ha) as (r & Hr & Hb). exists r. split; [exact Hr|].
  intros b. destruct (Hb b) as [-> ->]. reflexivity.
Qed.

Lemma TI_idx_cong d m cbs pend d' m' :
  d_accts d' = d_accts d -> d_lastacct d' = d_lastacct d -> m_accts m' = m_accts m ->
  TI_idx d m cbs pend -> TI_idx d' m' cbs pend.
Proof.
  intros E1 E2 E3 (A & B & C). unfold TI_idx, wfL, cached in *. rewrite E1, E2, E3. auto.
Qed.

Lemma TI_idx_pend d m cbs pend p :
  TI_idx d m cbs pend -> TI_idx d m cbs (p :: pend).
Proof.
  intros (A & B & C). split; [exact A|]. split; [|exact C].
  eapply Forall_impl; [|exact B]. intros c [H1 H2]. split; [exact H1|]. apply elem_of_cons. auto.
Qed.

Lemma TI_idx_ext d m m' cbs pend :
  TI_idx d m cbs pend -> mem_ext d m m' -> TI_idx d m' cbs pend.
Proof.
  intros (A & B & C) (E1 & E2 & _). split; [exact A|]. split.
  - eapply Forall_impl; [|exact B]. intros c [[ai H1] H2]. split; [|exact H2].
    exists ai. apply E1. exact H1.
  - intros a ai Ha. destruct (E2 a ai Ha) as [H|(H & r & Hr & ->)]; [apply C; exact H|].
    exists r. split; [exact Hr|]. intros b.
    rewrite eff_nomatch.
    + destruct (info_of_row_idx r b) as [-> ->]. reflexivity.
    + eapply Forall_impl; [|exact B]. intros c [[ai0 Hc] _]. apply cb_match_acct.
      intros Heq. rewrite Heq in Hc. congruence.
Qed.

Lemma next_of_set_branch b nx la ai b' :
  next_of (set_branch b nx la ai) b' = if Bool.eqb b b' then nx else next_of ai b'.
Proof. destruct b, b'; reflexivity. Qed.
Lemma last_of_set_branch b nx la ai b' :
  last_of (set_branch b nx la ai) b' = if Bool.eqb b b' then la else last_of ai b'.
Proof. destruct b, b'; reflexivity. Qed.
Lemma row_next_set b nx r b' :
  row_next (row_set_next b nx r) b' = if Bool.eqb b b' then nx else row_next r b'.
Proof. destruct b, b'; reflexivity. Qed.
Lemma row_next_set_name nm r b : row_next (row_set_name nm r) b = row_next r b.
Proof. destruct b; reflexivity. Qed.
Lemma next_of_set_name nm ai b : next_of (set_name nm ai) b = next_of ai b.
Proof. destruct b; reflexivity. Qed.
Lemma last_of_set_name nm ai b : last_of (set_name nm ai) b = last_of ai b.
Proof. destruct b; reflexivity. Qed.

Lemma TI_idx_run_cb d m c cbs pend :
  TI_idx d m (c :: cbs) pend -> TI_idx d (run_cb c m) cbs pend.
Proof.
  intros (A & B & C). inversion B as [|c0 l [[ai Hai] Hp] B']; subst.
  unfold run_cb. simpl. rewrite Hai.
  split; [exact A|]. split.
  - eapply Forall_impl; [|exact B']. intros c' [[ai' H1] H2]. split; [|exact H2].
    unfold cached. simpl. destruct (decide (cb_acct c' = cb_acct c)) as [->|Hne].
    + rewrite lookup_insert. eauto.
    + rewrite lookup_insert_ne by congruence. eauto.
  - simpl. intros a ai' Ha. destruct (decide (a = cb_acct c)) as [->|Hne].
    + rewrite lookup_insert in Ha. injection Ha as <-.
      destruct (C _ _ Hai) as (r & Hr & Hb). exists r. split; [exact Hr|].
      intros b. specialize (Hb b). rewrite eff_cons in Hb.
      rewrite next_of_set_branch, last_of_set_branch.
      unfold cb_match in Hb. rewrite N.eqb_refl in Hb. simpl in Hb.
      destruct (Bool.eqb (cb_branch c) b); exact Hb.
    + rewrite lookup_insert_ne in Ha by congruence.
      destruct (C _ _ Ha) as (r & Hr & Hb). exists r. split; [exact Hr|].
      intros b. specialize (Hb b). rewrite eff_cons, cb_match_acct in Hb by congruence. exact Hb.
Qed.

Lemma TI_idx_settle cbs : forall d m pend,
  TI_idx d m cbs pend -> TI_idx d (settle cbs m) [] pend.
Proof.
  induction cbs as [|c cbs IH]; intros d m pend H; [exact H|].
  simpl. apply IH. apply TI_idx_run_cb. exact H.
Qed.

Definition pend_of (o : op) (pend : list (N * bool)) : list (N * bool) :=
  match o with ONext a b _ => (a, b) :: pend | _ => pend end.

Lemma pred_plus i n : (n <> 0)%N -> N.pred (i + n) = (i + n - 1)%N.
Proof. lia. Qed.

Lemma new_account_TI_idx k nm t t' r pend :
  new_account k nm t = (t', r) ->
  TI_idx (t_disk t) (t_mem t) (t_cbs t) pend -> TI_idx (t_disk t') (t_mem t') (t_cbs t') pend.
Proof.
  intros HS HT. unfold new_account in HS.
  repeat case_match; simplify_eq; simpl; try exact HT.
  destruct HT as (A & B & C). split; [|split; [exact B|]].
  - intros a Ha. simpl in *. destruct (decide (a = d_lastacct (t_disk t) + 1)%N) as [->|Hne]; [lia|].
    rewrite lookup_insert_ne in Ha by congruence. specialize (A a Ha). lia.
  - intros a ai Ha. destruct (C a ai Ha) as (r0 & Hr0 & Hb). exists r0. split; [|exact Hb].
    simpl. assert (a <= d_lastacct (t_disk t))%N by (apply A; eauto).
    rewrite lookup_insert_ne by lia. exact Hr0.
Qed.

Lemma commit_idx_step rb o ops t t' r pend :
  commit_k_idx pend (o :: ops) = false ->
  step rb o t = (t', r) ->
  TI_idx (t_disk t) (t_mem t) (t_cbs t) pend ->
  TI_idx (t_disk t') (t_mem t') (t_cbs t') (pend_of o pend) /\
  commit_k_idx (pend_of o pend) ops = false.
Proof.
  intros HK HS HT.
  destruct o as [nm|a nm|a b n|a b last|x|s| |tm|s v|x bs|q|nm wk]; simpl in HK.
  - (* new account *)
    split; [|exact HK]. simpl in HS. eapply new_account_TI_idx; eauto.
  - (* rename *)
    split; [|exact HK]. simpl in HS.
    repeat case_match; simplify_eq; simpl; try exact HT.
    all: rewrite rename_switch_eq; unfold rename_rows; simpl.
    + (* cached *)
      destruct HT as (A & B & C). split; [|split].
      * intros a' Ha'. simpl in *. destruct (decide (a' = a)) as [->|Hne]; [apply A; eauto|].
        rewrite lookup_insert_ne in Ha' by congruence. apply A; exact Ha'.
      * eapply Forall_impl; [|exact B]. intros c [[ai' Hq1] Hq2]. split; [|exact Hq2].
        unfold cached; simpl. destruct (decide (cb_acct c = a)) as [->|Hne].
        -- rewrite lookup_insert. eauto.
        -- rewrite lookup_insert_ne by congruence. eauto.
      * simpl. intros a' ai' Ha'. destruct (decide (a' = a)) as [->|Hne].
        -- rewrite lookup_insert in Ha'. injection Ha' as <-.
           match goal with H : m_accts (t_mem t) !! a = Some ?ai0 |- _ =>
             destruct (C a ai0 H) as (r0 & Hr0 & Hb) end.
           rewrite lookup_insert. eexists. split; [reflexivity|].
           intros b0. rewrite next_of_set_name, last_of_set_name, row_next_set_name.
           assert (r0 = a0) by congruence. subst. apply Hb.
        -- rewrite lookup_insert_ne in Ha' by congruence. rewrite lookup_insert_ne by congruence.
           apply C; exact Ha'.
    + (* not cached *)
      destruct HT as (A & B & C). split; [|split; [exact B|]].
      * intros a' Ha'. simpl in *. destruct (decide (a' = a)) as [->|Hne]; [apply A; eauto|].
        rewrite lookup_insert_ne in Ha' by congruence. apply A; exact Ha'.
      * simpl. intros a' ai' Ha'. assert (a' <> a) by congruence.
        rewrite lookup_insert_ne by congruence. apply C; exact Ha'.
  - (* next *)
    split; [|exact HK]. simpl in HS.
    destruct (load_acct (t_disk t) (t_mem t) a) as [m1 o] eqn:EL.
    apply load_acct_ext in EL as (HE & HAd & Ho).
    pose proof (TI_idx_ext _ _ _ _ _ HT HE) as HT1.
    destruct o as [ai|].
    2:{ injection HS as <- <-. simpl. apply TI_idx_pend. exact HT1. }
    destruct ((max_addrs <? n)%N || (max_addrs <? next_of ai b + n)%N).
    { injection HS as <- <-. simpl. apply TI_idx_pend. exact HT1. }
    destruct (n =? 0)%N eqn:En.
    { injection HS as <- <-. simpl. apply TI_idx_pend. exact HT1. }
    apply N.eqb_neq in En.
    destruct HT1 as (A & B & C).
    destruct (C a ai Ho) as (r0 & Hr0 & Hb0).
    unfold put_chain in HS. rewrite Hr0 in HS. injection HS as <- <-. simpl.
    match goal with |- TI_idx ?d' _ ?cbs' ?pend' => assert (G : TI_idx d' m1 cbs' pend') end.
    2:{ eapply TI_idx_cong; [..|exact G]; try reflexivity. destruct rb; reflexivity. }
    split; [|split].
    + intros a' Ha'. simpl in *. destruct (decide (a' = a)) as [->|Hne]; [apply A; eauto|].
      rewrite lookup_insert_ne in Ha' by congruence. apply A; exact Ha'.
    + apply Forall_app. split.
      * eapply Forall_impl; [|exact B]. intros c [Hq1 Hq2]. split; [exact Hq1|]. apply elem_of_cons; auto.
      * constructor; [|constructor]. simpl. split; [eexists; exact Ho|]. apply elem_of_cons; auto.
    + simpl. intros a' ai' Ha'. destruct (decide (a' = a)) as [->|Hne].
      * assert (ai' = ai) by congruence. subst ai'.
        rewrite lookup_insert. eexists. split; [reflexivity|].
        intros b'. rewrite eff_snoc, row_next_set. unfold cb_match. simpl. rewrite N.eqb_refl. simpl.
        destruct (Bool.eqb b b') eqn:Eb.
        -- reflexivity.
        -- apply Hb0.
      * rewrite lookup_insert_ne by congruence.
        destruct (C a' ai' Ha') as (r1 & Hr1 & Hb1). exists r1. split; [exact Hr1|].
        intros b'. rewrite eff_snoc, cb_match_acct by (simpl; congruence). apply Hb1.
  - (* extend *)
    apply orb_false_iff in HK as [HP HK]. split; [|exact HK].
    apply bool_decide_eq_false in HP.
    simpl in HS.
    destruct (load_acct (t_disk t) (t_mem t) a) as [m1 o] eqn:EL.
    apply load_acct_ext in EL as (HE & HAd & Ho).
    pose proof (TI_idx_ext _ _ _ _ _ HT HE) as HT1.
    destruct o as [ai|].
    2:{ injection HS as <- <-. simpl. exact HT1. }
    destruct (last <? next_of ai b)%N eqn:El.
    { injection HS as <- <-. simpl. exact HT1. }
    apply N.ltb_ge in El.
    destruct (max_addrs <? last)%N.
    { injection HS as <- <-. simpl. exact HT1. }
    destruct (bool_decide (is_Some (ai_kind ai))).
    { injection HS as <- <-. simpl. exact HT1. }
    destruct HT1 as (A & B & C).
    destruct (C a ai Ho) as (r0 & Hr0 & Hb0).
    unfold put_chain in HS. rewrite Hr0 in HS. injection HS as <- <-. simpl.
    assert (Hnm : Forall (fun c => cb_match a b c = false) (t_cbs t)).
    { eapply Forall_impl; [|exact B]. intros c [_ Hc]. destruct (cb_match a b c) eqn:Em; [|reflexivity].
      apply cb_match_true in Em as [<- <-]. contradiction. }
    split; [|split].
    + intros a' Ha'. simpl in *. destruct (decide (a' = a)) as [->|Hne]; [apply A; eauto|].
      rewrite lookup_insert_ne in Ha' by congruence. apply A; exact Ha'.
    + eapply Forall_impl; [|exact B]. intros c [[ai' Hq1] Hq2]. split; [|exact Hq2].
      unfold cached; simpl. destruct (decide (cb_acct c = a)) as [->|Hne].
      * rewrite lookup_insert. eauto.
      * rewrite lookup_insert_ne by congruence. eauto.
    + simpl. intros a' ai' Ha'. destruct (decide (a' = a)) as [->|Hne].
      * rewrite lookup_insert in Ha'. injection Ha' as <-.
        rewrite lookup_insert. eexists. split; [reflexivity|].
        intros b'. rewrite next_of_set_branch, last_of_set_branch, row_next_set.
        destruct (Bool.eqb b b') eqn:Eb.
        -- apply Bool.eqb_prop in Eb. subst b'. rewrite eff_nomatch by exact Hnm.
           f_equal; lia.
        -- apply Hb0.
      * rewrite lookup_insert_ne in Ha' by congruence. rewrite lookup_insert_ne by congruence.
        apply C; exact Ha'.
  - (* mark used *)
    split; [|exact HK]. simpl in HS. injection HS as <- <-. simpl.
    eapply TI_idx_cong; [..|exact HT]; reflexivity.
  - (* set synced *)
    split; [|exact HK]. simpl in HS. apply set_synced_accts in HS as (E1 & _ & E3 & _ & E5 & E6).
    rewrite E5. eapply TI_idx_cong; [..|exact HT]; assumption.
  - split; [|exact HK]. simpl in HS. apply set_synced_accts in HS as (E1 & _ & E3 & _ & E5 & E6).
    rewrite E5. eapply TI_idx_cong; [..|exact HT]; assumption.
  - split; [|exact HK]. simpl in HS. injection HS as <- <-. simpl.
    eapply TI_idx_cong; [..|exact HT]; reflexivity.
  - split; [|exact HK]. simpl in HS. injection HS as <- <-. simpl.
    eapply TI_idx_cong; [..|exact HT]; reflexivity.
  - (* import *)
    split; [|exact HK]. simpl in HS.
    repeat case_match; simplify_eq; simpl; try exact HT;
      (eapply TI_idx_cong; [..|exact HT]; reflexivity).
  - (* read *)
    split; [|exact HK]. simpl in HS.
    destruct (read q (t_disk t) (t_mem t)) as [m' x] eqn:ER. injection HS as <- <-. simpl.
    eapply TI_idx_ext; [exact HT|]. eapply read_ext; exact ER.
  - (* new watch-only account *)
    split; [|exact HK]. simpl in HS. eapply new_account_TI_idx; eauto.
Qed.

(** ** Committed transactions: names, address cache, sync state, birthday *)

Definition TI_rest (d : disk) (m : mem) (cbs : list callback) : Prop :=
  coh_name m d /\ coh_addr m d /\
  Forall (fun c => forall x, x ∈ cb_addrs c -> x ∈ d_addrs d) cbs /\
  wfA d /\ coh_sync m d /\ coh_bday m d.

Definition is_synced_nil (o : op) : bool := match o with OSetSyncedNil => true | _ => false end.

Lemma TI_rest_ext d m m' cbs : TI_rest d m cbs -> mem_ext d m m' -> TI_rest d m' cbs.
Proof.
  intros (A & B & C & D & E & F) HE. repeat split; auto.
  - eapply coh_name_ext; eauto.
  - eapply coh_addr_ext; eauto.
  - eapply coh_sync_ext; eauto.
  - eapply coh_sync_ext; eauto.
  - eapply coh_bday_ext; eauto.
Qed.

Lemma elem_of_chain_range a b i n x :
  x ∈ (Chain a b <$> range_from i n) -> exists j, x = Chain a b j.
Proof. intros H. apply elem_of_list_fmap in H as (j & -> & _). eauto. Qed.

Lemma wfA_put d a b xs r' :
  wfA d -> is_Some (d_accts d !! a) ->
  (forall x, x ∈ xs -> exists j, x = Chain a b j) ->
  wfA (set_d_accts (<[a := r']> (d_accts d)) (set_d_addrs (list_to_set xs ∪ d_addrs d) d)).
Proof.
  intros HA Hr Hxs a' b' i' H. simpl in *.
  destruct (decide (a' = a)) as [->|Hne]; [rewrite lookup_insert; eauto|].
  rewrite lookup_insert_ne by congruence.
  apply elem_of_union in H as [H|H]; [|eapply HA; exact H].
  apply elem_of_list_to_set in H. destruct (Hxs _ H) as [j Hj]. congruence.
Qed.

Lemma r_name_set_next b nx r : r_name (row_set_next b nx r) = r_name r.
Proof. destruct b; reflexivity. Qed.
Lemma ai_name_set_branch b nx la ai : ai_name (set_branch b nx la ai) = ai_name ai.
Proof. destruct b; reflexivity. Qed.
Lemma r_kind_set_next b nx r : r_kind (row_set_next b nx r) = r_kind r.
Proof. destruct b; reflexivity. Qed.
Lemma ai_kind_set_branch b nx la ai : ai_kind (set_branch b nx la ai) = ai_kind ai.
Proof. destruct b; reflexivity. Qed.

Lemma wrap32_small t : (0 <=? t)%Z && (t <? 4294967296)%Z = true -> wrap32 t = t.
Proof. intros H. apply andb_true_iff in H as [H1 H2]. unfold wrap32. apply Z.mod_small. lia. Qed.

Lemma TI_rest_put d m m' cbs a b xs r0 nx newcbs :
  TI_rest d m cbs -> d_accts d !! a = Some r0 ->
  (forall x, x ∈ xs -> exists j, x = Chain a b j) ->
  (forall a' ai', m_accts m' !! a' = Some ai' ->
     exists ai0, m_accts m !! a' = Some ai0 /\ ai_name ai' = ai_name ai0 /\ ai_kind ai' = ai_kind ai0) ->
  m_addrs m' ⊆ list_to_set xs ∪ m_addrs m ->
  m_synced m' = m_synced m -> m_start m' = m_start m -> m_birthday m' = m_birthday m ->
  Forall (fun c => forall x, x ∈ cb_addrs c -> x ∈ xs) newcbs ->
  TI_rest (set_d_accts (<[a := row_set_next b nx r0]> (d_accts d))
             (set_d_addrs (list_to_set xs ∪ d_addrs d) d)) m' (cbs ++ newcbs).
Proof.
  intros (A & B & C & D & [E1 E2] & F) Hr0 Hxs Hacc Hadd Hs1 Hs2 Hs3 Hnew.
  unfold TI_rest, coh_sync, coh_bday. simpl. rewrite Hs1, Hs2, Hs3.
  repeat split; auto.
  - intros a' ai' r' Ha' Hr'. simpl in Hr'. destruct (Hacc a' ai' Ha') as (ai0 & Hai0 & -> & ->).
    destruct (decide (a' = a)) as [->|Hne].
    + rewrite lookup_insert in Hr'. injection Hr' as <-. rewrite r_name_set_next, r_kind_set_next. eapply A; eauto.
    + rewrite lookup_insert_ne in Hr' by congruence. eapply A; eauto.
  - intros y Hy. simpl. apply Hadd in Hy. apply elem_of_union in Hy as [Hy|Hy]; [set_solver|].
    apply B in Hy. set_solver.
  - apply Forall_app. split.
    + eapply Forall_impl; [|exact C]. intros c Hc y Hy. simpl. specialize (Hc y Hy). set_solver.
    + eapply Forall_impl; [|exact Hnew]. intros c Hc y Hy. simpl. apply elem_of_union. left.
      apply elem_of_list_to_set. apply Hc, Hy.
  - apply (wfA_put _ a b); eauto.
Qed.

Lemma set_synced_rest s t t' r :
  (0 <=? s_time s)%Z && (s_time s <? 4294967296)%Z = true ->
  set_synced s t = (t', r) ->
  TI_rest (t_disk t) (t_mem t) (t_cbs t) -> TI_rest (t_disk t') (t_mem t') (t_cbs t').
Proof.
  intros Ht HS HR. unfold set_synced in HS. case_match; injection HS as <- <-; [exact HR|].
  destruct HR as (A & B & C & D & [E1 E2] & F). simpl. repeat split; auto.
  simpl. rewrite (wrap32_small _ Ht). destruct s; reflexivity.
Qed.

Lemma new_account_TI_rest k nm t t' r pend :
  new_account k nm t = (t', r) ->
  TI_idx (t_disk t) (t_mem t) (t_cbs t) pend ->
  TI_rest (t_disk t) (t_mem t) (t_cbs t) -> TI_rest (t_disk t') (t_mem t') (t_cbs t').
Proof.
  intros HS HI HR. unfold new_account in HS.
  repeat case_match; simplify_eq; simpl; try exact HR.
  destruct HR as (A & B & C & D & E & F). destruct HI as (IA & IB & IC).
  repeat split; auto; try apply E.
  - intros a ai r0 Ha Hr0. simpl in Hr0.
    destruct (IC a ai Ha) as (r1 & Hr1 & _).
    assert (a <= d_lastacct (t_disk t))%N by (apply IA; eauto).
    rewrite lookup_insert_ne in Hr0 by lia. eapply A; eauto.
  - intros a b i Hx. simpl in *. specialize (D a b i Hx).
    destruct (decide (a = d_lastacct (t_disk t) + 1)%N) as [->|Hne]; [rewrite lookup_insert; eauto|].
    rewrite lookup_insert_ne by congruence. exact D.
Qed.

Lemma commit_rest_step rb o t t' r pend :
  op_times_ok o = true -> is_synced_nil o = false ->
  step rb o t = (t', r) ->
  TI_idx (t_disk t) (t_mem t) (t_cbs t) pend ->
  TI_rest (t_disk t) (t_mem t) (t_cbs t) ->
  TI_rest (t_disk t') (t_mem t') (t_cbs t').
Proof.
  intros HT HN HS HI HR.
  destruct o as [nm|a nm|a b n|a b last|x|s| |tm|s v|x bs|q|nm wk]; simpl in HN; try discriminate.
  - (* new account *)
    simpl in HS. eapply new_account_TI_rest; eauto.
  - (* rename *)
    simpl in HS. repeat case_match; simplify_eq; simpl; try exact HR.
    all: rewrite rename_switch_eq; unfold rename_rows; simpl.
    + destruct HR as (A & B & C & D & E & F). repeat split; auto; try apply E.
      * intros a' ai' r' Ha' Hr'. simpl in *. destruct (decide (a' = a)) as [->|Hne].
        -- rewrite lookup_insert in Ha'; rewrite lookup_insert in Hr'. simplify_eq. simpl.
           match goal with Hm : m_accts (t_mem t) !! a = Some ?ai0, Hd : d_accts (t_disk t) !! a = Some ?r0 |- _ =>
             pose proof (A a ai0 r0 Hm Hd) as Hp end.
           injection Hp as _ Hk. rewrite Hk. reflexivity.
        -- rewrite lookup_insert_ne in Ha' by congruence; rewrite lookup_insert_ne in Hr' by congruence. eapply A; eauto.
      * intros a' b' i' Hx. simpl in *. specialize (D a' b' i' Hx).
        destruct (decide (a' = a)) as [->|Hne]; [rewrite lookup_insert; eauto|].
        rewrite lookup_insert_ne by congruence. exact D.
    + destruct HR as (A & B & C & D & E & F). repeat split; auto; try apply E.
      * intros a' ai' r' Ha' Hr'. simpl in *. assert (a' <> a) by congruence.
        rewrite lookup_insert_ne in Hr' by congruence. eapply A; eauto.
      * intros a' b' i' Hx. simpl in *. specialize (D a' b' i' Hx).
        destruct (decide (a' = a)) as [->|Hne]; [rewrite lookup_insert; eauto|].
        rewrite lookup_insert_ne by congruence. exact D.
  - (* next *)
    simpl in HS.
    destruct (load_acct (t_disk t) (t_mem t) a) as [m1 o] eqn:EL.
    apply load_acct_ext in EL as (HE & HAd & Ho).
    pose proof (TI_idx_ext _ _ _ _ _ HI HE) as HI1.
    pose proof (TI_rest_ext _ _ _ _ HR HE) as HR1.
    destruct o as [ai|]; [|injection HS as <- <-; exact HR1].
    destruct ((max_addrs <? n)%N || (max_addrs <? next_of ai b + n)%N); [injection HS as <- <-; exact HR1|].
    destruct (n =? 0)%N; [injection HS as <- <-; exact HR1|].
    destruct HI1 as (IA & IB & IC). destruct (IC a ai Ho) as (r0 & Hr0 & _).
    unfold put_chain in HS. rewrite Hr0 in HS. injection HS as <- <-. simpl.
    eapply TI_rest_put; [exact HR1|exact Hr0|..].
    + intros y Hy. eapply elem_of_chain_range; exact Hy.
    + intros a' ai' Ha'. exists ai'. split; [|auto]. destruct rb; exact Ha'.
    + destruct rb; simpl; set_solver.
    + destruct rb; reflexivity.
    + destruct rb; reflexivity.
    + destruct rb; reflexivity.
    + constructor; [|constructor]. simpl. auto.
  - (* extend *)
    simpl in HS.
    destruct (load_acct (t_disk t) (t_mem t) a) as [m1 o] eqn:EL.
    apply load_acct_ext in EL as (HE & HAd & Ho).
    pose proof (TI_idx_ext _ _ _ _ _ HI HE) as HI1.
    pose proof (TI_rest_ext _ _ _ _ HR HE) as HR1.
    destruct o as [ai|]; [|injection HS as <- <-; exact HR1].
    destruct (last <? next_of ai b)%N; [injection HS as <- <-; exact HR1|].
    destruct (max_addrs <? last)%N; [injection HS as <- <-; exact HR1|].
    destruct (bool_decide (is_Some (ai_kind ai))); [injection HS as <- <-; exact HR1|].
    destruct HI1 as (IA & IB & IC). destruct (IC a ai Ho) as (r0 & Hr0 & _).
    unfold put_chain in HS. rewrite Hr0 in HS. injection HS as <- <-. simpl.
    rewrite <- (app_nil_r (t_cbs t)).
    eapply TI_rest_put; [exact HR1|exact Hr0|..].
    + intros y Hy. eapply elem_of_chain_range; exact Hy.
    + intros a' ai' Ha'. simpl in Ha'. destruct (decide (a' = a)) as [->|Hne].
      * rewrite lookup_insert in Ha'. injection Ha' as <-. exists ai. split; [exact Ho|].
        split; [apply ai_name_set_branch|apply ai_kind_set_branch].
      * rewrite lookup_insert_ne in Ha' by congruence. eauto.
    + simpl. set_solver.
    + reflexivity.
    + reflexivity.
    + reflexivity.
    + constructor.
  - (* mark used *)
    simpl in HS. injection HS as <- <-. simpl.
    destruct HR as (A & B & C & D & E & F). repeat split; auto; try apply E.
    intros y Hy. simpl in *. apply B. set_solver.
  - (* set synced *)
    simpl in HS, HT. eapply set_synced_rest; eauto.
  - (* birthday *)
    simpl in HS. injection HS as <- <-. simpl.
    destruct HR as (A & B & C & D & E & F). repeat split; auto; apply E.
  - (* birthday block *)
    simpl in HS. injection HS as <- <-. simpl.
    destruct HR as (A & B & C & D & E & F). repeat split; auto; apply E.
  - (* import *)
    simpl in HS. destruct HR as (A & B & C & D & [E1 E2] & F).
    destruct (negb (addr_imported x)) eqn:Eimp; [injection HS as <- <-; repeat split; auto|].
    destruct (bool_decide (x ∈ m_addrs (t_mem t)) || bool_decide (x ∈ d_addrs (t_disk t)));
      [injection HS as <- <-; repeat split; auto|].
    assert (HwfA : forall d', d_accts d' = d_accts (t_disk t) -> d_addrs d' = {[x]} ∪ d_addrs (t_disk t) -> wfA d').
    { intros d' Hd1 Hd2 a' b' i' Hx. rewrite Hd1. rewrite Hd2 in Hx.
      apply elem_of_union in Hx as [Hx|Hx]; [|eapply D; exact Hx].
      apply elem_of_singleton in Hx. subst x. discriminate. }
    assert (HC' : Forall (fun c => forall y, y ∈ cb_addrs c -> y ∈ {[x]} ∪ d_addrs (t_disk t)) (t_cbs t)).
    { eapply Forall_impl; [|exact C]. intros c Hc y Hy. specialize (Hc y Hy). set_solver. }
    repeat case_match; simplify_eq; simpl; repeat split; auto;
      try (apply HwfA; reflexivity);
      try (intros y Hy; simpl in *; apply elem_of_union in Hy as [Hy|Hy]; [set_solver|apply B in Hy; set_solver]).
  - (* read *)
    simpl in HS. destruct (read q (t_disk t) (t_mem t)) as [m' x] eqn:ER. injection HS as <- <-. simpl.
    eapply TI_rest_ext; [exact HR|]. eapply read_ext; exact ER.
  - (* new watch-only account *)
    simpl in HS. eapply new_account_TI_rest; eauto.
Qed.

Lemma TI_rest_run_cb d m c cbs :
  TI_rest d m (c :: cbs) -> TI_rest d (run_cb c m) cbs.
Proof.
  intros (A & B & C & D & E & F). inversion C as [|c0 l Hc C']; subst.
  unfold run_cb. simpl.
  assert (HB : m_addrs m ⊆ d_addrs d) by exact B.
  destruct (m_accts m !! cb_acct c) as [ai|] eqn:Eai; simpl.
  - repeat split; auto; try apply E.
    + intros a ai' r Ha Hr. simpl in Ha. destruct (decide (a = cb_acct c)) as [->|Hne].
      * rewrite lookup_insert in Ha. injection Ha as <-. rewrite ai_name_set_branch, ai_kind_set_branch. eapply A; eauto.
      * rewrite lookup_insert_ne in Ha by congruence. eapply A; eauto.
    + intros y Hy. simpl in Hy. apply elem_of_union in Hy as [Hy|Hy]; [|auto].
      apply elem_of_list_to_set in Hy. auto.
  - repeat split; auto; try apply E.
    intros y Hy. simpl in Hy. apply elem_of_union in Hy as [Hy|Hy]; [|auto].
    apply elem_of_list_to_set in Hy. auto.
Qed.

Lemma TI_rest_settle cbs : forall d m, TI_rest d m cbs -> TI_rest d (settle cbs m) [].
Proof.
  induction cbs as [|c cbs IH]; intros d m H; [exact H|].
  simpl. apply IH. apply TI_rest_run_cb. exact H.
Qed.

Lemma commit_ops rb ops : forall t t' outs pend,
  commit_k_idx pend ops = false ->
  existsb is_synced_nil ops = false ->
  forallb op_times_ok ops = true ->
  run_ops rb ops t = (t', outs) ->
  TI_idx (t_disk t) (t_mem t) (t_cbs t) pend ->
  TI_rest (t_disk t) (t_mem t) (t_cbs t) ->
  exists pend', TI_idx (t_disk t') (t_mem t') (t_cbs t') pend' /\
                TI_rest (t_disk t') (t_mem t') (t_cbs t').
Proof.
  induction ops as [|o ops IH]; simpl; intros t t' outs pend HK HN HT HR HI HRest.
  - injection HR as <- <-. eauto.
  - destruct (step rb o t) as [t1 x] eqn:ES.
    destruct (run_ops rb ops t1) as [t2 xs] eqn:ER. injection HR as <- <-.
    apply orb_false_iff in HN as [HN1 HN2]. apply andb_true_iff in HT as [HT1 HT2].
    destruct (commit_idx_step rb o ops t t1 x pend HK ES HI) as [HI1 HK1].
    pose proof (commit_rest_step rb o t t1 x pend HT1 HN1 ES HI HRest) as HR1.
    eapply IH; eauto.
Qed.

(** Index part alone (holds whatever the other components look like). *)
Lemma commit_ops_idx rb ops : forall t t' outs pend,
  commit_k_idx pend ops = false ->
  run_ops rb ops t = (t', outs) ->
  TI_idx (t_disk t) (t_mem t) (t_cbs t) pend ->
  exists pend', TI_idx (t_disk t') (t_mem t') (t_cbs t') pend'.
Proof.
  induction ops as [|o ops IH]; simpl; intros t t' outs pend HK HR HI.
  - injection HR as <- <-. eauto.
  - destruct (step rb o t) as [t1 x] eqn:ES.
    destruct (run_ops rb ops t1) as [t2 xs] eqn:ER. injection HR as <- <-.
    destruct (commit_idx_step rb o ops t t1 x pend HK ES HI) as [HI1 HK1].
    eapply IH; eauto.
Qed.

(** ** Rolled-back transactions and the next indices *)

Definition AI_idx (d0 d : disk) (m : mem) (armed : bool) : Prop :=
  coh_idx m d0 /\
  (armed = false -> forall a, m_accts m !! a = None -> idxp (d_accts d !! a) = idxp (d_accts d0 !! a)).

Lemma AI_idx_cong d0 d m armed d' m' :
  d_accts d' = d_accts d -> m_accts m' = m_accts m -> AI_idx d0 d m armed -> AI_idx d0 d' m' armed.
Proof. intros E1 E2 [A B]. unfold AI_idx, coh_idx in *. rewrite E1, E2. auto. Qed.

Lemma AI_idx_ext d0 d m m' :
  AI_idx d0 d m false -> mem_ext d m m' -> AI_idx d0 d m' false.
Proof.
  intros [A B] HE. specialize (B eq_refl). split.
  - eapply coh_idx_ext; eauto.
  - intros _ a Ha. apply B. destruct HE as (E1 & _).
    destruct (m_accts m !! a) as [ai|] eqn:E; [|reflexivity]. apply E1 in E. congruence.
Qed.

Lemma AI_idx_weaken d0 d m armed : AI_idx d0 d m armed -> AI_idx d0 d m true.
Proof. intros [A _]. split; [exact A|discriminate]. Qed.

Lemma new_account_AI_idx d0 k nm t t' r armed :
  new_account k nm t = (t', r) ->
  AI_idx d0 (t_disk t) (t_mem t) armed -> AI_idx d0 (t_disk t') (t_mem t') true.
Proof.
  intros HS HI. unfold new_account in HS.
  repeat case_match; simplify_eq; simpl; apply AI_idx_weaken in HI;
    (eapply AI_idx_cong; [..|exact HI]; reflexivity) || exact HI || idtac.
  destruct HI as [A _]. split; [exact A|discriminate].
Qed.

Lemma abort_idx_step rb d0 o ops t t' r armed :
  abort_k_idx armed (o :: ops) = false ->
  step rb o t = (t', r) ->
  AI_idx d0 (t_disk t) (t_mem t) armed ->
  AI_idx d0 (t_disk t') (t_mem t') (arm o armed) /\ abort_k_idx (arm o armed) ops = false.
Proof.
  intros HK HS HI.
  destruct o as [nm|a nm|a b n|a b last|x|s| |tm|s v|x bs|q|nm wk]; simpl in HK; try discriminate.
  - (* new account *)
    split; [|exact HK]. simpl in HS. eapply new_account_AI_idx; eauto.
  - (* rename *)
    apply orb_false_iff in HK as [_ HK]. split; [|exact HK]. simpl in HS.
    repeat case_match; simplify_eq; simpl; try exact HI.
    all: rewrite rename_switch_eq; unfold rename_rows; simpl.
    + destruct HI as [A B]. split.
      * intros a' ai' Ha'. simpl in Ha'. destruct (decide (a' = a)) as [->|Hne].
        -- rewrite lookup_insert in Ha'. injection Ha' as <-.
           match goal with H : m_accts (t_mem t) !! a = Some ?ai0 |- _ =>
             destruct (A a ai0 H) as (r0 & Hr0 & Hb) end.
           exists r0. split; [exact Hr0|]. intros b0.
           rewrite next_of_set_name, last_of_set_name. apply Hb.
        -- rewrite lookup_insert_ne in Ha' by congruence. apply A; exact Ha'.
      * intros Harm a' Ha'. simpl in *. destruct (decide (a' = a)) as [->|Hne].
        -- rewrite lookup_insert in Ha'. discriminate.
        -- rewrite lookup_insert_ne in Ha' by congruence. rewrite lookup_insert_ne by congruence.
           apply B; auto.
    + destruct HI as [A B]. split; [exact A|].
      intros Harm a' Ha'. simpl in *. destruct (decide (a' = a)) as [->|Hne].
      * rewrite lookup_insert. rewrite <- (B Harm a Ha').
        match goal with H : d_accts (t_disk t) !! a = Some _ |- _ => rewrite H end. reflexivity.
      * rewrite lookup_insert_ne by congruence. apply B; auto.
  - (* next *)
    apply orb_false_iff in HK as [-> HK]. split; [|exact HK].
    simpl in HS.
    destruct (load_acct (t_disk t) (t_mem t) a) as [m1 o] eqn:EL.
    apply load_acct_ext in EL as (HE & HAd & Ho).
    pose proof (AI_idx_ext _ _ _ _ HI HE) as HI1.
    destruct o as [ai|]; [|injection HS as <- <-; exact HI1].
    destruct ((max_addrs <? n)%N || (max_addrs <? next_of ai b + n)%N); [injection HS as <- <-; exact HI1|].
    destruct (n =? 0)%N; [injection HS as <- <-; exact HI1|].
    unfold put_chain in HS.
    destruct (d_accts (t_disk t) !! a) as [r0|] eqn:Er0; injection HS as <- <-; simpl.
    + match goal with |- AI_idx _ ?d' _ _ => assert (G : AI_idx d0 d' m1 false) end.
      2:{ eapply AI_idx_cong; [..|exact G]; try reflexivity. destruct rb; reflexivity. }
      destruct HI1 as [A B]. split; [exact A|].
      intros Harm a' Ha'. simpl in *. assert (a' <> a) by congruence.
      rewrite lookup_insert_ne by congruence. apply B; auto.
    + eapply AI_idx_cong; [..|exact HI1]; reflexivity.
  - (* mark used *)
    apply orb_false_iff in HK as [_ HK]. split; [|exact HK].
    simpl in HS. injection HS as <- <-. simpl. eapply AI_idx_cong; [..|exact HI]; reflexivity.
  - apply orb_false_iff in HK as [_ HK]. split; [|exact HK].
    simpl in HS. apply set_synced_accts in HS as (E1 & _ & E3 & _).
    eapply AI_idx_cong; [..|exact HI]; assumption.
  - apply orb_false_iff in HK as [_ HK]. split; [|exact HK].
    simpl in HS. apply set_synced_accts in HS as (E1 & _ & E3 & _).
    eapply AI_idx_cong; [..|exact HI]; assumption.
  - apply orb_false_iff in HK as [_ HK]. split; [|exact HK].
    simpl in HS. injection HS as <- <-. simpl. eapply AI_idx_cong; [..|exact HI]; reflexivity.
  - apply orb_false_iff in HK as [_ HK]. split; [|exact HK].
    simpl in HS. injection HS as <- <-. simpl. eapply AI_idx_cong; [..|exact HI]; reflexivity.
  - (* import *)
    apply orb_false_iff in HK as [_ HK]. split; [|exact HK].
    simpl in HS. repeat case_match; simplify_eq; simpl; try exact HI;
      (eapply AI_idx_cong; [..|exact HI]; reflexivity).
  - (* read *)
    apply orb_false_iff in HK as [HL HK]. split; [|exact HK].
    simpl in HS. destruct (read q (t_disk t) (t_mem t)) as [m' x] eqn:ER. injection HS as <- <-. simpl.
    destruct armed.
    + simpl in HL. pose proof (read_nonloading q (t_disk t) (t_mem t) HL) as HN.
      rewrite ER in HN. simpl in HN. subst. exact HI.
    + eapply AI_idx_ext; [exact HI|]. eapply read_ext; exact ER.
  - (* new watch-only account *)
    split; [|exact HK]. simpl in HS. eapply new_account_AI_idx; eauto.
Qed.

Lemma abort_idx_ops rb d0 ops : forall t t' outs armed,
  abort_k_idx armed ops = false ->
  run_ops rb ops t = (t', outs) ->
  AI_idx d0 (t_disk t) (t_mem t) armed ->
  coh_idx (t_mem t') d0.
Proof.
  induction ops as [|o ops IH]; simpl; intros t t' outs armed HK HR HI.
  - injection HR as <- <-. apply HI.
  - destruct (step rb o t) as [t1 x] eqn:ES.
    destruct (run_ops rb ops t1) as [t2 xs] eqn:ER. injection HR as <- <-.
    destruct (abort_idx_step rb d0 o ops t t1 x armed HK ES HI) as [HI1 HK1].
    eapply IH; eauto.
Qed.

(** ** Whole transactions and histories *)

Definition Inv (s : state) : Prop := coherent (mem_of s) (disk_of s) /\ wf_disk (disk_of s).
Definition Inv_idx (s : state) : Prop := coh_idx (mem_of s) (disk_of s) /\ wfL (disk_of s).

Lemma run_tx_unfold rb x s :
  run_tx rb x s =
  let '(t, outs) := run_ops rb (tx_ops x) {| t_disk := disk_of s; t_mem := mem_of s; t_cbs := [] |} in
  let s1 := end_tx (tx_fate x) s t in
  let '(m2, qa) := run_queries (tx_queries x) (disk_of s1) (mem_of s1) in
  ({| disk_of := disk_of s1; mem_of := m2 |}, (outs, qa)).
Proof. reflexivity. Qed.

Lemma tx_preserves_Inv rb x s :
  tx_k rb x = false -> forallb op_times_ok (tx_ops x) = true -> Inv s -> Inv (run_tx rb x s).1.
Proof.
  intros HK HT [HC [HL HA]]. rewrite run_tx_unfold.
  destruct (run_ops rb (tx_ops x) _) as [t outs] eqn:ER.
  cbv zeta. set (s1 := end_tx (tx_fate x) s t).
  assert (HI1 : Inv s1).
  { subst s1. unfold tx_k in HK. destruct (tx_fate x) eqn:EF; simpl.
    - apply orb_false_iff in HK as [HK1 HK2].
      destruct HC as (C1 & C2 & C3 & C4 & C5).
      destruct (commit_ops rb (tx_ops x) _ t outs [] HK1 HK2 HT ER) as (pend' & HI' & HR').
      + simpl. apply TI_idx_init; assumption.
      + simpl. repeat split; auto; apply C4.
      + apply TI_idx_settle in HI'. apply TI_rest_settle in HR'.
        destruct HR' as (R1 & R2 & _ & R4 & R5 & R6).
        split; [|split; [apply HI'|exact R4]].
        split; [eapply TI_idx_nil; exact HI'|]. auto.
    - split; [|split; assumption].
      eapply (abort_k_ops rb (disk_of s)); [exact HK|exact ER|]. simpl. split; [exact HC|]. auto.
    - split; [|split; assumption].
      eapply (abort_k_ops rb (disk_of s)); [exact HK|exact ER|]. simpl. split; [exact HC|]. auto.
    - split; [|split; assumption].
      eapply (abort_k_ops rb (disk_of s)); [exact HK|exact ER|]. simpl. split; [exact HC|]. auto. }
  destruct (run_queries (tx_queries x) (disk_of s1) (mem_of s1)) as [m2 qa] eqn:EQ. simpl.
  destruct HI1 as [HC1 HW1]. split; [|exact HW1].
  eapply coherent_ext; [exact HC1|]. eapply run_queries_ext; exact EQ.
Qed.

Lemma tx_preserves_Inv_idx rb x s :
  tx_k_idx x = false -> Inv_idx s -> Inv_idx (run_tx rb x s).1.
Proof.
  intros HK [HC HL]. rewrite run_tx_unfold.
  destruct (run_ops rb (tx_ops x) _) as [t outs] eqn:ER.
  cbv zeta. set (s1 := end_tx (tx_fate x) s t).
  assert (HI1 : Inv_idx s1).
  { subst s1. unfold tx_k_idx in HK. destruct (tx_fate x) eqn:EF; simpl.
    - destruct (commit_ops_idx rb (tx_ops x) _ t outs [] HK ER) as (pend' & HI').
      + simpl. apply TI_idx_init; assumption.
      + apply TI_idx_settle in HI'. split; [eapply TI_idx_nil; exact HI'|apply HI'].
    - split; [|exact HL]. eapply (abort_idx_ops rb (disk_of s)); [exact HK|exact ER|].
      simpl. split; [exact HC|auto].
    - split; [|exact HL]. eapply (abort_idx_ops rb (disk_of s)); [exact HK|exact ER|].
      simpl. split; [exact HC|auto].
    - split; [|exact HL]. eapply (abort_idx_ops rb (disk_of s)); [exact HK|exact ER|].
      simpl. split; [exact HC|auto]. }
  destruct (run_queries (tx_queries x) (disk_of s1) (mem_of s1)) as [m2 qa] eqn:EQ. simpl.
  destruct HI1 as [HC1 HW1]. split; [|exact HW1].
  eapply coh_idx_ext; [exact HC1|eapply run_queries_ext; exact EQ|reflexivity].
Qed.

Lemma final_cons rb x h s : final rb (x :: h) s = final rb h (run_tx rb x s).1.
Proof.
  unfold final. simpl. destruct (run_tx rb x s) as [s1 o]. simpl. destruct (run_hist rb h s1). reflexivity.
Qed.

Lemma final_app rb h1 : forall h2 s, final rb (h1 ++ h2) s = final rb h2 (final rb h1 s).
Proof.
  induction h1 as [|x h1 IH]; intros h2 s; [reflexivity|].
  simpl. rewrite !final_cons. apply IH.
Qed.

Lemma hist_preserves_Inv rb h : forall s,
  in_K rb h = false -> times_ok h = true -> Inv s -> Inv (final rb h s).
Proof.
  induction h as [|x h IH]; intros s HK HT HI; [exact HI|].
  simpl in HK, HT. apply orb_false_iff in HK as [HK1 HK2]. apply andb_true_iff in HT as [HT1 HT2].
  rewrite final_cons. apply IH; auto. apply tx_preserves_Inv; auto.
Qed.

Lemma hist_preserves_Inv_idx rb h : forall s,
  in_K_idx h = false -> Inv_idx s -> Inv_idx (final rb h s).
Proof.
  induction h as [|x h IH]; intros s HK HI; [exact HI|].
  simpl in HK. apply orb_false_iff in HK as [HK1 HK2].
  rewrite final_cons. apply IH; auto. apply tx_preserves_Inv_idx; auto.
Qed.

Lemma Inv_opened d : wf_disk d -> Inv (opened d).
Proof. intros H. split; [apply coherent_reopen|exact H]. Qed.

Lemma Inv_idx_opened d : wfL d -> Inv_idx (opened d).
Proof. intros H. split; [apply coherent_reopen|exact H]. Qed.

(** The statement of C08 outside K. *)
Lemma memory_equals_restart rb d0 h :
  wf_disk d0 -> times_ok h = true -> in_K rb h = false ->
  forall q, observe (mem_of (final rb h (opened d0))) (disk_of (final rb h (opened d0))) q
          = observe (reopen (disk_of (final rb h (opened d0)))) (disk_of (final rb h (opened d0))) q.
Proof.
  intros HW HT HK q.
  destruct (hist_preserves_Inv rb h (opened d0) HK HT (Inv_opened d0 HW)) as [HC [_ HA]].
  apply observe_coherent; assumption.
Qed.

Lemma in_K_app rb h1 h2 : in_K rb (h1 ++ h2) = in_K rb h1 || in_K rb h2.
Proof. unfold in_K. apply existsb_app. Qed.
Lemma times_ok_app h1 h2 : times_ok (h1 ++ h2) = times_ok h1 && times_ok h2.
Proof. unfold times_ok. apply forallb_app. Qed.

(** ... at every transaction boundary of the history. *)
Lemma memory_equals_restart_everywhere rb d0 h1 h2 :
  wf_disk d0 -> times_ok (h1 ++ h2) = true -> in_K rb (h1 ++ h2) = false ->
  forall q, observe (mem_of (final rb h1 (opened d0))) (disk_of (final rb h1 (opened d0))) q
          = observe (reopen (disk_of (final rb h1 (opened d0)))) (disk_of (final rb h1 (opened d0))) q.
Proof.
  intros HW HT HK. rewrite times_ok_app in HT. rewrite in_K_app in HK.
  apply andb_true_iff in HT as [HT _]. apply orb_false_iff in HK as [HK _].
  apply memory_equals_restart; assumption.
Qed.

(** ** The next committed issuance *)

Definition issue_tx (a : N) (b : bool) (n : N) : txn :=
  {| tx_ops := [ONext a b n]; tx_fate := Commit; tx_queries := [] |}.

Lemma issue_same rb d m a b n :
  coh_idx m d ->
  (run_tx rb (issue_tx a b n) {| disk_of := d; mem_of := m |}).2.1
    = (run_tx rb (issue_tx a b n) (opened d)).2.1 /\
  disk_of (run_tx rb (issue_tx a b n) {| disk_of := d; mem_of := m |}).1
    = disk_of (run_tx rb (issue_tx a b n) (opened d)).1.
Proof.
  intros HC. unfold run_tx, issue_tx, opened. simpl.
  pose proof (load_acct_spec d m a) as S1. pose proof (load_acct_spec d (reopen d) a) as S2.
  simpl in S2. rewrite lookup_empty in S2.
  destruct (m_accts m !! a) as [ai|] eqn:E1.
  - destruct (HC a ai E1) as (r & Hr & Hb). rewrite Hr in S2. rewrite S1, S2.
    destruct (Hb b) as [Hn _]. destruct (info_of_row_idx r b) as [Hn' _].
    rewrite Hn, Hn'.
    destruct ((max_addrs <? n)%N || (max_addrs <? row_next r b + n)%N); [simpl; auto|].
    destruct (n =? 0)%N; [simpl; auto|].
    unfold put_chain. simpl. rewrite Hr. simpl. auto.
  - destruct (d_accts d !! a) as [r|] eqn:E2; rewrite S1, S2; [|simpl; auto].
    destruct ((max_addrs <? n)%N || (max_addrs <? next_of (info_of_row r) b + n)%N); [simpl; auto|].
    destruct (n =? 0)%N; [simpl; auto|].
    unfold put_chain. simpl. rewrite E2. simpl. auto.
Qed.

Lemma next_issue_equals_restart rb d0 h a b n :
  wfL d0 -> in_K_idx h = false ->
  let s := final rb h (opened d0) in
  (run_tx rb (issue_tx a b n) s).2.1 = (run_tx rb (issue_tx a b n) (opened (disk_of s))).2.1 /\
  disk_of (run_tx rb (issue_tx a b n) s).1 = disk_of (run_tx rb (issue_tx a b n) (opened (disk_of s))).1.
Proof.
  intros HW HK s.
  destruct (hist_preserves_Inv_idx rb h (opened d0) HK (Inv_idx_opened d0 HW)) as [HC _].
  fold s in HC. destruct s as [d m]. apply issue_same. exact HC.
Qed.

(** Index-related queries agree outside [in_K_idx] (whatever else diverged). *)
Lemma index_queries_equal_restart rb d0 h a :
  wfL d0 -> in_K_idx h = false ->
  let s := final rb h (opened d0) in
  (forall b, observe (mem_of s) (disk_of s) (QLast a b) = observe (reopen (disk_of s)) (disk_of s) (QLast a b)) /\
  match observe (mem_of s) (disk_of s) (QProps a), observe (reopen (disk_of s)) (disk_of s) (QProps a) with
  | AProps _ e i _ _, AProps _ e' i' _ _ => e = e' /\ i = i'
  | AErr e, AErr e' => e = e'
  | _, _ => False
  end.
Proof.
  intros HW HK s.
  destruct (hist_preserves_Inv_idx rb h (opened d0) HK (Inv_idx_opened d0 HW)) as [HC _].
  fold s in HC. destruct s as [d m]. simpl in *. unfold observe. simpl. split.
  - intros b. unfold load_acct; simpl. rewrite lookup_empty.
    destruct (m_accts m !! a) as [ai|] eqn:E.
    + destruct (HC a ai E) as (r & Hr & Hf). rewrite Hr. simpl.
      destruct (Hf b) as [H1 H2]. destruct (info_of_row_idx r b) as [H3 H4].
      rewrite H1, H2, H3, H4. reflexivity.
    + destruct (d_accts d !! a); reflexivity.
  - destruct (a =? imported_acct)%N; [simpl; auto|].
    unfold load_acct; simpl. rewrite lookup_empty.
    destruct (m_accts m !! a) as [ai|] eqn:E.
    + destruct (HC a ai E) as (r & Hr & Hf). rewrite Hr. simpl.
      destruct (Hf true) as [H1 _]. destruct (Hf false) as [H2 _]. simpl in H1, H2. auto.
    + destruct (d_accts d !! a); simpl; auto.
Qed.

(** ** A rolled-back transaction made of address issuance (and reads) never
    advances an index in memory - no hypothesis on the state at all. *)

Definition issue_or_read (o : op) : bool :=
  match o with ONext _ _ _ | ORead _ => true | _ => false end.

Definition J (d0 : disk) (m0 : mem) (d : disk) (m : mem) : Prop :=
  (forall a ai, m_accts m0 !! a = Some ai -> m_accts m !! a = Some ai) /\
  (forall a ai, m_accts m !! a = Some ai ->
     m_accts m0 !! a = Some ai \/
     (m_accts m0 !! a = None /\ exists r, d_accts d0 !! a = Some r /\ ai = info_of_row r)) /\
  (forall a, m_accts m !! a = None -> d_accts d !! a = d_accts d0 !! a).

Lemma J_ext d0 m0 d m m' : J d0 m0 d m -> mem_ext d m m' -> J d0 m0 d m'.
Proof.
  intros (A0 & A & B) (E1 & E2 & _). split; [|split].
  - intros a ai Ha. apply E1, A0, Ha.
  - intros a ai Ha. destruct (E2 a ai Ha) as [H|(H & r & Hr & ->)]; [auto|].
    rewrite (B a H) in Hr.
    destruct (m_accts m0 !! a) as [ai0|] eqn:E0.
    + apply A0 in E0. congruence.
    + right. split; [reflexivity|]. eauto.
  - intros a Ha. apply B. destruct (m_accts m !! a) as [ai|] eqn:E; [|reflexivity].
    apply E1 in E. congruence.
Qed.

Lemma J_cong d0 m0 d m d' m' :
  d_accts d' = d_accts d -> m_accts m' = m_accts m -> J d0 m0 d m -> J d0 m0 d' m'.
Proof. intros E1 E2 H. unfold J in *. rewrite E1, E2. exact H. Qed.

Lemma issue_step_J rb d0 m0 o t t' r :
  issue_or_read o = true -> step rb o t = (t', r) ->
  J d0 m0 (t_disk t) (t_mem t) -> J d0 m0 (t_disk t') (t_mem t').
Proof.
  intros HO HS HJ. destruct o as [| |a b n| | | | | | | |q|]; try discriminate.
  - simpl in HS.
    destruct (load_acct (t_disk t) (t_mem t) a) as [m1 o] eqn:EL.
    apply load_acct_ext in EL as (HE & HAd & Ho).
    pose proof (J_ext _ _ _ _ _ HJ HE) as HJ1.
    destruct o as [ai|]; [|injection HS as <- <-; exact HJ1].
    destruct ((max_addrs <? n)%N || (max_addrs <? next_of ai b + n)%N); [injection HS as <- <-; exact HJ1|].
    destruct (n =? 0)%N; [injection HS as <- <-; exact HJ1|].
    unfold put_chain in HS.
    destruct (d_accts (t_disk t) !! a) as [r0|] eqn:Er0; injection HS as <- <-; simpl.
    + match goal with |- J _ _ ?d' _ => assert (G : J d0 m0 d' m1) end.
      2:{ eapply J_cong; [..|exact G]; try reflexivity. destruct rb; reflexivity. }
      destruct HJ1 as (A0 & A & B). split; [exact A0|split; [exact A|]].
      intros a' Ha'. simpl in *. assert (a' <> a) by congruence.
      rewrite lookup_insert_ne by congruence. apply B; auto.
    + eapply J_cong; [..|exact HJ1]; reflexivity.
  - simpl in HS. destruct (read q (t_disk t) (t_mem t)) as [m' x] eqn:ER. injection HS as <- <-. simpl.
    eapply J_ext; [exact HJ|]. eapply read_ext; exact ER.
Qed.

Lemma issue_ops_J rb d0 m0 ops : forall t t' outs,
  forallb issue_or_read ops = true -> run_ops rb ops t = (t', outs) ->
  J d0 m0 (t_disk t) (t_mem t) -> J d0 m0 (t_disk t') (t_mem t').
Proof.
  induction ops as [|o ops IH]; simpl; intros t t' outs HO HR HJ.
  - injection HR as <- <-. exact HJ.
  - destruct (step rb o t) as [t1 x] eqn:ES.
    destruct (run_ops rb ops t1) as [t2 xs] eqn:ER. injection HR as <- <-.
    apply andb_true_iff in HO as [HO1 HO2].
    eapply IH; eauto. eapply issue_step_J; eauto.
Qed.

Lemma rolled_back_issuance_keeps_indices rb s ops f qs :
  f <> Commit -> forallb issue_or_read ops = true ->
  let s' := (run_tx rb {| tx_ops := ops; tx_fate := f; tx_queries := qs |} s).1 in
  disk_of s' = disk_of s /\
  forall a ai, m_accts (mem_of s') !! a = Some ai ->
    m_accts (mem_of s) !! a = Some ai \/
    (m_accts (mem_of s) !! a = None /\
     exists r, d_accts (disk_of s) !! a = Some r /\ ai = info_of_row r).
Proof.
  intros Hf HO. rewrite run_tx_unfold. simpl.
  destruct (run_ops rb ops _) as [t outs] eqn:ER.
  assert (HJ0 : J (disk_of s) (mem_of s) (disk_of s) (mem_of s)).
  { split; [auto|split; [auto|auto]]. }
  pose proof (issue_ops_J rb (disk_of s) (mem_of s) ops _ t outs HO ER HJ0) as HJ1.
  assert (HE : end_tx f s t = {| disk_of := disk_of s; mem_of := t_mem t |}) by (destruct f; [contradiction|reflexivity..]).
  rewrite HE. simpl.
  destruct (run_queries qs (disk_of s) (t_mem t)) as [m2 qa] eqn:EQ. simpl.
  split; [reflexivity|].
  assert (HJ2 : J (disk_of s) (mem_of s) (disk_of s) (t_mem t)).
  { destruct HJ1 as (A0 & A & _). split; [exact A0|split; [exact A|auto]]. }
  apply (J_ext _ _ _ _ m2) in HJ2; [|eapply run_queries_ext; exact EQ].
  apply HJ2.
Qed.

(** ** K_idx is part of K *)

Lemma abort_k_idx_sub rb ops : forall armed issued,
  abort_k_idx armed ops = true -> abort_k rb armed issued ops = true.
Proof.
  induction ops as [|o ops IH]; intros armed issued H; [discriminate|].
  destruct o as [nm|a nm|a b n|a b last|x|s| |tm|s v|x bs|q|nm wk]; simpl in *; auto.
  - apply orb_true_iff in H as [H|H]; [subst; apply orb_true_iff; left; apply orb_true_r|].
    apply orb_true_iff. right. auto.
  - apply orb_true_iff in H as [H|H]; apply orb_true_iff; auto.
  - apply orb_true_iff in H as [H|H]; apply orb_true_iff; auto.
  - destruct q; simpl in *;
      try (apply orb_true_iff in H as [H|H]; apply orb_true_iff; auto; fail).
    apply orb_true_iff in H as [H|H].
    + rewrite andb_true_r in H. subst. apply orb_true_iff. left. apply orb_true_r.
    + apply orb_true_iff. right. auto.
Qed.

Lemma tx_k_idx_sub rb x : tx_k_idx x = true -> tx_k rb x = true.
Proof.
  unfold tx_k_idx, tx_k. destruct (tx_fate x); intros H.
  - rewrite H. reflexivity.
  - apply abort_k_idx_sub; exact H.
  - apply abort_k_idx_sub; exact H.
  - apply abort_k_idx_sub; exact H.
Qed.

Lemma in_K_idx_sub rb h : in_K_idx h = true -> in_K rb h = true.
Proof.
  unfold in_K_idx, in_K. rewrite !existsb_exists. intros (x & Hx & Hk). exists x. split; [exact Hx|].
  apply tx_k_idx_sub; exact Hk.
Qed.

(** ** The database [Create] leaves is well formed *)

Lemma wf_created sch g t b : wf_disk (created sch g t b).
Proof.
  split.
  - intros a [r Hr]. simpl in *. apply lookup_singleton_Some in Hr as [<- _]. lia.
  - intros a b0 i H. simpl in H. exfalso. revert H. apply not_elem_of_empty.
Qed.

(** ** Witnesses inside K (all from the database [Create] leaves) *)

Definition d_wit : disk := created (4%N, 4%N) 0 1231006505 1599827200.
Definition tx (ops : list op) (f : fate) : txn := {| tx_ops := ops; tx_fate := f; tx_queries := [] |}.
Definition diverges (rb : bool) (h : list txn) (q : query) : bool :=
  let s := final rb h (opened d_wit) in
  negb (bool_decide (observe (mem_of s) (disk_of s) q = observe (reopen (disk_of s)) (disk_of s) q)).
Definition issue_differs (rb : bool) (h : list txn) (a : N) (b : bool) (n : N) : bool :=
  let s := final rb h (opened d_wit) in
  negb (bool_decide ((run_tx rb (issue_tx a b n) s).2.1
                     = (run_tx rb (issue_tx a b n) (opened (disk_of s))).2.1)).

Definition stamp1 : stamp := {| s_height := 1; s_hash := 5; s_time := 1600000600 |}.
Definition w_rename := [tx [ORead (QProps 0)] Commit; tx [ORename 0 7] AbortCaller].
Definition w_synced := [tx [OSetSynced stamp1] CommitFails].
Definition w_extend := [tx [OExtend 0 false 4] AbortDryRun].
Definition w_phantom := [tx [ONext 0 true 1] AbortDryRun].
Definition w_issue_lookup := [tx [ONext 0 true 1; ORead (QLookup (Chain 0 true 0))] AbortDryRun].
Definition w_birthday := [tx [OSetBirthday 1500003600] AbortCaller].
Definition w_import := [tx [OImport (ImpKey 0) None] CommitFails].
Definition w_newacct_read := [tx [ONewAccount 5; ORead (QProps 1)] AbortCaller].
Definition w_stale_callback := [tx [ONext 0 false 1; OExtend 0 false 4] Commit].
Definition w_synced_nil := [tx [OSetSyncedNil] Commit].

Lemma witnesses_in_K rb :
  forallb (fun h => in_K rb h && times_ok h)
    [w_rename; w_synced; w_extend; w_issue_lookup; w_birthday; w_import; w_newacct_read;
     w_stale_callback; w_synced_nil] = true.
Proof. destruct rb; vm_compute; reflexivity. Qed.

Lemma witnesses_diverge rb :
  diverges rb w_rename (QProps 0) = true /\
  diverges rb w_synced QSynced = true /\
  diverges rb w_extend (QProps 0) = true /\
  diverges rb w_extend (QLast 0 false) = true /\
  diverges rb w_issue_lookup (QLookup (Chain 0 true 0)) = true /\
  diverges rb w_birthday QBirthday = true /\
  diverges rb w_import (QLookup (ImpKey 0)) = true /\
  diverges rb w_newacct_read (QProps 1) = true /\
  diverges rb w_stale_callback (QProps 0) = true /\
  diverges rb w_synced_nil QSynced = true.
Proof. destruct rb; vm_compute; repeat split. Qed.

(** The plain dry-run issuance: inside K, and diverging, exactly when the
    read-back is cached before commit. *)
Lemma dry_run_issuance_phantom rb :
  in_K rb w_phantom = rb /\ times_ok w_phantom = true /\ in_K_idx w_phantom = false /\
  diverges rb w_phantom (QLookup (Chain 0 true 0)) = rb.
Proof. destruct rb; vm_compute; repeat split. Qed.

Lemma witnesses_issue_differs rb :
  in_K_idx w_extend = true /\ issue_differs rb w_extend 0 false 1 = true /\
  in_K_idx w_stale_callback = true /\ issue_differs rb w_stale_callback 0 false 1 = true.
Proof. destruct rb; vm_compute; repeat split. Qed.

Lemma diverges_spec rb h q :
  diverges rb h q = true ->
  let s := final rb h (opened d_wit) in
  observe (mem_of s) (disk_of s) q <> observe (reopen (disk_of s)) (disk_of s) q.
Proof.
  unfold diverges. cbv zeta. intros H. apply negb_true_iff, bool_decide_eq_false in H. exact H.
Qed.

Lemma issue_differs_spec rb h a b n :
  issue_differs rb h a b n = true ->
  let s := final rb h (opened d_wit) in
  (run_tx rb (issue_tx a b n) s).2.1 <> (run_tx rb (issue_tx a b n) (opened (disk_of s))).2.1.
Proof.
  unfold issue_differs. cbv zeta. intros H. apply negb_true_iff, bool_decide_eq_false in H. exact H.
Qed.
