(** Proofs about [MemDisk]: memory stays coherent with the database along
    every history outside the trigger pattern K; rolled-back address issuance
    never advances an index; the next committed issuance equals what a
    restarted manager issues outside K_idx; witnesses inside K.  Everything is
    proved for every value of the model parameters [params] (see MemDisk.v). *)
From stdpp Require Import gmap list numbers.
From Coq Require Import ZArith NArith Lia.
From Verif Require Import Addr.MemDisk.

(** The birthday and the watching-only flag of the root manager travel
    together through the proofs: (birthday, watching-only). *)
Notation m_bw m := (m_birthday m, m_watch m).
Notation d_bw d := (d_birthday d, d_watch d).

(** ** Field lemmas *)

Lemma np_accts k a m : m_accts (note_pending k a m) = m_accts m.
Proof. unfold note_pending. destruct (_ && _); reflexivity. Qed.
Lemma np_addrs k a m : m_addrs (note_pending k a m) = m_addrs m.
Proof. unfold note_pending. destruct (_ && _); reflexivity. Qed.
Lemma np_synced k a m : m_synced (note_pending k a m) = m_synced m.
Proof. unfold note_pending. destruct (_ && _); reflexivity. Qed.
Lemma np_start k a m : m_start (note_pending k a m) = m_start m.
Proof. unfold note_pending. destruct (_ && _); reflexivity. Qed.
Lemma np_birthday k a m : m_bw (note_pending k a m) = m_bw m.
Proof. unfold note_pending. destruct (_ && _); reflexivity. Qed.
Lemma np_watch k a m : m_watch (note_pending k a m) = m_watch m.
Proof. unfold note_pending. destruct (_ && _); reflexivity. Qed.
Lemma np_locked k a m : m_locked (note_pending k a m) = m_locked m.
Proof. unfold note_pending. destruct (_ && _); reflexivity. Qed.
Ltac np := rewrite ?np_accts, ?np_addrs, ?np_synced, ?np_start, ?np_birthday, ?np_locked.
Ltac np_in H := rewrite ?np_accts, ?np_addrs, ?np_synced, ?np_start, ?np_birthday, ?np_locked in H.

(** ** Coherence of memory with a database, and what it gives *)

Definition cached (m : mem) (a : N) : Prop := is_Some (m_accts m !! a).

Definition wfL (d : disk) : Prop := forall a, is_Some (d_accts d !! a) -> (a <= d_lastacct d)%N.
Definition wfA (d : disk) : Prop := forall a b i, Chain a b i ∈ d_addrs d -> is_Some (d_accts d !! a).
Definition wf_disk (d : disk) : Prop := wfL d /\ wfA d.

(** What an address object of the database [d] records: the type and the
    fingerprint that follow from its account's row. *)
Definition kind_row (d : disk) (a : N) : option wo :=
  match d_accts d !! a with Some r => r_kind r | None => None end.
Definition meta_of (d : disk) (x : addr) : ameta :=
  match x with
  | Chain a b _ => meta_of_kind (d_schema d) (kind_row d a) b
  | _ => meta_imp (d_schema d) x
  end.

Definition coh_idx (m : mem) (d : disk) : Prop :=
  forall a ai, m_accts m !! a = Some ai ->
    exists r, d_accts d !! a = Some r /\
      forall b, next_of ai b = row_next r b /\ last_of ai b = N.pred (row_next r b).
Definition coh_name (m : mem) (d : disk) : Prop :=
  forall a ai r, m_accts m !! a = Some ai -> d_accts d !! a = Some r ->
    (ai_name ai, ai_kind ai) = (r_name r, r_kind r).
(** Every cached address object is in the database and records what its
    account's row says. *)
Definition coh_addr (m : mem) (d : disk) : Prop :=
  forall x mt, m_addrs m !! x = Some mt -> x ∈ d_addrs d /\ mt = meta_of d x.
Definition coh_sync (m : mem) (d : disk) : Prop :=
  m_synced m = d_synced d /\ (s_height (m_start m), s_hash (m_start m)) = d_start d.
Definition coh_bday (m : mem) (d : disk) : Prop := m_bw m = d_bw d.
Definition coherent (m : mem) (d : disk) : Prop :=
  coh_idx m d /\ coh_name m d /\ coh_addr m d /\ coh_sync m d /\ coh_bday m d.

Lemma info_eq ai r :
  (ai_name ai, ai_kind ai) = (r_name r, r_kind r) ->
  (forall b, next_of ai b = row_next r b /\ last_of ai b = N.pred (row_next r b)) ->
  ai = info_of_row r.
Proof.
  intros [= Hn Hk] H. destruct (H true) as [H1 H2]. destruct (H false) as [H3 H4].
  destruct ai, r; simpl in *. unfold info_of_row; simpl. congruence.
Qed.

Lemma coherent_reopen l d : coherent (reopen_as l d) d.
Proof.
  unfold coherent, coh_idx, coh_name, coh_addr, coh_sync, coh_bday, reopen_as; simpl.
  repeat split; try (intros; rewrite lookup_empty in *; congruence).
  destruct (d_start d); reflexivity.
Qed.

Lemma load_acct_cached d m a ai :
  m_accts m !! a = Some ai -> load_acct d m a = (m, Some ai).
Proof. unfold load_acct. intros ->. reflexivity. Qed.

(** The answer part of [load_acct]. *)
Lemma load_acct_ans d m a :
  (load_acct d m a).2 = match m_accts m !! a with
                        | Some ai => Some ai
                        | None => info_of_row <$> d_accts d !! a
                        end.
Proof. unfold load_acct. destruct (m_accts m !! a); [reflexivity|]. destruct (d_accts d !! a); reflexivity. Qed.

(** With coherent entries, what [loadAccountInfo] hands out is what the row says. *)
Lemma load_acct_ans_coh d m a :
  coh_idx m d -> coh_name m d -> (load_acct d m a).2 = info_of_row <$> d_accts d !! a.
Proof.
  intros Hi Hn. rewrite load_acct_ans. destruct (m_accts m !! a) as [ai|] eqn:E; [|reflexivity].
  destruct (Hi a ai E) as (r & Hr & Hf). rewrite Hr. simpl. f_equal. apply info_eq; [eapply Hn; eauto|exact Hf].
Qed.

Lemma read_ans_load q d m :
  (read q d m).2 =
  match q with
  | QLookup x =>
      match m_addrs m !! x with
      | Some mt => found d x mt
      | None =>
          if bool_decide (x ∈ d_addrs d) then
            match x with
            | Chain a b _ =>
                match (load_acct d m a).2 with
                | Some ai => found d x (meta_of_kind (d_schema d) (ai_kind ai) b)
                | None => AErr EAccountNotFound
                end
            | _ => found d x (meta_imp (d_schema d) x)
            end
          else AErr EAddressNotFound
      end
  | QLast a b =>
      match (load_acct d m a).2 with
      | Some ai => if (0 <? next_of ai b)%N
                   then ALast (Chain a b (last_of ai b)) (meta_of_kind (d_schema d) (ai_kind ai) b).1
                              (meta_of_kind (d_schema d) (ai_kind ai) b).2
                   else AErr EAddressNotFound
      | None => AErr EAccountNotFound
      end
  | QProps a =>
      if (a =? imported_acct)%N then AProps name_imported 0 0 (imported_count d) None (m_watch m)
      else match (load_acct d m a).2 with
           | Some ai => AProps (ai_name ai) (ai_ext ai) (ai_int ai) 0 (ai_kind ai)
                          (negb (has_priv (ai_kind ai)) || m_locked m || m_watch m)
           | None => AErr EAccountNotFound
           end
  | QLookupName nm => match d_nameidx d !! nm with Some a => AAcct a | None => AErr EAccountNotFound end
  | QAcctName a => match d_ididx d !! a with Some nm => AName nm | None => AErr EAccountNotFound end
  | QLastAcct => AAcct (d_lastacct d)
  | QSynced => AStamp (m_synced m)
  | QBlockHash h => match d_hashes d !! h with Some x => AHash x | None => AErr EBlockNotFound end
  | QBirthday => ATime (m_birthday m)
  | QBdayBlock => match d_bdayblock d with Some s => ABday s (d_bdayverified d) | None => AErr EBirthdayBlockNotSet end
  end.
Proof.
  destruct q as [x|a b|a|nm|a| | |h| | ]; simpl; try reflexivity.
  - destruct (m_addrs m !! x); [reflexivity|]. case_bool_decide; [|reflexivity].
    destruct x as [a b i|k|k]; try reflexivity.
    destruct (load_acct d m a) as [m1 [ai|]]; reflexivity.
  - destruct (load_acct d m a) as [m1 [ai|]]; reflexivity.
  - destruct (a =? imported_acct)%N; [reflexivity|].
    destruct (load_acct d m a) as [m1 [ai|]]; reflexivity.
Qed.

Lemma observe_coherent m d q :
  coherent m d -> wfA d -> observe m d q = observe (restart m d) d q.
Proof.
  intros (Hi & Hn & Ha & [Hs1 Hs2] & Hb) HA.
  assert (HL : forall a, (load_acct d m a).2 = (load_acct d (restart m d) a).2).
  { intros a. rewrite load_acct_ans_coh by assumption. rewrite load_acct_ans. simpl. rewrite lookup_empty. reflexivity. }
  unfold observe. rewrite 2!read_ans_load.
  destruct q as [x|a b|a|nm|a| | |h| | ]; try reflexivity.
  - (* lookup *)
    simpl (m_addrs (restart m d) !! x). rewrite lookup_empty.
    destruct (m_addrs m !! x) as [mt|] eqn:E.
    + destruct (Ha x mt E) as [Hx ->]. rewrite bool_decide_eq_true_2 by exact Hx.
      destruct x as [a b i|k|k]; try reflexivity.
      destruct (HA a b i Hx) as [r Hr].
      rewrite load_acct_ans. simpl. rewrite lookup_empty, Hr. simpl.
      unfold kind_row. rewrite Hr. reflexivity.
    + case_bool_decide; [|reflexivity]. destruct x as [a b i|k|k]; try reflexivity.
      rewrite HL. reflexivity.
  - rewrite HL. reflexivity.
  - rewrite HL. simpl. injection Hb as _ Hw. rewrite Hw. reflexivity.
  - simpl. rewrite Hs1. reflexivity.
  - simpl. injection Hb as Hb _. rewrite Hb. reflexivity.
Qed.

(** The derivation information a coherent manager reports for an address is
    the one that follows from the account row in the database: the address
    type of the account's (or the scope's) schema and the master-key
    fingerprint of the row. *)
Lemma lookup_reports_row_meta m d x y a i im u ty fp :
  coherent m d -> wfA d ->
  observe m d (QLookup x) = AAddr y a i im u ty fp -> (ty, fp) = meta_of d x.
Proof.
  intros HC HA. rewrite (observe_coherent m d _ HC HA). unfold observe. rewrite read_ans_load.
  simpl (m_addrs (restart m d) !! x). rewrite lookup_empty.
  case_bool_decide as Hx; [|discriminate].
  destruct x as [a' b' i'|k|k].
  - destruct (HA a' b' i' Hx) as [r Hr].
    rewrite load_acct_ans. simpl. rewrite lookup_empty, Hr. simpl.
    unfold found, kind_row. rewrite Hr. intros [= <- <- <- <- <- <- <-]. apply surjective_pairing.
  - unfold found. intros [= <- <- <- <- <- <- <-]. apply surjective_pairing.
  - unfold found. intros [= <- <- <- <- <- <- <-]. apply surjective_pairing.
Qed.

(** ** Reads only extend the caches, from the rows they see *)

(** An address object built from the database [d] by a manager whose account
    cache is [m']: a chained one takes type and fingerprint from the entry of
    its account. *)
Definition built_from (d : disk) (m' : mem) (x : addr) (mt : ameta) : Prop :=
  match x with
  | Chain a b _ => exists ai, m_accts m' !! a = Some ai /\ mt = meta_of_kind (d_schema d) (ai_kind ai) b
  | _ => mt = meta_imp (d_schema d) x
  end.

Definition mem_ext (d : disk) (m m' : mem) : Prop :=
  (forall a ai, m_accts m !! a = Some ai -> m_accts m' !! a = Some ai) /\
  (forall a ai, m_accts m' !! a = Some ai -> m_accts m !! a = Some ai \/
       (m_accts m !! a = None /\ exists r, d_accts d !! a = Some r /\ ai = info_of_row r)) /\
  (forall x mt, m_addrs m' !! x = Some mt -> m_addrs m !! x = Some mt \/ (x ∈ d_addrs d /\ built_from d m' x mt)) /\
  m_synced m' = m_synced m /\ m_start m' = m_start m /\ m_bw m' = m_bw m.

Lemma mem_ext_fields d m m' :
  m_accts m' = m_accts m -> m_addrs m' = m_addrs m -> m_synced m' = m_synced m ->
  m_start m' = m_start m -> m_bw m' = m_bw m -> mem_ext d m m'.
Proof.
  intros E1 E2 E3 E4 E5. unfold mem_ext. rewrite E1, E2, E3, E4, E5. repeat split; auto.
Qed.

Lemma mem_ext_refl d m : mem_ext d m m.
Proof. apply mem_ext_fields; reflexivity. Qed.

Lemma built_from_mono d m m' x mt :
  (forall a ai, m_accts m !! a = Some ai -> m_accts m' !! a = Some ai) ->
  built_from d m x mt -> built_from d m' x mt.
Proof. intros H. destruct x as [a b i|k|k]; simpl; auto. intros (ai & H1 & H2). eauto. Qed.

Lemma mem_ext_trans d m1 m2 m3 : mem_ext d m1 m2 -> mem_ext d m2 m3 -> mem_ext d m1 m3.
Proof.
  intros (A1 & B1 & C1 & D1 & E1 & F1) (A2 & B2 & C2 & D2 & E2 & F2).
  unfold mem_ext. repeat split; try congruence.
  - intros a ai H. auto.
  - intros a ai H. destruct (B2 a ai H) as [H2|(H2 & r & Hr & ->)].
    + auto.
    + destruct (m_accts m1 !! a) as [ai1|] eqn:E.
      * apply A1 in E. congruence.
      * right. split; [reflexivity|]. eauto.
  - intros x mt H. destruct (C2 x mt H) as [H2|H2]; [|auto].
    destruct (C1 x mt H2) as [H1|[H1 H1']]; [auto|]. right. split; [exact H1|].
    eapply built_from_mono; eauto.
Qed.

(** [load_acct] touches the account cache at [a] only, and nothing else that
    is observable. *)
Definition same_but (a : N) (m m' : mem) : Prop :=
  (forall a', a' <> a -> m_accts m' !! a' = m_accts m !! a') /\
  m_addrs m' = m_addrs m /\ m_synced m' = m_synced m /\ m_start m' = m_start m /\
  m_bw m' = m_bw m /\ m_locked m' = m_locked m.

Lemma load_acct_ext d m a m' o :
  load_acct d m a = (m', o) ->
  mem_ext d m m' /\ same_but a m m' /\
  match o with
  | Some ai => m_accts m' !! a = Some ai
  | None => m_accts m' = m_accts m /\ m_accts m !! a = None /\ d_accts d !! a = None
  end.
Proof.
  unfold load_acct.
  destruct (m_accts m !! a) as [ai|] eqn:E1.
  - intros [= <- <-]. split; [apply mem_ext_refl|]. split; [repeat split; auto|exact E1].
  - destruct (d_accts d !! a) as [r|] eqn:E2; intros [= <- <-].
    + split; [|split].
      * unfold mem_ext. np. simpl. repeat split; auto.
        -- intros a' ai' H. destruct (decide (a' = a)) as [->|Hne]; [congruence|].
           rewrite lookup_insert_ne by congruence. exact H.
        -- intros a' ai' H. destruct (decide (a' = a)) as [->|Hne].
           ++ rewrite lookup_insert in H. injection H as <-. right. eauto.
           ++ rewrite lookup_insert_ne in H by congruence. auto.
      * unfold same_but. np. simpl. repeat split; auto.
        intros a' Hne. rewrite lookup_insert_ne by congruence. reflexivity.
      * np. simpl. apply lookup_insert.
    + split; [apply mem_ext_refl|]. split; [repeat split; auto|auto].
Qed.

Lemma read_ext d m q m' r : read q d m = (m', r) -> mem_ext d m m'.
Proof.
  destruct q as [x|a b|a|nm|a| | |h| | ]; simpl;
    try (intros [= <- <-]; apply mem_ext_refl).
  - destruct (m_addrs m !! x) as [mt|] eqn:E1; [intros [= <- <-]; apply mem_ext_refl|].
    case_bool_decide as E2; [|intros [= <- <-]; apply mem_ext_refl].
    destruct x as [a b i|k|k].
    + destruct (load_acct d m a) as [m1 o] eqn:EL.
      apply load_acct_ext in EL as (HE & HS & Ho).
      destruct o as [ai|]; intros [= <- <-]; [|exact HE].
      eapply mem_ext_trans; [exact HE|].
      unfold mem_ext. np. simpl. repeat split; auto.
      intros y mt Hy. destruct (decide (y = Chain a b i)) as [->|Hne].
      * rewrite lookup_insert in Hy. injection Hy as <-. right. split; [exact E2|].
        simpl. np. simpl. eauto.
      * rewrite lookup_insert_ne in Hy by congruence. auto.
    + intros [= <- <-]. unfold mem_ext. simpl. repeat split; auto.
      intros y mt Hy. destruct (decide (y = ImpKey k)) as [->|Hne].
      * rewrite lookup_insert in Hy. injection Hy as <-. right. split; [exact E2|reflexivity].
      * rewrite lookup_insert_ne in Hy by congruence. auto.
    + intros [= <- <-]. unfold mem_ext. simpl. repeat split; auto.
      intros y mt Hy. destruct (decide (y = ImpScript k)) as [->|Hne].
      * rewrite lookup_insert in Hy. injection Hy as <-. right. split; [exact E2|reflexivity].
      * rewrite lookup_insert_ne in Hy by congruence. auto.
  - destruct (load_acct d m a) as [m1 o] eqn:EL.
    apply load_acct_ext in EL as (HE & _). destruct o; intros [= <- <-]; exact HE.
  - destruct (a =? imported_acct)%N; [intros [= <- <-]; apply mem_ext_refl|].
    destruct (load_acct d m a) as [m1 o] eqn:EL.
    apply load_acct_ext in EL as (HE & _). destruct o; intros [= <- <-]; exact HE.
Qed.

Lemma run_queries_ext qs : forall d m m' rs,
  run_queries qs d m = (m', rs) -> mem_ext d m m'.
Proof.
  induction qs as [|q qs IH]; simpl; intros d m m' rs.
  - intros [= <- <-]. apply mem_ext_refl.
  - destruct (read q d m) as [m1 x] eqn:E1.
    destruct (run_queries qs d m1) as [m2 xs] eqn:E2.
    intros [= <- <-]. eapply mem_ext_trans; [eapply read_ext; eauto|eapply IH; eauto].
Qed.

Lemma run_queries_locked qs : forall d m, m_locked (run_queries qs d m).1 = m_locked m.
Proof.
  induction qs as [|q qs IH]; simpl; intros d m; [reflexivity|].
  destruct (read q d m) as [m1 x] eqn:E1.
  destruct (run_queries qs d m1) as [m2 xs] eqn:E2. simpl.
  specialize (IH d m1). rewrite E2 in IH. simpl in IH. rewrite IH.
  clear -E1. destruct q as [y|a b|a|nm|a| | |h| | ]; simpl in E1; try (injection E1 as <- _; reflexivity).
  - destruct (m_addrs m !! y); [injection E1 as <- _; reflexivity|].
    case_bool_decide; [|injection E1 as <- _; reflexivity].
    destruct y as [a b i|k|k]; try (injection E1 as <- _; reflexivity).
    destruct (load_acct d m a) as [m0 o] eqn:EL. apply load_acct_ext in EL as (_ & (_ & _ & _ & _ & _ & HL) & _).
    destruct o; injection E1 as <- _; np; simpl; exact HL.
  - destruct (load_acct d m a) as [m0 o] eqn:EL. apply load_acct_ext in EL as (_ & (_ & _ & _ & _ & _ & HL) & _).
    destruct o; injection E1 as <- _; exact HL.
  - destruct (a =? imported_acct)%N; [injection E1 as <- _; reflexivity|].
    destruct (load_acct d m a) as [m0 o] eqn:EL. apply load_acct_ext in EL as (_ & (_ & _ & _ & _ & _ & HL) & _).
    destruct o; injection E1 as <- _; exact HL.
Qed.

(** [Unlock]'s loads. *)
Lemma load_all_ext d l : forall m m' ok,
  load_all d m l = (m', ok) -> mem_ext d m m' /\ m_addrs m' = m_addrs m.
Proof.
  induction l as [|a l IH]; simpl; intros m m' ok.
  - intros [= <- <-]. split; [apply mem_ext_refl|reflexivity].
  - destruct (load_acct d m a) as [m1 o] eqn:EL.
    apply load_acct_ext in EL as (HE & (_ & HA & _) & _).
    destruct o as [ai|].
    + intros H. apply IH in H as [H1 H2]. split; [eapply mem_ext_trans; eauto|congruence].
    + intros [= <- <-]. auto.
Qed.

(** Projections of an account row *)
Definition idxp (o : option acct_row) : option (N * N) := (fun r => (r_ext r, r_int r)) <$> o.
Definition namep (o : option acct_row) : option (N * option wo) := (fun r => (r_name r, r_kind r)) <$> o.

Lemma info_of_row_idx r b :
  next_of (info_of_row r) b = row_next r b /\ last_of (info_of_row r) b = N.pred (row_next r b).
Proof. destruct b; split; reflexivity. Qed.

Lemma coh_idx_ext m m' d0 d :
  coh_idx m d0 -> mem_ext d m m' ->
  (forall a, m_accts m !! a = None -> idxp (d_accts d !! a) = idxp (d_accts d0 !! a)) ->
  coh_idx m' d0.
Proof.
  intros HC (A & B & _) HU a ai H.
  destruct (B a ai H) as [H1|(H1 & r & Hr & ->)]; [apply (HC a ai H1)|].
  specialize (HU a H1). rewrite Hr in HU. simpl in HU.
  destruct (d_accts d0 !! a) as [r0|] eqn:E0; simpl in HU; [|discriminate].
  injection HU as He Hi. exists r0. split; [reflexivity|].
  intros b. destruct (info_of_row_idx r b) as [-> ->].
  destruct b; simpl; rewrite ?He, ?Hi; auto.
Qed.

Lemma coh_name_ext m m' d0 d :
  coh_name m d0 -> mem_ext d m m' ->
  (forall a, m_accts m !! a = None -> namep (d_accts d !! a) = namep (d_accts d0 !! a)) ->
  coh_name m' d0.
Proof.
  intros HC (A & B & _) HU a ai r0 H Hr0.
  destruct (B a ai H) as [H1|(H1 & r & Hr & ->)]; [apply (HC a ai r0 H1 Hr0)|].
  specialize (HU a H1). rewrite Hr, Hr0 in HU. simpl in HU. injection HU as HU1 HU2. simpl. congruence.
Qed.

(** Every cached account entry has a row, of its kind. *)
Definition kinds_ok (m : mem) (d : disk) : Prop :=
  forall a ai, m_accts m !! a = Some ai -> exists r, d_accts d !! a = Some r /\ ai_kind ai = r_kind r.

Lemma kinds_ok_coh m d : coh_idx m d -> coh_name m d -> kinds_ok m d.
Proof.
  intros Hi Hn a ai Hai. destruct (Hi a ai Hai) as (r & Hr & _). exists r. split; [exact Hr|].
  pose proof (Hn a ai r Hai Hr) as Hp. injection Hp as _ Hk. exact Hk.
Qed.

(** An object built from [d] through account entries of the right kind records
    what the rows of [d0] say, when [d] shows the same schema. *)
Lemma built_from_meta d d0 m' x mt :
  kinds_ok m' d0 -> d_schema d = d_schema d0 ->
  built_from d m' x mt -> mt = meta_of d0 x.
Proof.
  intros Hk Hs. destruct x as [a b i|k|k]; simpl; try (intros ->; rewrite ?Hs; reflexivity).
  intros (ai & Hai & ->). destruct (Hk a ai Hai) as (r & Hr & Hkk).
  unfold kind_row. rewrite Hr, Hkk, Hs. reflexivity.
Qed.

Lemma coh_addr_ext m m' d0 d :
  coh_addr m d0 -> mem_ext d m m' -> d_addrs d ⊆ d_addrs d0 ->
  kinds_ok m' d0 -> d_schema d = d_schema d0 -> coh_addr m' d0.
Proof.
  intros HC (_ & _ & C & _) HS Hk Hsch x mt Hx.
  destruct (C x mt Hx) as [H|[H1 H2]]; [apply HC, H|].
  split; [apply HS, H1|]. eapply built_from_meta; eauto.
Qed.

Lemma coh_sync_ext m m' d0 d : coh_sync m d0 -> mem_ext d m m' -> coh_sync m' d0.
Proof. intros [H1 H2] (_ & _ & _ & D & E & _). unfold coh_sync. rewrite D, E. auto. Qed.

Lemma coh_bday_ext m m' d0 d : coh_bday m d0 -> mem_ext d m m' -> coh_bday m' d0.
Proof. intros H (_ & _ & _ & _ & _ & F). unfold coh_bday. rewrite F. exact H. Qed.

Lemma coherent_ext m m' d : coherent m d -> mem_ext d m m' -> coherent m' d.
Proof.
  intros (A & B & C & D & E) HE.
  assert (A' : coh_idx m' d) by (eapply coh_idx_ext; eauto).
  assert (B' : coh_name m' d) by (eapply coh_name_ext; eauto).
  split; [exact A'|split; [exact B'|split; [|split]]].
  - eapply coh_addr_ext; eauto. apply kinds_ok_coh; assumption.
  - eapply coh_sync_ext; eauto.
  - eapply coh_bday_ext; eauto.
Qed.

(** ** Facts every step shares *)

(** The schema of the scope never changes; an account row keeps its kind. *)
Definition kinds_kept (d d' : disk) : Prop :=
  d_schema d' = d_schema d /\
  forall a r, d_accts d !! a = Some r -> exists r', d_accts d' !! a = Some r' /\ r_kind r' = r_kind r.

Lemma kinds_kept_refl d : kinds_kept d d.
Proof. split; eauto. Qed.

Lemma kinds_kept_meta d d' x :
  kinds_kept d d' -> wfA d -> x ∈ d_addrs d -> meta_of d' x = meta_of d x.
Proof.
  intros [Hs Hk] HA Hx. destruct x as [a b i|k|k]; simpl; rewrite ?Hs; try reflexivity.
  destruct (HA a b i Hx) as [r Hr]. destruct (Hk a r Hr) as (r' & Hr' & Hkk).
  unfold kind_row. rewrite Hr, Hr', Hkk. reflexivity.
Qed.

Lemma r_name_set_next b nx r : r_name (row_set_next b nx r) = r_name r.
Proof. destruct b; reflexivity. Qed.
Lemma ai_name_set_branch b nx la ai : ai_name (set_branch b nx la ai) = ai_name ai.
Proof. destruct b; reflexivity. Qed.
Lemma r_kind_set_next b nx r : r_kind (row_set_next b nx r) = r_kind r.
Proof. destruct b; reflexivity. Qed.
Lemma ai_kind_set_branch b nx la ai : ai_kind (set_branch b nx la ai) = ai_kind ai.
Proof. destruct b; reflexivity. Qed.

Lemma put_chain_kinds a b i cnt d d' :
  put_chain a b i cnt d = inl d' \/ put_chain a b i cnt d = inr d' -> kinds_kept d d'.
Proof.
  unfold put_chain. destruct (d_accts d !! a) as [r0|] eqn:E; intros [H|H]; try discriminate;
    injection H as <-; split; simpl; auto.
  - intros a' r Hr. destruct (decide (a' = a)) as [->|Hne].
    + rewrite lookup_insert. eexists. split; [reflexivity|]. rewrite r_kind_set_next. congruence.
    + rewrite lookup_insert_ne by congruence. eauto.
  - eauto.
Qed.

Lemma rename_switch_eq a nm r d : rename_switch a nm r d = rename_rows a nm r d.
Proof. unfold rename_switch. destruct (r_kind r); reflexivity. Qed.

Lemma set_synced_fields s t t' r :
  set_synced s t = (t', r) ->
  d_accts (t_disk t') = d_accts (t_disk t) /\ d_addrs (t_disk t') = d_addrs (t_disk t) /\
  m_accts (t_mem t') = m_accts (t_mem t) /\ m_addrs (t_mem t') = m_addrs (t_mem t) /\
  t_cbs t' = t_cbs t /\ t_ncbs t' = t_ncbs t /\ d_lastacct (t_disk t') = d_lastacct (t_disk t) /\
  d_schema (t_disk t') = d_schema (t_disk t).
Proof.
  unfold set_synced. case_match; intros [= <- <-]; simpl; auto 12.
Qed.

Lemma new_account_kinds k nm t t' r :
  wfL (t_disk t) -> new_account k nm t = (t', r) -> kinds_kept (t_disk t) (t_disk t').
Proof.
  intros HL H. unfold new_account in H. repeat case_match; simplify_eq; simpl; try apply kinds_kept_refl.
  split; simpl; auto. intros a r1 Hr1.
  assert (a <= d_lastacct (t_disk t))%N by (apply HL; eauto).
  rewrite lookup_insert_ne by lia. eauto.
Qed.

Lemma rename_rows_kinds a nm r d : d_accts d !! a = Some r -> kinds_kept d (rename_rows a nm r d).
Proof.
  intros Hr. split; simpl; auto. intros a' r' Hr'. destruct (decide (a' = a)) as [->|Hne].
  - rewrite lookup_insert. eexists. split; [reflexivity|]. simpl. congruence.
  - rewrite lookup_insert_ne by congruence. eauto.
Qed.

Lemma issue_kinds rbf a b i cnt ai ok t t' r :
  issue rbf a b i cnt ai ok t = (t', r) -> kinds_kept (t_disk t) (t_disk t').
Proof.
  unfold issue. destruct (put_chain a b i cnt (t_disk t)) as [d'|d'] eqn:E; intros [= <- <-]; simpl;
    eapply put_chain_kinds; eauto.
Qed.

Lemma step_kinds P o t t' r :
  wfL (t_disk t) -> step P o t = (t', r) -> kinds_kept (t_disk t) (t_disk t').
Proof.
  intros HL.
  destruct o as [nm|a nm|a b n|a b last|x|s| |tm|s v|x bs pv|q|nm wk| | |a| ]; simpl; intros HS.
  - destruct (m_watch (t_mem t)); [injection HS as <- <-; apply kinds_kept_refl|].
    destruct (m_locked (t_mem t)); [injection HS as <- <-; apply kinds_kept_refl|].
    eapply new_account_kinds; eauto.
  - repeat case_match; simplify_eq; simpl; try apply kinds_kept_refl;
      rewrite rename_switch_eq; apply rename_rows_kinds; assumption.
  - destruct (load_acct (t_disk t) (t_mem t) a) as [m1 [ai|]]; [|injection HS as <- <-; apply kinds_kept_refl].
    repeat case_match; simplify_eq; simpl; try apply kinds_kept_refl.
    eapply issue_kinds in HS. exact HS.
  - destruct (load_acct (t_disk t) (t_mem t) a) as [m1 [ai|]]; [|injection HS as <- <-; apply kinds_kept_refl].
    destruct (last <? next_of ai b)%N; [injection HS as <- <-; apply kinds_kept_refl|].
    destruct (max_addrs <? last)%N; [injection HS as <- <-; apply kinds_kept_refl|].
    destruct (p_ee P).
    + destruct (put_chain a b (next_of ai b) (last - next_of ai b + 1) (t_disk t)) as [d'|d'] eqn:E;
        injection HS as <- <-; simpl; eapply put_chain_kinds; eauto.
    + eapply issue_kinds in HS. exact HS.
  - injection HS as <- <-. split; simpl; eauto.
  - apply set_synced_fields in HS as (E1 & _ & _ & _ & _ & _ & _ & E8). split; [exact E8|]. rewrite E1. eauto.
  - apply set_synced_fields in HS as (E1 & _ & _ & _ & _ & _ & _ & E8). split; [exact E8|]. rewrite E1. eauto.
  - injection HS as <- <-. split; simpl; eauto.
  - injection HS as <- <-. split; simpl; eauto.
  - repeat case_match; simplify_eq; simpl; try apply kinds_kept_refl; split; simpl; eauto.
  - destruct (read q (t_disk t) (t_mem t)). injection HS as <- <-. apply kinds_kept_refl.
  - eapply new_account_kinds; eauto.
  - repeat case_match; simplify_eq; simpl; apply kinds_kept_refl.
  - repeat case_match; simplify_eq; simpl; apply kinds_kept_refl.
  - injection HS as <- <-. apply kinds_kept_refl.
  - destruct (m_watch (t_mem t)); injection HS as <- <-; [apply kinds_kept_refl|]. split; simpl; eauto.
Qed.

Lemma coh_addr_transfer m d d' :
  coh_addr m d -> wfA d -> kinds_kept d d' -> d_addrs d ⊆ d_addrs d' -> coh_addr m d'.
Proof.
  intros HC HA HK HS x mt Hx. destruct (HC x mt Hx) as [H1 ->].
  split; [apply HS, H1|]. symmetry. apply kinds_kept_meta; assumption.
Qed.

Definition cb_ok (d : disk) (c : callback) : Prop :=
  forall x mt, (x, mt) ∈ cb_addrs c -> x ∈ d_addrs d /\ mt = meta_of d x.

Lemma cbs_transfer cbs d d' :
  Forall (cb_ok d) cbs -> wfA d -> kinds_kept d d' -> d_addrs d ⊆ d_addrs d' -> Forall (cb_ok d') cbs.
Proof.
  intros HF HA HK HS. eapply Forall_impl; [|exact HF]. intros c Hc x mt Hx.
  destruct (Hc x mt Hx) as [H1 ->]. split; [apply HS, H1|]. symmetry. apply kinds_kept_meta; assumption.
Qed.

(** ** Rolled-back transactions outside K leave memory coherent with the
    committed database *)

(** Coherence of the account entries outside a set [T] of tainted accounts. *)
Definition coh_idx_ex (T : list N) (m : mem) (d : disk) : Prop :=
  forall a ai, a ∉ T -> m_accts m !! a = Some ai ->
    exists r, d_accts d !! a = Some r /\
      forall b, next_of ai b = row_next r b /\ last_of ai b = N.pred (row_next r b).
Definition coh_name_ex (T : list N) (m : mem) (d : disk) : Prop :=
  forall a ai r, a ∉ T -> m_accts m !! a = Some ai -> d_accts d !! a = Some r ->
    (ai_name ai, ai_kind ai) = (r_name r, r_kind r).

(** [d0]: the committed database; [d]: the transaction's view; [m]: memory.
    [armed]: the transaction changed account rows that need not be cached;
    [issued]: it wrote address rows; [T]: accounts loaded since it was armed
    and not evicted since. *)
Definition AIK (d0 d : disk) (m : mem) (armed issued : bool) (T : list N) : Prop :=
  coh_idx_ex T m d0 /\ coh_name_ex T m d0 /\ coh_addr m d0 /\ coh_sync m d0 /\ coh_bday m d0 /\
  d_schema d = d_schema d0 /\
  (issued = false -> d_addrs d = d_addrs d0) /\
  (armed = false -> T = [] /\ forall a, m_accts m !! a = None -> d_accts d !! a = d_accts d0 !! a).

Lemma coh_idx_ex_nil m d : coh_idx_ex [] m d <-> coh_idx m d.
Proof. split; intros H a ai; [intros Ha; apply H; [apply not_elem_of_nil|exact Ha]|intros _ Ha; apply H, Ha]. Qed.
Lemma coh_name_ex_nil m d : coh_name_ex [] m d <-> coh_name m d.
Proof. split; intros H a ai r; [intros Ha; apply H; [apply not_elem_of_nil|exact Ha]|intros _ Ha; apply H, Ha]. Qed.

Definition arm (o : op) (armed : bool) : bool :=
  match o with ONewAccount _ | ONewAccountWO _ _ | ORename _ _ | OInvalidate _ => true | _ => armed end.
Definition iss (o : op) (issued : bool) : bool :=
  match o with ONext _ _ _ | OExtend _ _ _ => true | _ => issued end.
Definition tnt (o : op) (armed : bool) (T : list N) : list N :=
  match o with
  | OExtend a _ _ | ONext a _ _ | ORead (QLast a _) => taint_if armed a T
  | ORead (QProps a) => if (a =? imported_acct)%N then T else taint_if armed a T
  | OInvalidate a => rm_taint a T
  | _ => T
  end.

Lemma abort_k_next P o ops armed issued T :
  abort_k P armed issued T (o :: ops) = false ->
  abort_k P (arm o armed) (iss o issued) (tnt o armed T) ops = false.
Proof.
  destruct o as [nm|a nm|a b n|a b last|x|s| |tm|s v|x bs pv|q|nm wk| | |a| ]; simpl; try discriminate; auto.
  - intros H. apply orb_false_iff in H as [_ H]. exact H.
  - intros H. apply orb_false_iff in H as [_ H]. exact H.
  - intros H. apply orb_false_iff in H as [_ H]. exact H.
  - destruct q; simpl; auto. intros H. apply orb_false_iff in H as [_ H]. exact H.
  - intros H. apply orb_false_iff in H as [_ H]. exact H.
Qed.

(** Memory changes that keep everything but possibly the lock state and the
    waiting list, and may drop cached addresses. *)
Lemma AIK_cong d0 d m armed issued T d' m' :
  d_accts d' = d_accts d -> d_addrs d' = d_addrs d -> d_schema d' = d_schema d ->
  m_accts m' = m_accts m -> (forall x mt, m_addrs m' !! x = Some mt -> m_addrs m !! x = Some mt) ->
  m_synced m' = m_synced m -> m_start m' = m_start m -> m_bw m' = m_bw m ->
  AIK d0 d m armed issued T -> AIK d0 d' m' armed issued T.
Proof.
  intros E1 E2 E2' E3 E4 E5 E6 E7 (A & B & C & D & E & S & H2 & H3).
  unfold AIK, coh_idx_ex, coh_name_ex, coh_sync, coh_bday. rewrite E1, E2, E2', E3, E5, E6, E7.
  split; [exact A|split; [exact B|split; [|split; [exact D|split; [exact E|split; [exact S|split; [exact H2|exact H3]]]]]]].
  intros y mt Hy. apply C, E4, Hy.
Qed.

Lemma AIK_disk d0 d m armed issued T d' armed' issued' :
  d_schema d' = d_schema d ->
  (issued' = false -> issued = false /\ d_addrs d' = d_addrs d) ->
  (armed' = false -> armed = false /\ forall a, m_accts m !! a = None -> d_accts d' !! a = d_accts d !! a) ->
  AIK d0 d m armed issued T -> AIK d0 d' m armed' issued' T.
Proof.
  intros ES HI HA (A & B & C & D & E & S & H2 & H3).
  unfold AIK.
  split; [exact A|split; [exact B|split; [exact C|split; [exact D|split; [exact E|split; [congruence|split]]]]]].
  - intros Hi. destruct (HI Hi) as [-> ->]. auto.
  - intros Ha. destruct (HA Ha) as [-> HH]. destruct (H3 eq_refl) as [HT H4]. split; [exact HT|].
    intros a Hn. rewrite (HH a Hn). apply H4, Hn.
Qed.

Lemma mem_ext_uncached d m m' a :
  mem_ext d m m' -> m_accts m' !! a = None -> m_accts m !! a = None.
Proof.
  intros (E1 & _) H. destruct (m_accts m !! a) as [ai|] eqn:E; [|reflexivity].
  apply E1 in E. congruence.
Qed.

(** Cache extension from rows that, for uncached accounts, are the committed
    ones; the address cache does not grow. *)
Lemma AIK_ext_accts d0 d m m' issued :
  AIK d0 d m false issued [] -> mem_ext d m m' ->
  (forall x mt, m_addrs m' !! x = Some mt -> m_addrs m !! x = Some mt) ->
  AIK d0 d m' false issued [].
Proof.
  intros (A & B & C & D & E & S & H2 & H3) HE HA. destruct (H3 eq_refl) as [_ H4].
  apply coh_idx_ex_nil in A. apply coh_name_ex_nil in B.
  unfold AIK. rewrite coh_idx_ex_nil, coh_name_ex_nil.
  split; [|split; [|split; [|split; [|split; [|split; [exact S|split; [exact H2|]]]]]]].
  - eapply coh_idx_ext; eauto. intros a Ha. rewrite (H4 a Ha). reflexivity.
  - eapply coh_name_ext; eauto. intros a Ha. rewrite (H4 a Ha). reflexivity.
  - intros x mt Hx. apply C, HA, Hx.
  - eapply coh_sync_ext; eauto.
  - eapply coh_bday_ext; eauto.
  - intros _. split; [reflexivity|]. intros a Ha. apply H4. eapply mem_ext_uncached; eauto.
Qed.

Lemma AIK_ext_full d0 d m m' :
  AIK d0 d m false false [] -> mem_ext d m m' -> AIK d0 d m' false false [].
Proof.
  intros (A & B & C & D & E & S & H2 & H3) HE. destruct (H3 eq_refl) as [_ H4]. specialize (H2 eq_refl).
  apply coh_idx_ex_nil in A. apply coh_name_ex_nil in B.
  assert (A' : coh_idx m' d0) by (eapply coh_idx_ext; eauto; intros a Ha; rewrite (H4 a Ha); reflexivity).
  assert (B' : coh_name m' d0) by (eapply coh_name_ext; eauto; intros a Ha; rewrite (H4 a Ha); reflexivity).
  unfold AIK. rewrite coh_idx_ex_nil, coh_name_ex_nil.
  split; [exact A'|split; [exact B'|split; [|split; [|split; [|split; [exact S|split; [auto|]]]]]]].
  - eapply coh_addr_ext; eauto; [rewrite H2; reflexivity|apply kinds_ok_coh; assumption].
  - eapply coh_sync_ext; eauto.
  - eapply coh_bday_ext; eauto.
  - intros _. split; [reflexivity|]. intros a Ha. apply H4. eapply mem_ext_uncached; eauto.
Qed.

(** After arming, a load of account [a] taints it. *)
Lemma AIK_taint d0 d m m' issued T a :
  AIK d0 d m true issued T -> same_but a m m' -> AIK d0 d m' true issued (a :: T).
Proof.
  intros (A & B & C & D & E & S & H2 & _) (S1 & S2 & S3 & S4 & S5 & _).
  unfold AIK, coh_sync, coh_bday, coh_addr. rewrite S2, S3, S4, S5.
  split; [|split; [|split; [exact C|split; [exact D|split; [exact E|split; [exact S|split; [exact H2|discriminate]]]]]]].
  - intros a' ai Hn Ha'. apply not_elem_of_cons in Hn as [Hne Hn]. rewrite S1 in Ha' by exact Hne. eapply A; eauto.
  - intros a' ai r Hn Ha'. apply not_elem_of_cons in Hn as [Hne Hn]. rewrite S1 in Ha' by exact Hne. eapply B; eauto.
Qed.

Lemma AIK_arm d0 d m armed issued T : AIK d0 d m armed issued T -> AIK d0 d m true issued T.
Proof.
  intros (A & B & C & D & E & S & H2 & _). unfold AIK.
  split; [exact A|split; [exact B|split; [exact C|split; [exact D|split; [exact E|split; [exact S|split; [exact H2|discriminate]]]]]]].
Qed.

(** A load ([loadAccountInfo] of [a]) in an aborted transaction. *)
Lemma AIK_load d0 d m m' o a armed issued T :
  load_acct d m a = (m', o) -> AIK d0 d m armed issued T ->
  AIK d0 d m' armed issued (taint_if armed a T).
Proof.
  intros HL HI. apply load_acct_ext in HL as (HE & HS & _).
  destruct armed; simpl.
  - eapply AIK_taint; eauto.
  - assert (T = []) as -> by (apply HI; reflexivity).
    eapply AIK_ext_accts; eauto. destruct HS as (_ & -> & _). auto.
Qed.

Lemma new_account_AIK d0 k nm t t' r armed issued T :
  new_account k nm t = (t', r) ->
  AIK d0 (t_disk t) (t_mem t) armed issued T -> AIK d0 (t_disk t') (t_mem t') true issued T.
Proof.
  intros HS HI. apply AIK_arm in HI. unfold new_account in HS.
  repeat case_match; simplify_eq; simpl; try exact HI.
  eapply AIK_disk; [..|exact HI]; simpl; auto. discriminate.
Qed.

(** The shared body of issuance / deferred extension, in an aborted
    transaction, without the read-back. *)
Lemma issue_AIK d0 a b i cnt ai ok t t' r armed T :
  issue false a b i cnt ai ok t = (t', r) ->
  m_accts (t_mem t) !! a = Some ai ->
  AIK d0 (t_disk t) (t_mem t) armed true T ->
  AIK d0 (t_disk t') (t_mem t') armed true T.
Proof.
  intros HS Ha HI. unfold issue in HS. unfold put_chain in HS.
  destruct (d_accts (t_disk t) !! a) as [r0|] eqn:Er0; injection HS as <- <-; simpl.
  - eapply AIK_disk; [..|exact HI]; simpl; auto; try discriminate.
    intros ->. split; [reflexivity|]. intros a' Ha'. assert (a' <> a) by congruence.
    rewrite lookup_insert_ne by congruence. reflexivity.
  - eapply AIK_disk; [..|exact HI]; simpl; auto; discriminate.
Qed.

Lemma AIK_issued d0 d m armed issued T : AIK d0 d m armed issued T -> AIK d0 d m armed true T.
Proof. intros HI. eapply AIK_disk; [..|exact HI]; auto; discriminate. Qed.

Lemma rm_taint_spec a a' T : a' ∈ rm_taint a T <-> a' ∈ T /\ a' <> a.
Proof.
  unfold rm_taint. rewrite elem_of_list_filter. split.
  - intros [H1 H2]. split; [exact H2|]. apply negb_prop_elim in H1. intros ->. apply H1. rewrite N.eqb_refl. exact I.
  - intros [H1 H2]. split; [|exact H1]. apply negb_prop_intro. intros H. apply Is_true_true in H.
    apply N.eqb_eq in H. contradiction.
Qed.

Lemma abort_k_step P d0 o ops t t' r armed issued T :
  abort_k P armed issued T (o :: ops) = false ->
  step P o t = (t', r) ->
  AIK d0 (t_disk t) (t_mem t) armed issued T ->
  AIK d0 (t_disk t') (t_mem t') (arm o armed) (iss o issued) (tnt o armed T).
Proof.
  intros HK HS HI.
  destruct o as [nm|a nm|a b n|a b last|x|s| |tm|s v|x bs pv|q|nm wk| | |a| ]; simpl in HK; try discriminate.
  - (* new account *)
    simpl in HS. destruct (m_watch (t_mem t)); [injection HS as <- <-; eapply AIK_arm; exact HI|].
    destruct (m_locked (t_mem t)); [injection HS as <- <-; eapply AIK_arm; exact HI|].
    eapply new_account_AIK; eauto.
  - (* rename, deferred *)
    apply orb_false_iff in HK as [Hre HK]. simpl in HS. rewrite Hre in HS. apply AIK_arm in HI.
    repeat case_match; simplify_eq; simpl; try exact HI.
    rewrite rename_switch_eq. eapply AIK_disk; [..|exact HI]; simpl; auto; discriminate.
  - (* next *)
    apply orb_false_iff in HK as [Hrb HK]. simpl in HS. rewrite Hrb in HS.
    destruct (load_acct (t_disk t) (t_mem t) a) as [m1 o] eqn:EL.
    pose proof (AIK_load _ _ _ _ _ _ _ _ _ EL HI) as HI1.
    apply load_acct_ext in EL as (_ & _ & Ho).
    destruct o as [ai|]; [|injection HS as <- <-; eapply AIK_issued; exact HI1].
    destruct ((max_addrs <? n)%N || (max_addrs <? next_of ai b + n)%N); [injection HS as <- <-; eapply AIK_issued; exact HI1|].
    destruct (n =? 0)%N; [injection HS as <- <-; eapply AIK_issued; exact HI1|].
    eapply issue_AIK in HS; [exact HS|exact Ho|]. eapply AIK_issued. exact HI1.
  - (* extend, deferred *)
    apply orb_false_iff in HK as [Hee HK]. simpl in HS. rewrite Hee in HS.
    destruct (load_acct (t_disk t) (t_mem t) a) as [m1 o] eqn:EL.
    pose proof (AIK_load _ _ _ _ _ _ _ _ _ EL HI) as HI1.
    apply load_acct_ext in EL as (_ & _ & Ho).
    destruct o as [ai|]; [|injection HS as <- <-; eapply AIK_issued; exact HI1].
    destruct (last <? next_of ai b)%N; [injection HS as <- <-; eapply AIK_issued; exact HI1|].
    destruct (max_addrs <? last)%N; [injection HS as <- <-; eapply AIK_issued; exact HI1|].
    eapply issue_AIK in HS; [exact HS|exact Ho|]. eapply AIK_issued. exact HI1.
  - (* mark used *)
    simpl in HS. injection HS as <- <-. simpl.
    eapply AIK_cong; [..|exact HI]; try reflexivity. simpl. intros y mt Hy.
    apply lookup_delete_Some in Hy as [_ Hy]. exact Hy.
  - (* birthday block *)
    simpl in HS. injection HS as <- <-. simpl.
    eapply AIK_cong; [..|exact HI]; auto.
  - (* read *)
    simpl in HS. destruct (read q (t_disk t) (t_mem t)) as [m' x] eqn:ER. injection HS as <- <-. simpl.
    destruct q as [y|a b|a|nm|a| | |h| | ]; simpl in HK; simpl tnt;
      try (simpl in ER; injection ER as <- <-; exact HI).
    + (* lookup: nothing issued, nothing created *)
      apply orb_false_iff in HK as [HK HK2]. apply orb_false_iff in HK as [-> ->].
      assert (T = []) as -> by (apply HI; reflexivity).
      eapply AIK_ext_full; [exact HI|]. eapply read_ext; exact ER.
    + simpl in ER. destruct (load_acct (t_disk t) (t_mem t) a) as [m1 o] eqn:EL.
      pose proof (AIK_load _ _ _ _ _ _ _ _ _ EL HI) as HI1.
      destruct o; injection ER as <- <-; exact HI1.
    + simpl in ER. destruct (a =? imported_acct)%N; [injection ER as <- <-; exact HI|].
      destruct (load_acct (t_disk t) (t_mem t) a) as [m1 o] eqn:EL.
      pose proof (AIK_load _ _ _ _ _ _ _ _ _ EL HI) as HI1.
      destruct o; injection ER as <- <-; exact HI1.
  - (* new watch-only account *)
    simpl in HS. eapply new_account_AIK; eauto.
  - (* lock *)
    simpl in HS. destruct (m_watch (t_mem t)); [injection HS as <- <-; exact HI|].
    destruct (m_locked (t_mem t)); injection HS as <- <-; [exact HI|].
    simpl. eapply AIK_cong; [..|exact HI]; auto.
  - (* unlock *)
    apply orb_false_iff in HK as [-> HK]. simpl in HS.
    destruct (m_watch (t_mem t)); [injection HS as <- <-; exact HI|].
    destruct (negb (m_locked (t_mem t))); [injection HS as <- <-; exact HI|].
    destruct (load_all (t_disk t) (t_mem t) (m_pending (t_mem t))) as [m1 ok] eqn:EL.
    apply load_all_ext in EL as [HE HA].
    assert (T = []) as -> by (apply HI; reflexivity).
    assert (HI1 : AIK d0 (t_disk t) m1 false issued []).
    { eapply AIK_ext_accts; eauto. rewrite HA. auto. }
    destruct ok; injection HS as <- <-; simpl; [|exact HI1].
    eapply AIK_cong; [..|exact HI1]; auto.
  - (* invalidate *)
    simpl in HS. injection HS as <- <-. simpl.
    destruct HI as (A & B & C & D & E & S & H2 & _).
    unfold AIK. split; [|split; [|split; [exact C|split; [exact D|split; [exact E|split; [exact S|split; [exact H2|discriminate]]]]]]].
    + intros a' ai Hn Ha'. simpl in Ha'. apply lookup_delete_Some in Ha' as [Hne Ha'].
      eapply A; eauto. intros Hin. apply Hn, rm_taint_spec. auto.
    + intros a' ai r0 Hn Ha'. simpl in Ha'. apply lookup_delete_Some in Ha' as [Hne Ha'].
      eapply B; eauto. intros Hin. apply Hn, rm_taint_spec. auto.
Qed.

Lemma abort_k_ops P d0 ops : forall t t' outs armed issued T,
  abort_k P armed issued T ops = false ->
  run_ops P ops t = (t', outs) ->
  AIK d0 (t_disk t) (t_mem t) armed issued T ->
  coherent (t_mem t') d0.
Proof.
  induction ops as [|o ops IH]; simpl; intros t t' outs armed issued T HK HR HI.
  - injection HR as <- <-. destruct T; [|discriminate].
    destruct HI as (A & B & C & D & E & _). apply coh_idx_ex_nil in A. apply coh_name_ex_nil in B.
    split; [exact A|split; [exact B|split; [exact C|split; [exact D|exact E]]]].
  - destruct (step P o t) as [t1 x] eqn:ES.
    destruct (run_ops P ops t1) as [t2 xs] eqn:ER. injection HR as <- <-.
    pose proof (abort_k_step P d0 o ops t t1 x armed issued T HK ES HI) as HI1.
    eapply IH; [|exact ER|exact HI1]. apply abort_k_next. exact HK.
Qed.

(** ** Committed transactions: next indices *)

Definition cb_match (a : N) (b : bool) (c : callback) : bool :=
  (cb_acct c =? a)%N && Bool.eqb (cb_branch c) b.

(** (next index, last address index) of branch [b] of account [a] once the
    pending callbacks have run *)
Definition eff (cbs : list callback) (a : N) (b : bool) (v : N * N) : N * N :=
  fold_left (fun v c => if cb_match a b c then (cb_next c, cb_last c) else v) cbs v.

Definition TI_idx (d : disk) (m : mem) (cbs : list callback) (pend : list (N * bool)) : Prop :=
  wfL d /\
  Forall (fun c => cached m (cb_acct c) /\ (cb_acct c, cb_branch c) ∈ pend) cbs /\
  forall a ai, m_accts m !! a = Some ai ->
    exists r, d_accts d !! a = Some r /\
      forall b, eff cbs a b (next_of ai b, last_of ai b) = (row_next r b, N.pred (row_next r b)).

Lemma eff_cons c cbs a b v :
  eff (c :: cbs) a b v = eff cbs a b (if cb_match a b c then (cb_next c, cb_last c) else v).
Proof. reflexivity. Qed.

Lemma eff_snoc c cbs a b v :
  eff (cbs ++ [c]) a b v = if cb_match a b c then (cb_next c, cb_last c) else eff cbs a b v.
Proof. unfold eff. rewrite fold_left_app. reflexivity. Qed.

Lemma eff_nomatch cbs a b v :
  Forall (fun c => cb_match a b c = false) cbs -> eff cbs a b v = v.
Proof.
  induction 1 as [|c cbs Hc _ IH]; [reflexivity|]. rewrite eff_cons, Hc. exact IH.
Qed.

Lemma cb_match_acct a b c : cb_acct c <> a -> cb_match a b c = false.
Proof. intros H. unfold cb_match. apply andb_false_iff. left. apply N.eqb_neq. exact H. Qed.

Lemma cb_match_true a b c : cb_match a b c = true -> cb_acct c = a /\ cb_branch c = b.
Proof.
  unfold cb_match. intros H. apply andb_true_iff in H as [H1 H2].
  apply N.eqb_eq in H1. apply Bool.eqb_prop in H2. auto.
Qed.

Lemma TI_idx_nil d m pend : TI_idx d m [] pend -> coh_idx m d.
Proof.
  intros (_ & _ & H) a ai Ha. destruct (H a ai Ha) as (r & Hr & Hb).
  exists r. split; [exact Hr|]. intros b. specialize (Hb b). simpl in Hb.
  unfold eff in Hb. simpl in Hb. injection Hb as -> ->. auto.
Qed.

Lemma TI_idx_init d m : wfL d -> coh_idx m d -> TI_idx d m [] [].
Proof.
  intros HL HC. split; [exact HL|]. split; [constructor|].
  intros a ai Ha. destruct (HC a ai Ha) as (r & Hr & Hb). exists r. split; [exact Hr|].
  intros b. destruct (Hb b) as [-> ->]. reflexivity.
Qed.

Lemma TI_idx_cong d m cbs pend d' m' :
  d_accts d' = d_accts d -> d_lastacct d' = d_lastacct d -> m_accts m' = m_accts m ->
  TI_idx d m cbs pend -> TI_idx d' m' cbs pend.
Proof.
  intros E1 E2 E3 (A & B & C). unfold TI_idx, wfL, cached in *. rewrite E1, E2, E3. auto.
Qed.

Lemma TI_idx_pend d m cbs pend p :
  TI_idx d m cbs pend -> TI_idx d m cbs (p :: pend).
Proof.
  intros (A & B & C). split; [exact A|]. split; [|exact C].
  eapply Forall_impl; [|exact B]. intros c [H1 H2]. split; [exact H1|]. apply elem_of_cons. auto.
Qed.

Lemma TI_idx_ext d m m' cbs pend :
  TI_idx d m cbs pend -> mem_ext d m m' -> TI_idx d m' cbs pend.
Proof.
  intros (A & B & C) (E1 & E2 & _). split; [exact A|]. split.
  - eapply Forall_impl; [|exact B]. intros c [[ai H1] H2]. split; [|exact H2].
    exists ai. apply E1. exact H1.
  - intros a ai Ha. destruct (E2 a ai Ha) as [H|(H & r & Hr & ->)]; [apply C; exact H|].
    exists r. split; [exact Hr|]. intros b.
    rewrite eff_nomatch.
    + destruct (info_of_row_idx r b) as [-> ->]. reflexivity.
    + eapply Forall_impl; [|exact B]. intros c [[ai0 Hc] _]. apply cb_match_acct.
      intros Heq. rewrite Heq in Hc. congruence.
Qed.

Lemma next_of_set_branch b nx la ai b' :
  next_of (set_branch b nx la ai) b' = if Bool.eqb b b' then nx else next_of ai b'.
Proof. destruct b, b'; reflexivity. Qed.
Lemma last_of_set_branch b nx la ai b' :
  last_of (set_branch b nx la ai) b' = if Bool.eqb b b' then la else last_of ai b'.
Proof. destruct b, b'; reflexivity. Qed.
Lemma row_next_set b nx r b' :
  row_next (row_set_next b nx r) b' = if Bool.eqb b b' then nx else row_next r b'.
Proof. destruct b, b'; reflexivity. Qed.
Lemma row_next_set_name nm r b : row_next (row_set_name nm r) b = row_next r b.
Proof. destruct b; reflexivity. Qed.
Lemma next_of_set_name nm ai b : next_of (set_name nm ai) b = next_of ai b.
Proof. destruct b; reflexivity. Qed.
Lemma last_of_set_name nm ai b : last_of (set_name nm ai) b = last_of ai b.
Proof. destruct b; reflexivity. Qed.

Lemma run_cb_accts c m :
  m_accts (run_cb c m) =
  match m_accts m !! cb_acct c with
  | Some ai => <[cb_acct c := set_branch (cb_branch c) (cb_next c) (cb_last c) ai]> (m_accts m)
  | None => m_accts m
  end.
Proof.
  unfold run_cb. destruct (m_locked m && cb_priv c); simpl; destruct (m_accts m !! cb_acct c); reflexivity.
Qed.

Lemma TI_idx_run_cb d m c cbs pend :
  TI_idx d m (c :: cbs) pend -> TI_idx d (run_cb c m) cbs pend.
Proof.
  intros (A & B & C). inversion B as [|c0 l [[ai Hai] Hp] B']; subst.
  unfold TI_idx, cached. rewrite run_cb_accts, Hai.
  split; [exact A|]. split.
  - eapply Forall_impl; [|exact B']. intros c' [[ai' H1] H2]. split; [|exact H2].
    destruct (decide (cb_acct c' = cb_acct c)) as [->|Hne].
    + rewrite lookup_insert. eauto.
    + rewrite lookup_insert_ne by congruence. eauto.
  - intros a ai' Ha. destruct (decide (a = cb_acct c)) as [->|Hne].
    + rewrite lookup_insert in Ha. injection Ha as <-.
      destruct (C _ _ Hai) as (r & Hr & Hb). exists r. split; [exact Hr|].
      intros b. specialize (Hb b). rewrite eff_cons in Hb.
      rewrite next_of_set_branch, last_of_set_branch.
      unfold cb_match in Hb. rewrite N.eqb_refl in Hb. simpl in Hb.
      destruct (Bool.eqb (cb_branch c) b); exact Hb.
    + rewrite lookup_insert_ne in Ha by congruence.
      destruct (C _ _ Ha) as (r & Hr & Hb). exists r. split; [exact Hr|].
      intros b. specialize (Hb b). rewrite eff_cons, cb_match_acct in Hb by congruence. exact Hb.
Qed.

Lemma TI_idx_run_ncb d m c cbs pend :
  TI_idx d m cbs pend -> TI_idx d (run_ncb c m) cbs pend.
Proof.
  intros (A & B & C). unfold run_ncb. destruct (m_accts m !! c.1) as [ai|] eqn:Eai; [|split; auto].
  split; [exact A|]. split.
  - eapply Forall_impl; [|exact B]. intros c' [[ai' H1] H2]. split; [|exact H2].
    unfold cached; simpl. destruct (decide (cb_acct c' = c.1)) as [->|Hne].
    + rewrite lookup_insert. eauto.
    + rewrite lookup_insert_ne by congruence. eauto.
  - simpl. intros a ai' Ha. destruct (decide (a = c.1)) as [->|Hne].
    + rewrite lookup_insert in Ha. injection Ha as <-.
      destruct (C _ _ Eai) as (r & Hr & Hb). exists r. split; [exact Hr|].
      intros b. rewrite next_of_set_name, last_of_set_name. apply Hb.
    + rewrite lookup_insert_ne in Ha by congruence. apply C; exact Ha.
Qed.

Lemma TI_idx_settle cbs : forall ncbs d m pend,
  TI_idx d m cbs pend -> TI_idx d (settle cbs ncbs m) [] pend.
Proof.
  induction cbs as [|c cbs IH]; intros ncbs d m pend H.
  - unfold settle. simpl. revert m H. induction ncbs as [|n ncbs IHn]; intros m H; [exact H|].
    simpl. apply IHn. apply TI_idx_run_ncb. exact H.
  - unfold settle. simpl. apply (IH ncbs). apply TI_idx_run_cb. exact H.
Qed.

Definition pend_of (P : params) (o : op) (pend : list (N * bool)) : list (N * bool) :=
  match o with
  | ONext a b _ => (a, b) :: pend
  | OExtend a b _ => if p_ee P then pend else (a, b) :: pend
  | _ => pend
  end.

Lemma commit_k_idx_next P o ops pend :
  commit_k_idx P pend (o :: ops) = false -> commit_k_idx P (pend_of P o pend) ops = false.
Proof.
  destruct o as [nm|a nm|a b n|a b last|x|s| |tm|s v|x bs pv|q|nm wk| | |a| ]; simpl; auto.
  - destruct (p_ee P); auto. intros H. apply orb_false_iff in H as [_ H]. exact H.
  - intros H. apply orb_false_iff in H as [_ H]. exact H.
Qed.

Lemma new_account_TI_idx k nm t t' r pend :
  new_account k nm t = (t', r) ->
  TI_idx (t_disk t) (t_mem t) (t_cbs t) pend -> TI_idx (t_disk t') (t_mem t') (t_cbs t') pend.
Proof.
  intros HS HT. unfold new_account in HS.
  repeat case_match; simplify_eq; simpl; try exact HT.
  destruct HT as (A & B & C). split; [|split; [exact B|]].
  - intros a Ha. simpl in *. destruct (decide (a = d_lastacct (t_disk t) + 1)%N) as [->|Hne]; [lia|].
    rewrite lookup_insert_ne in Ha by congruence. specialize (A a Ha). lia.
  - intros a ai Ha. destruct (C a ai Ha) as (r0 & Hr0 & Hb). exists r0. split; [|exact Hb].
    simpl. assert (a <= d_lastacct (t_disk t))%N by (apply A; eauto).
    rewrite lookup_insert_ne by lia. exact Hr0.
Qed.

(** The shared body of issuance / deferred extension in a committed
    transaction: a closure is appended whose values are the new row's. *)
Lemma issue_TI_idx rbf a b i cnt ai ok t t' r pend :
  issue rbf a b i cnt ai ok t = (t', r) ->
  m_accts (t_mem t) !! a = Some ai -> (cnt <> 0)%N ->
  TI_idx (t_disk t) (t_mem t) (t_cbs t) pend ->
  TI_idx (t_disk t') (t_mem t') (t_cbs t') ((a, b) :: pend).
Proof.
  intros HS Ho Hcnt (A & B & C).
  destruct (C a ai Ho) as (r0 & Hr0 & Hb0).
  unfold issue, put_chain in HS. rewrite Hr0 in HS. injection HS as <- <-. simpl.
  match goal with |- TI_idx ?d' _ ?cbs' ?pend' => assert (G : TI_idx d' (t_mem t) cbs' pend') end.
  2:{ eapply TI_idx_cong; [..|exact G]; try reflexivity. destruct rbf; [np; reflexivity|reflexivity]. }
  split; [|split].
  - intros a' Ha'. simpl in *. destruct (decide (a' = a)) as [->|Hne]; [apply A; eauto|].
    rewrite lookup_insert_ne in Ha' by congruence. apply A; exact Ha'.
  - apply Forall_app. split.
    + eapply Forall_impl; [|exact B]. intros c [Hq1 Hq2]. split; [exact Hq1|]. apply elem_of_cons; auto.
    + constructor; [|constructor]. simpl. split; [eexists; exact Ho|]. apply elem_of_cons; auto.
  - simpl. intros a' ai' Ha'. destruct (decide (a' = a)) as [->|Hne].
    + assert (ai' = ai) by congruence. subst ai'.
      rewrite lookup_insert. eexists. split; [reflexivity|].
      intros b'. rewrite eff_snoc, row_next_set. unfold cb_match. simpl. rewrite N.eqb_refl. simpl.
      destruct (Bool.eqb b b') eqn:Eb.
      * reflexivity.
      * apply Hb0.
    + rewrite lookup_insert_ne by congruence.
      destruct (C a' ai' Ha') as (r1 & Hr1 & Hb1). exists r1. split; [exact Hr1|].
      intros b'. rewrite eff_snoc, cb_match_acct by (simpl; congruence). apply Hb1.
Qed.

Lemma cache_all_accts l m : m_accts (cache_all l m) = m_accts m.
Proof. reflexivity. Qed.

Lemma commit_idx_step P o ops t t' r pend :
  commit_k_idx P pend (o :: ops) = false ->
  step P o t = (t', r) ->
  TI_idx (t_disk t) (t_mem t) (t_cbs t) pend ->
  TI_idx (t_disk t') (t_mem t') (t_cbs t') (pend_of P o pend).
Proof.
  intros HK HS HT.
  destruct o as [nm|a nm|a b n|a b last|x|s| |tm|s v|x bs pv|q|nm wk| | |a| ]; simpl in HK.
  - (* new account *)
    simpl in HS. destruct (m_watch (t_mem t)); [injection HS as <- <-; exact HT|].
    destruct (m_locked (t_mem t)); [injection HS as <- <-; exact HT|].
    eapply new_account_TI_idx; eauto.
  - (* rename *)
    simpl in HS.
    destruct (a =? imported_acct)%N; [injection HS as <- <-; exact HT|].
    destruct (bool_decide (is_Some (d_nameidx (t_disk t) !! nm))); [injection HS as <- <-; exact HT|].
    destruct (bad_name nm); [injection HS as <- <-; exact HT|].
    destruct (d_accts (t_disk t) !! a) as [r0|] eqn:Er0; [|injection HS as <- <-; exact HT].
    rewrite rename_switch_eq in HS.
    (* the rows: same indices under a new name *)
    assert (HD : TI_idx (rename_rows a nm r0 (t_disk t)) (t_mem t) (t_cbs t) pend).
    { destruct HT as (A & B & C). split; [|split; [exact B|]].
      - intros a' Ha'. simpl in *. destruct (decide (a' = a)) as [->|Hne]; [apply A; eauto|].
        rewrite lookup_insert_ne in Ha' by congruence. apply A; exact Ha'.
      - simpl. intros a' ai' Ha'. destruct (decide (a' = a)) as [->|Hne].
        + rewrite lookup_insert. eexists. split; [reflexivity|].
          destruct (C a ai' Ha') as (r1 & Hr1 & Hb1). assert (r1 = r0) by congruence. subst r1.
          intros b0. rewrite row_next_set_name. apply Hb1.
        + rewrite lookup_insert_ne by congruence. apply C; exact Ha'. }
    destruct (p_re P); injection HS as <- <-; simpl; [|exact HD].
    destruct (m_accts (t_mem t) !! a) as [ai|] eqn:Eai; [|exact HD].
    apply (TI_idx_run_ncb _ _ (a, nm)) in HD. unfold run_ncb in HD. simpl in HD. rewrite Eai in HD. exact HD.
  - (* next *)
    simpl in HS.
    destruct (load_acct (t_disk t) (t_mem t) a) as [m1 o] eqn:EL.
    apply load_acct_ext in EL as (HE & _ & Ho).
    pose proof (TI_idx_ext _ _ _ _ _ HT HE) as HT1.
    destruct o as [ai|].
    2:{ injection HS as <- <-. simpl. apply TI_idx_pend. exact HT1. }
    destruct ((max_addrs <? n)%N || (max_addrs <? next_of ai b + n)%N).
    { injection HS as <- <-. simpl. apply TI_idx_pend. exact HT1. }
    destruct (n =? 0)%N eqn:En.
    { injection HS as <- <-. simpl. apply TI_idx_pend. exact HT1. }
    apply N.eqb_neq in En.
    eapply issue_TI_idx in HS; [exact HS|exact Ho|exact En|exact HT1].
  - (* extend *)
    simpl in HS.
    change (pend_of P (OExtend a b last) pend) with (if p_ee P then pend else (a, b) :: pend).
    destruct (load_acct (t_disk t) (t_mem t) a) as [m1 o] eqn:EL.
    apply load_acct_ext in EL as (HE & _ & Ho).
    pose proof (TI_idx_ext _ _ _ _ _ HT HE) as HT1.
    assert (HW : TI_idx (t_disk t) m1 (t_cbs t) (if p_ee P then pend else (a, b) :: pend)).
    { destruct (p_ee P); [exact HT1|apply TI_idx_pend; exact HT1]. }
    destruct o as [ai|].
    2:{ injection HS as <- <-. simpl. exact HW. }
    destruct (last <? next_of ai b)%N eqn:El.
    { injection HS as <- <-. simpl. exact HW. }
    apply N.ltb_ge in El.
    destruct (max_addrs <? last)%N.
    { injection HS as <- <-. simpl. exact HW. }
    destruct (p_ee P) eqn:Eee.
    2:{ eapply issue_TI_idx in HS; [exact HS|exact Ho|lia|exact HT1]. }
    apply orb_false_iff in HK as [HP HK]. apply bool_decide_eq_false in HP.
    destruct HT1 as (A & B & C).
    destruct (C a ai Ho) as (r0 & Hr0 & Hb0).
    unfold put_chain in HS. rewrite Hr0 in HS. injection HS as <- <-. simpl.
    assert (Hnm : Forall (fun c => cb_match a b c = false) (t_cbs t)).
    { eapply Forall_impl; [|exact B]. intros c [_ Hc]. destruct (cb_match a b c) eqn:Em; [|reflexivity].
      apply cb_match_true in Em as [<- <-]. contradiction. }
    split; [|split].
    + intros a' Ha'. simpl in *. destruct (decide (a' = a)) as [->|Hne]; [apply A; eauto|].
      rewrite lookup_insert_ne in Ha' by congruence. apply A; exact Ha'.
    + eapply Forall_impl; [|exact B]. intros c [[ai' Hq1] Hq2]. split; [|exact Hq2].
      unfold cached; simpl. np. simpl. destruct (decide (cb_acct c = a)) as [->|Hne].
      * rewrite lookup_insert. eauto.
      * rewrite lookup_insert_ne by congruence. eauto.
    + simpl. np. simpl. intros a' ai' Ha'. destruct (decide (a' = a)) as [->|Hne].
      * rewrite lookup_insert in Ha'. injection Ha' as <-.
        rewrite lookup_insert. eexists. split; [reflexivity|].
        intros b'. rewrite next_of_set_branch, last_of_set_branch, row_next_set.
        destruct (Bool.eqb b b') eqn:Eb.
        -- apply Bool.eqb_prop in Eb. subst b'. rewrite eff_nomatch by exact Hnm.
           f_equal; lia.
        -- apply Hb0.
      * rewrite lookup_insert_ne in Ha' by congruence. rewrite lookup_insert_ne by congruence.
        apply C; exact Ha'.
  - (* mark used *)
    simpl in HS. injection HS as <- <-. simpl.
    eapply TI_idx_cong; [..|exact HT]; reflexivity.
  - (* set synced *)
    simpl in HS. apply set_synced_fields in HS as (E1 & _ & E3 & _ & E5 & _ & E6 & _).
    rewrite E5. eapply TI_idx_cong; [..|exact HT]; assumption.
  - simpl in HS. apply set_synced_fields in HS as (E1 & _ & E3 & _ & E5 & _ & E6 & _).
    rewrite E5. eapply TI_idx_cong; [..|exact HT]; assumption.
  - simpl in HS. injection HS as <- <-. simpl.
    eapply TI_idx_cong; [..|exact HT]; reflexivity.
  - simpl in HS. injection HS as <- <-. simpl.
    eapply TI_idx_cong; [..|exact HT]; reflexivity.
  - (* import *)
    simpl in HS.
    repeat case_match; simplify_eq; simpl; try exact HT;
      (eapply TI_idx_cong; [..|exact HT]; reflexivity).
  - (* read *)
    simpl in HS.
    destruct (read q (t_disk t) (t_mem t)) as [m' x] eqn:ER. injection HS as <- <-. simpl.
    eapply TI_idx_ext; [exact HT|]. eapply read_ext; exact ER.
  - (* new watch-only account *)
    simpl in HS. eapply new_account_TI_idx; eauto.
  - (* lock *)
    simpl in HS. destruct (m_watch (t_mem t)); [injection HS as <- <-; exact HT|].
    destruct (m_locked (t_mem t)); injection HS as <- <-; [exact HT|].
    simpl. eapply TI_idx_cong; [..|exact HT]; reflexivity.
  - (* unlock *)
    simpl in HS. destruct (m_watch (t_mem t)); [injection HS as <- <-; exact HT|].
    destruct (negb (m_locked (t_mem t))); [injection HS as <- <-; exact HT|].
    destruct (load_all (t_disk t) (t_mem t) (m_pending (t_mem t))) as [m1 ok] eqn:EL.
    apply load_all_ext in EL as [HE _].
    pose proof (TI_idx_ext _ _ _ _ _ HT HE) as HT1.
    destruct ok; injection HS as <- <-; simpl; [|exact HT1].
    eapply TI_idx_cong; [..|exact HT1]; reflexivity.
  - (* invalidate: no closure is pending for the account *)
    apply orb_false_iff in HK as [HP HK].
    simpl in HS. injection HS as <- <-. simpl.
    destruct HT as (A & B & C). split; [exact A|split].
    + eapply Forall_impl; [|exact B]. intros c [[ai' Hq1] Hq2]. split; [|exact Hq2].
      unfold cached; simpl. rewrite lookup_delete_ne; [eauto|].
      intros Heq. assert (HX : existsb (fun p : N * bool => (p.1 =? a)%N) pend = true); [|congruence].
      apply existsb_exists. exists (cb_acct c, cb_branch c). split; [apply elem_of_list_In; exact Hq2|].
      simpl. apply N.eqb_eq. congruence.
    + simpl. intros a' ai' Ha'. apply lookup_delete_Some in Ha' as [_ Ha']. apply C; exact Ha'.
  - (* convert to watching-only *)
    simpl in HS. destruct (m_watch (t_mem t)); injection HS as <- <-; [exact HT|].
    simpl. eapply TI_idx_cong; [..|exact HT]; reflexivity.
Qed.

(** Index part alone (holds whatever the other components look like). *)
Lemma commit_ops_idx P ops : forall t t' outs pend,
  commit_k_idx P pend ops = false ->
  run_ops P ops t = (t', outs) ->
  TI_idx (t_disk t) (t_mem t) (t_cbs t) pend ->
  exists pend', TI_idx (t_disk t') (t_mem t') (t_cbs t') pend'.
Proof.
  induction ops as [|o ops IH]; simpl; intros t t' outs pend HK HR HI.
  - injection HR as <- <-. eauto.
  - destruct (step P o t) as [t1 x] eqn:ES.
    destruct (run_ops P ops t1) as [t2 xs] eqn:ER. injection HR as <- <-.
    pose proof (commit_idx_step P o ops t t1 x pend HK ES HI) as HI1.
    eapply IH; [|exact ER|exact HI1]. apply commit_k_idx_next. exact HK.
Qed.

(** ** Committed transactions: names, address cache, sync state, birthday *)

(** The cached name of account [a] once the pending rename closures have run. *)
Definition eff_name (ncbs : list (N * N)) (a : N) (v : N) : N :=
  fold_left (fun v c => if (c.1 =? a)%N then c.2 else v) ncbs v.

Lemma eff_name_cons c l a v : eff_name (c :: l) a v = eff_name l a (if (c.1 =? a)%N then c.2 else v).
Proof. reflexivity. Qed.
Lemma eff_name_snoc c l a v : eff_name (l ++ [c]) a v = if (c.1 =? a)%N then c.2 else eff_name l a v.
Proof. unfold eff_name. rewrite fold_left_app. reflexivity. Qed.
Lemma eff_name_nomatch l a v : Forall (fun c : N * N => c.1 <> a) l -> eff_name l a v = v.
Proof.
  induction 1 as [|c l Hc _ IH]; [reflexivity|]. rewrite eff_name_cons.
  apply N.eqb_neq in Hc. rewrite Hc. exact IH.
Qed.
Lemma eff_name_indep l a : forall v v', Exists (fun c : N * N => c.1 = a) l -> eff_name l a v = eff_name l a v'.
Proof.
  induction l as [|c l IH]; intros v v' H; [inversion H|].
  rewrite !eff_name_cons. destruct (c.1 =? a)%N eqn:E; [reflexivity|].
  apply IH. inversion H as [? ? Hc|? ? Hl]; subst; [|exact Hl]. apply N.eqb_neq in E. contradiction.
Qed.
Lemma eff_name_cases l a : Forall (fun c : N * N => c.1 <> a) l \/ Exists (fun c : N * N => c.1 = a) l.
Proof.
  induction l as [|c l [IH|IH]]; [left; constructor| |right; constructor 2; exact IH].
  destruct (decide (c.1 = a)) as [E|E]; [right; constructor; exact E|left; constructor; assumption].
Qed.

Definition TI_rest (P : params) (d : disk) (m : mem) (cbs : list callback) (ncbs : list (N * N)) : Prop :=
  (forall a ai r, m_accts m !! a = Some ai -> d_accts d !! a = Some r ->
     (eff_name ncbs a (ai_name ai), ai_kind ai) = (r_name r, r_kind r)) /\
  (forall a r v, d_accts d !! a = Some r -> Exists (fun c : N * N => c.1 = a) ncbs -> eff_name ncbs a v = r_name r) /\
  Forall (fun c : N * N => is_Some (d_accts d !! c.1)) ncbs /\
  (p_re P = true -> ncbs = []) /\
  coh_addr m d /\ Forall (cb_ok d) cbs /\ wfA d /\ coh_sync m d /\ coh_bday m d.

Definition is_synced_nil (o : op) : bool := match o with OSetSyncedNil => true | _ => false end.

Lemma TI_kinds P d m cbs pend cbs' ncbs :
  TI_idx d m cbs pend -> TI_rest P d m cbs' ncbs -> kinds_ok m d.
Proof.
  intros (_ & _ & C) (A & _) a ai Hai. destruct (C a ai Hai) as (r & Hr & _). exists r. split; [exact Hr|].
  pose proof (A a ai r Hai Hr) as Hp. injection Hp as _ Hk. exact Hk.
Qed.

Lemma TI_rest_ext P d m m' cbs ncbs :
  TI_rest P d m cbs ncbs -> mem_ext d m m' -> kinds_ok m' d -> TI_rest P d m' cbs ncbs.
Proof.
  intros (A & A2 & A3 & A4 & B & C & D & E & F) HE Hk.
  split; [|split; [exact A2|split; [exact A3|split; [exact A4|split; [|split; [exact C|split; [exact D|split]]]]]]].
  - intros a ai r Ha Hr. destruct HE as (_ & E2 & _).
    destruct (E2 a ai Ha) as [H|(H & r' & Hr' & ->)]; [eapply A; eauto|].
    assert (r' = r) by congruence. subst r'. simpl. f_equal.
    destruct (eff_name_cases ncbs a) as [Hn|Hx]; [apply eff_name_nomatch; exact Hn|eapply A2; eauto].
  - eapply coh_addr_ext; eauto.
  - eapply coh_sync_ext; eauto.
  - eapply coh_bday_ext; eauto.
Qed.

Lemma TI_rest_cong P d m m' cbs ncbs :
  m_accts m' = m_accts m -> (forall x mt, m_addrs m' !! x = Some mt -> m_addrs m !! x = Some mt) ->
  m_synced m' = m_synced m -> m_start m' = m_start m -> m_bw m' = m_bw m ->
  TI_rest P d m cbs ncbs -> TI_rest P d m' cbs ncbs.
Proof.
  intros E1 E2 E3 E4 E5 (A & A2 & A3 & A4 & B & C & D & E & F).
  unfold TI_rest, coh_sync, coh_bday. rewrite E1, E3, E4, E5.
  split; [exact A|split; [exact A2|split; [exact A3|split; [exact A4|split; [|split; [exact C|split; [exact D|split; [exact E|exact F]]]]]]]].
  intros x mt Hx. apply B, E2, Hx.
Qed.

Lemma elem_of_chain_range a b i n x :
  x ∈ (Chain a b <$> range_from i n) -> exists j, x = Chain a b j.
Proof. intros H. apply elem_of_list_fmap in H as (j & -> & _). eauto. Qed.

Lemma wfA_put d a b xs r' :
  wfA d -> is_Some (d_accts d !! a) ->
  (forall x, x ∈ xs -> exists j, x = Chain a b j) ->
  wfA (set_d_accts (<[a := r']> (d_accts d)) (set_d_addrs (list_to_set xs ∪ d_addrs d) d)).
Proof.
  intros HA Hr Hxs a' b' i' H. simpl in *.
  destruct (decide (a' = a)) as [->|Hne]; [rewrite lookup_insert; eauto|].
  rewrite lookup_insert_ne by congruence.
  apply elem_of_union in H as [H|H]; [|eapply HA; exact H].
  apply elem_of_list_to_set in H. destruct (Hxs _ H) as [j Hj]. congruence.
Qed.

Lemma wrap32_small t : (0 <=? t)%Z && (t <? 4294967296)%Z = true -> wrap32 t = t.
Proof. intros H. apply andb_true_iff in H as [H1 H2]. unfold wrap32. apply Z.mod_small. lia. Qed.

Lemma cache_all_lookup l m x mt :
  m_addrs (cache_all l m) !! x = Some mt -> (x, mt) ∈ l \/ m_addrs m !! x = Some mt.
Proof.
  unfold cache_all. simpl. intros H. apply lookup_union_Some_raw in H as [H|[_ H]]; [|auto].
  left. apply elem_of_list_to_map_2. exact H.
Qed.

(** The rows after [put_chain] on an existing account: names and kinds stay,
    the new address rows belong to the account. *)
Lemma put_rows_TI_rest P d m m' cbs ncbs a b xs r0 nx newcbs mt :
  TI_rest P d m cbs ncbs -> d_accts d !! a = Some r0 ->
  (forall x, x ∈ xs -> exists j, x = Chain a b j) ->
  mt = meta_of_kind (d_schema d) (r_kind r0) b ->
  (forall a' ai', m_accts m' !! a' = Some ai' ->
     exists ai0, m_accts m !! a' = Some ai0 /\ ai_name ai' = ai_name ai0 /\ ai_kind ai' = ai_kind ai0) ->
  (forall x v, m_addrs m' !! x = Some v -> (x ∈ xs /\ v = mt) \/ m_addrs m !! x = Some v) ->
  m_synced m' = m_synced m -> m_start m' = m_start m -> m_bw m' = m_bw m ->
  Forall (fun c => forall x v, (x, v) ∈ cb_addrs c -> x ∈ xs /\ v = mt) newcbs ->
  TI_rest P (set_d_accts (<[a := row_set_next b nx r0]> (d_accts d))
               (set_d_addrs (list_to_set xs ∪ d_addrs d) d)) m' (cbs ++ newcbs) ncbs.
Proof.
  intros (A & A2 & A3 & A4 & B & C & D & [E1 E2] & F) Hr0 Hxs Hmt Hacc Hadd Hs1 Hs2 Hs3 Hnew.
  set (d' := set_d_accts _ _).
  assert (HK : kinds_kept d d').
  { split; [reflexivity|]. intros a' r Hr. subst d'. simpl. destruct (decide (a' = a)) as [->|Hne].
    - rewrite lookup_insert. eexists. split; [reflexivity|]. rewrite r_kind_set_next. congruence.
    - rewrite lookup_insert_ne by congruence. eauto. }
  assert (HS : d_addrs d ⊆ d_addrs d') by (subst d'; simpl; set_solver).
  assert (HN : forall x, x ∈ xs -> x ∈ d_addrs d' /\ mt = meta_of d' x).
  { intros x Hx. split; [subst d'; simpl; apply elem_of_union; left; apply elem_of_list_to_set; exact Hx|].
    destruct (Hxs x Hx) as [j ->]. subst d'. simpl. unfold kind_row. simpl. rewrite lookup_insert.
    rewrite r_kind_set_next. exact Hmt. }
  unfold TI_rest, coh_sync, coh_bday. rewrite Hs1, Hs2, Hs3.
  split; [|split; [|split; [|split; [exact A4|split; [|split; [|split; [|split; [split; [exact E1|exact E2]|exact F]]]]]]]].
  - intros a' ai' r' Ha' Hr'. destruct (Hacc a' ai' Ha') as (ai0 & Hai0 & -> & ->).
    subst d'. simpl in Hr'. destruct (decide (a' = a)) as [->|Hne].
    + rewrite lookup_insert in Hr'. injection Hr' as <-. rewrite r_name_set_next, r_kind_set_next. eapply A; eauto.
    + rewrite lookup_insert_ne in Hr' by congruence. eapply A; eauto.
  - intros a' r' v Hr' Hx. subst d'. simpl in Hr'. destruct (decide (a' = a)) as [->|Hne].
    + rewrite lookup_insert in Hr'. injection Hr' as <-. rewrite r_name_set_next. eapply A2; eauto.
    + rewrite lookup_insert_ne in Hr' by congruence. eapply A2; eauto.
  - eapply Forall_impl; [|exact A3]. intros c [r Hr]. subst d'. simpl.
    destruct (decide (c.1 = a)) as [->|Hne]; [rewrite lookup_insert; eauto|].
    rewrite lookup_insert_ne by congruence. eauto.
  - intros x v Hx. destruct (Hadd x v Hx) as [[H1 ->]|H1]; [apply HN, H1|].
    eapply coh_addr_transfer; eauto.
  - apply Forall_app. split; [eapply cbs_transfer; eauto|].
    eapply Forall_impl; [|exact Hnew]. intros c Hc x v Hx. destruct (Hc x v Hx) as [H1 ->]. apply HN, H1.
  - apply (wfA_put _ a b); eauto.
Qed.

Lemma elem_of_ents (xs : list addr) (mt : ameta) (x : addr) (v : ameta) :
  (x, v) ∈ (fun y : addr => (y, mt)) <$> xs -> x ∈ xs /\ v = mt.
Proof. intros H. apply elem_of_list_fmap in H as (y & [= -> ->] & Hy). auto. Qed.

Lemma issue_TI_rest P rbf a b i cnt ai ok t t' r pend :
  issue rbf a b i cnt ai ok t = (t', r) ->
  m_accts (t_mem t) !! a = Some ai ->
  TI_idx (t_disk t) (t_mem t) (t_cbs t) pend ->
  TI_rest P (t_disk t) (t_mem t) (t_cbs t) (t_ncbs t) ->
  TI_rest P (t_disk t') (t_mem t') (t_cbs t') (t_ncbs t').
Proof.
  intros HS Ho (IA & IB & IC) HR.
  destruct (IC a ai Ho) as (r0 & Hr0 & _).
  assert (Hk : ai_kind ai = r_kind r0).
  { destruct HR as (A & _). pose proof (A a ai r0 Ho Hr0) as Hp. injection Hp as _ Hk. exact Hk. }
  unfold issue, put_chain in HS. rewrite Hr0 in HS. injection HS as <- <-. simpl.
  eapply put_rows_TI_rest; [exact HR|exact Hr0|..].
  - intros y Hy. eapply elem_of_chain_range; exact Hy.
  - rewrite <- Hk. reflexivity.
  - intros a' ai' Ha'. exists ai'. split; [|auto]. destruct rbf; [np_in Ha'|]; exact Ha'.
  - intros x v Hx. destruct rbf; [|auto]. np_in Hx. apply cache_all_lookup in Hx as [Hx|Hx]; [|auto].
    left. apply elem_of_ents in Hx. exact Hx.
  - destruct rbf; [np|]; reflexivity.
  - destruct rbf; [np|]; reflexivity.
  - destruct rbf; [np|]; reflexivity.
  - constructor; [|constructor]. simpl. intros x v Hx. apply elem_of_ents in Hx. exact Hx.
Qed.

Lemma set_synced_rest P s t t' r :
  (0 <=? s_time s)%Z && (s_time s <? 4294967296)%Z = true ->
  set_synced s t = (t', r) ->
  TI_rest P (t_disk t) (t_mem t) (t_cbs t) (t_ncbs t) -> TI_rest P (t_disk t') (t_mem t') (t_cbs t') (t_ncbs t').
Proof.
  intros Ht HS HR. unfold set_synced in HS. case_match; injection HS as <- <-; [exact HR|].
  destruct HR as (A & A2 & A3 & A4 & B & C & D & [E1 E2] & F). simpl.
  split; [exact A|split; [exact A2|split; [exact A3|split; [exact A4|split; [exact B|split; [exact C|split; [exact D|split; [|exact F]]]]]]]].
  split; [|exact E2]. simpl. rewrite (wrap32_small _ Ht). destruct s; reflexivity.
Qed.

Lemma new_account_TI_rest P k nm t t' r pend :
  new_account k nm t = (t', r) ->
  TI_idx (t_disk t) (t_mem t) (t_cbs t) pend ->
  TI_rest P (t_disk t) (t_mem t) (t_cbs t) (t_ncbs t) -> TI_rest P (t_disk t') (t_mem t') (t_cbs t') (t_ncbs t').
Proof.
  intros HS HI HR. pose proof (new_account_kinds k nm t t' r (proj1 HI) HS) as HK.
  unfold new_account in HS.
  repeat case_match; simplify_eq; simpl; try exact HR.
  destruct HR as (A & A2 & A3 & A4 & B & C & D & E & F). destruct HI as (IA & IB & IC).
  set (n := (d_lastacct (t_disk t) + 1)%N) in *.
  assert (Hnew : forall a, is_Some (d_accts (t_disk t) !! a) -> a <> n) by (intros a Ha; specialize (IA a Ha); lia).
  split; [|split; [|split; [|split; [exact A4|split; [|split; [|split; [|split; [exact E|exact F]]]]]]]].
  - intros a ai r0 Ha Hr0. simpl in Hr0.
    destruct (IC a ai Ha) as (r1 & Hr1 & _).
    rewrite lookup_insert_ne in Hr0 by (intros <-; eapply Hnew; eauto). eapply A; eauto.
  - intros a r0 v Hr0 Hx. simpl in Hr0. destruct (decide (a = n)) as [->|Hne].
    + exfalso. apply Exists_exists in Hx as (c & Hc & Hc1).
      rewrite Forall_forall in A3. specialize (A3 c Hc). simpl in Hc1. exact (Hnew c.1 A3 Hc1).
    + rewrite lookup_insert_ne in Hr0 by congruence. eapply A2; eauto.
  - eapply Forall_impl; [|exact A3]. intros c Hc. simpl.
    rewrite lookup_insert_ne by (intros Heq; apply (Hnew c.1 Hc); congruence). exact Hc.
  - eapply coh_addr_transfer; eauto.
  - eapply cbs_transfer; eauto.
  - intros a b i Hx. simpl in *. specialize (D a b i Hx).
    destruct (decide (a = n)) as [->|Hne]; [rewrite lookup_insert; eauto|].
    rewrite lookup_insert_ne by congruence. exact D.
Qed.

Lemma TI_both_ext P d m m' cbs ncbs pend :
  TI_idx d m cbs pend -> TI_rest P d m cbs ncbs -> mem_ext d m m' ->
  TI_idx d m' cbs pend /\ TI_rest P d m' cbs ncbs.
Proof.
  intros HI HR HE. pose proof (TI_idx_ext _ _ _ _ _ HI HE) as HI1. split; [exact HI1|].
  eapply TI_rest_ext; [exact HR|exact HE|]. destruct HI1 as (_ & _ & C1).
  intros a' ai' Ha'. destruct (C1 a' ai' Ha') as (r1 & Hr1 & _). exists r1. split; [exact Hr1|].
  destruct HE as (_ & E2 & _). destruct (E2 a' ai' Ha') as [H|(H & r' & Hr' & ->)].
  - destruct HR as (A & _). pose proof (A a' ai' r1 H Hr1) as Hp. injection Hp as _ Hk. exact Hk.
  - simpl. congruence.
Qed.

Lemma commit_rest_step P o t t' r pend :
  op_times_ok o = true -> is_synced_nil o = false ->
  step P o t = (t', r) ->
  TI_idx (t_disk t) (t_mem t) (t_cbs t) pend ->
  TI_rest P (t_disk t) (t_mem t) (t_cbs t) (t_ncbs t) ->
  TI_rest P (t_disk t') (t_mem t') (t_cbs t') (t_ncbs t').
Proof.
  intros HT HN HS HI HR.
  assert (HLD : forall a m1 oo, load_acct (t_disk t) (t_mem t) a = (m1, oo) ->
            TI_idx (t_disk t) m1 (t_cbs t) pend /\ TI_rest P (t_disk t) m1 (t_cbs t) (t_ncbs t)).
  { intros a m1 oo EL. apply load_acct_ext in EL as (HE & _ & _). eapply TI_both_ext; eauto. }
  destruct o as [nm|a nm|a b n|a b last|x|s| |tm|s v|x bs pv|q|nm wk| | |a| ]; simpl in HN; try discriminate.
  - (* new account *)
    simpl in HS. destruct (m_watch (t_mem t)); [injection HS as <- <-; exact HR|].
    destruct (m_locked (t_mem t)); [injection HS as <- <-; exact HR|].
    eapply new_account_TI_rest; eauto.
  - (* rename *)
    simpl in HS.
    destruct (a =? imported_acct)%N; [injection HS as <- <-; exact HR|].
    destruct (bool_decide (is_Some (d_nameidx (t_disk t) !! nm))); [injection HS as <- <-; exact HR|].
    destruct (bad_name nm); [injection HS as <- <-; exact HR|].
    destruct (d_accts (t_disk t) !! a) as [r0|] eqn:Er0; [|injection HS as <- <-; exact HR].
    rewrite rename_switch_eq in HS.
    pose proof (rename_rows_kinds a nm r0 (t_disk t) Er0) as HK.
    destruct HR as (A & A2 & A3 & A4 & B & C & D & E & F).
    assert (HB : coh_addr (t_mem t) (rename_rows a nm r0 (t_disk t))) by (eapply coh_addr_transfer; eauto; reflexivity).
    assert (HC : Forall (cb_ok (rename_rows a nm r0 (t_disk t))) (t_cbs t)) by (eapply cbs_transfer; eauto; reflexivity).
    assert (HD : wfA (rename_rows a nm r0 (t_disk t))).
    { intros a' b' i' Hx. simpl in *. specialize (D a' b' i' Hx).
      destruct (decide (a' = a)) as [->|Hne]; [rewrite lookup_insert; eauto|].
      rewrite lookup_insert_ne by congruence. exact D. }
    destruct (p_re P) eqn:Ere; injection HS as <- <-; simpl.
    + (* eager: no closure is ever registered *)
      specialize (A4 eq_refl). rewrite A4 in *.
      split; [|split; [|split; [constructor|split; [auto|split; [|split; [exact HC|split; [exact HD|split; [|]]]]]]]].
      * intros a' ai' r' Ha' Hr'. simpl in Hr'. simpl. destruct (decide (a' = a)) as [->|Hne].
        -- rewrite lookup_insert in Hr'. injection Hr' as <-. simpl.
           destruct (m_accts (t_mem t) !! a) as [ai|] eqn:Eai; [|congruence].
           simpl in Ha'. rewrite lookup_insert in Ha'. injection Ha' as <-. simpl.
           pose proof (A a ai r0 Eai Er0) as Hp. injection Hp as _ Hk. rewrite Hk. reflexivity.
        -- rewrite lookup_insert_ne in Hr' by congruence.
           destruct (m_accts (t_mem t) !! a) as [ai|] eqn:Eai; [simpl in Ha'; rewrite lookup_insert_ne in Ha' by congruence|];
             eapply A; eauto.
      * intros a' r' v _ Hx. inversion Hx.
      * destruct (m_accts (t_mem t) !! a); exact HB.
      * destruct (m_accts (t_mem t) !! a); exact E.
      * destruct (m_accts (t_mem t) !! a); exact F.
    + (* deferred: the closure holds the name the row now has *)
      split; [|split; [|split; [|split; [intros Hre; congruence|split; [exact HB|split; [exact HC|split; [exact HD|split; [exact E|exact F]]]]]]]].
      * intros a' ai' r' Ha' Hr'. simpl in Hr'. rewrite eff_name_snoc. simpl. destruct (decide (a' = a)) as [->|Hne].
        -- rewrite lookup_insert in Hr'. injection Hr' as <-. rewrite N.eqb_refl. simpl.
           pose proof (A a ai' r0 Ha' Er0) as Hp. injection Hp as _ Hk. rewrite Hk. reflexivity.
        -- rewrite lookup_insert_ne in Hr' by congruence.
           assert (Hq : (a =? a')%N = false) by (apply N.eqb_neq; congruence). rewrite Hq. eapply A; eauto.
      * intros a' r' v Hr' Hx. simpl in Hr'. rewrite eff_name_snoc. simpl. destruct (decide (a' = a)) as [->|Hne].
        -- rewrite lookup_insert in Hr'. injection Hr' as <-. rewrite N.eqb_refl. reflexivity.
        -- rewrite lookup_insert_ne in Hr' by congruence.
           assert (Hq : (a =? a')%N = false) by (apply N.eqb_neq; congruence). rewrite Hq.
           eapply A2; eauto. apply Exists_app in Hx as [Hx|Hx]; [exact Hx|].
           apply Exists_cons in Hx as [Hx|Hx]; [simpl in Hx; congruence|inversion Hx].
      * apply Forall_app. split.
        -- eapply Forall_impl; [|exact A3]. intros c [rc Hc]. simpl.
           destruct (decide (c.1 = a)) as [->|Hne]; [rewrite lookup_insert; eauto|].
           rewrite lookup_insert_ne by congruence. eauto.
        -- constructor; [|constructor]. simpl. rewrite lookup_insert. eauto.
  - (* next *)
    simpl in HS.
    destruct (load_acct (t_disk t) (t_mem t) a) as [m1 o] eqn:EL.
    destruct (HLD _ _ _ EL) as [HI1 HR1]. apply load_acct_ext in EL as (_ & _ & Ho).
    destruct o as [ai|]; [|injection HS as <- <-; exact HR1].
    destruct ((max_addrs <? n)%N || (max_addrs <? next_of ai b + n)%N); [injection HS as <- <-; exact HR1|].
    destruct (n =? 0)%N; [injection HS as <- <-; exact HR1|].
    eapply issue_TI_rest in HS; [exact HS|exact Ho|exact HI1|exact HR1].
  - (* extend *)
    simpl in HS.
    destruct (load_acct (t_disk t) (t_mem t) a) as [m1 o] eqn:EL.
    destruct (HLD _ _ _ EL) as [HI1 HR1]. apply load_acct_ext in EL as (_ & _ & Ho).
    destruct o as [ai|]; [|injection HS as <- <-; exact HR1].
    destruct (last <? next_of ai b)%N; [injection HS as <- <-; exact HR1|].
    destruct (max_addrs <? last)%N; [injection HS as <- <-; exact HR1|].
    destruct (p_ee P).
    2:{ eapply issue_TI_rest in HS; [exact HS|exact Ho|exact HI1|exact HR1]. }
    destruct HI1 as (IA & IB & IC). destruct (IC a ai Ho) as (r0 & Hr0 & _).
    assert (Hk : ai_kind ai = r_kind r0).
    { destruct HR1 as (A & _). pose proof (A a ai r0 Ho Hr0) as Hp. injection Hp as _ Hk. exact Hk. }
    unfold put_chain in HS. rewrite Hr0 in HS. injection HS as <- <-. simpl.
    rewrite <- (app_nil_r (t_cbs t)).
    eapply put_rows_TI_rest; [exact HR1|exact Hr0|..].
    + intros y Hy. eapply elem_of_chain_range; exact Hy.
    + rewrite <- Hk. reflexivity.
    + intros a' ai' Ha'. simpl in Ha'. np_in Ha'. simpl in Ha'. destruct (decide (a' = a)) as [->|Hne].
      * rewrite lookup_insert in Ha'. injection Ha' as <-. exists ai. split; [exact Ho|].
        split; [apply ai_name_set_branch|apply ai_kind_set_branch].
      * rewrite lookup_insert_ne in Ha' by congruence. eauto.
    + intros y v Hy. simpl in Hy. np_in Hy. apply cache_all_lookup in Hy as [Hy|Hy]; [|auto].
      left. apply elem_of_ents in Hy. exact Hy.
    + simpl. np. reflexivity.
    + simpl. np. reflexivity.
    + simpl. np. reflexivity.
    + constructor.
  - (* mark used *)
    simpl in HS. injection HS as <- <-. simpl.
    destruct HR as (A & A2 & A3 & A4 & B & C & D & E & F).
    split; [exact A|split; [exact A2|split; [exact A3|split; [exact A4|split; [|split; [exact C|split; [exact D|split; [exact E|exact F]]]]]]]].
    intros y mt Hy. simpl in Hy. apply lookup_delete_Some in Hy as [_ Hy]. apply B, Hy.
  - (* set synced *)
    simpl in HS, HT. eapply set_synced_rest; eauto.
  - (* birthday *)
    simpl in HS. injection HS as <- <-. simpl.
    destruct HR as (A & A2 & A3 & A4 & B & C & D & E & F).
    split; [exact A|split; [exact A2|split; [exact A3|split; [exact A4|split; [exact B|split; [exact C|split; [exact D|split; [exact E|]]]]]]]].
    unfold coh_bday in *. simpl. injection F as _ ->. reflexivity.
  - (* birthday block *)
    simpl in HS. injection HS as <- <-. simpl.
    destruct HR as (A & A2 & A3 & A4 & B & C & D & E & F).
    split; [exact A|split; [exact A2|split; [exact A3|split; [exact A4|split; [exact B|split; [exact C|split; [exact D|split; [exact E|exact F]]]]]]]].
  - (* import *)
    simpl in HS. destruct HR as (A & A2 & A3 & A4 & B & C & D & [E1 E2] & F).
    destruct (negb (addr_imported x)) eqn:Eimp;
      [injection HS as <- <-; split; [exact A|split; [exact A2|split; [exact A3|split; [exact A4|split; [exact B|split; [exact C|split; [exact D|split; [split; assumption|exact F]]]]]]]]|].
    destruct (import_locked x pv (t_mem t));
      [injection HS as <- <-; split; [exact A|split; [exact A2|split; [exact A3|split; [exact A4|split; [exact B|split; [exact C|split; [exact D|split; [split; assumption|exact F]]]]]]]]|].
    destruct (bool_decide (is_Some (m_addrs (t_mem t) !! x)) || bool_decide (x ∈ d_addrs (t_disk t)));
      [injection HS as <- <-; split; [exact A|split; [exact A2|split; [exact A3|split; [exact A4|split; [exact B|split; [exact C|split; [exact D|split; [split; assumption|exact F]]]]]]]]|].
    apply negb_false_iff in Eimp.
    (* whatever the start block does: the address joins the database and the cache *)
    assert (G : forall d' m', d_accts d' = d_accts (t_disk t) -> d_schema d' = d_schema (t_disk t) ->
                d_addrs d' = {[x]} ∪ d_addrs (t_disk t) ->
                m_accts m' = m_accts (t_mem t) ->
                m_addrs m' = <[x := meta_imp (d_schema (t_disk t)) x]> (m_addrs (t_mem t)) ->
                coh_sync m' d' -> coh_bday m' d' ->
                TI_rest P d' m' (t_cbs t) (t_ncbs t)).
    { intros d' m' Hd1 Hd2 Hd3 Hm1 Hm2 Hs Hb.
      assert (HK : kinds_kept (t_disk t) d') by (split; [exact Hd2|rewrite Hd1; eauto]).
      assert (HSub : d_addrs (t_disk t) ⊆ d_addrs d') by (rewrite Hd3; set_solver).
      unfold TI_rest. rewrite Hd1, Hm1.
      split; [exact A|split; [exact A2|split; [exact A3|split; [exact A4|split; [|split; [|split; [|split; [exact Hs|exact Hb]]]]]]]].
      - intros y mt Hy. rewrite Hm2 in Hy. destruct (decide (y = x)) as [->|Hne].
        + rewrite lookup_insert in Hy. injection Hy as <-. split; [rewrite Hd3; set_solver|].
          destruct x; [discriminate|simpl; rewrite ?Hd2; reflexivity..].
        + rewrite lookup_insert_ne in Hy by congruence. eapply coh_addr_transfer; eauto.
      - eapply cbs_transfer; eauto.
      - intros a' b' i' Hx. rewrite Hd1. rewrite Hd3 in Hx.
        apply elem_of_union in Hx as [Hx|Hx]; [|eapply D; exact Hx].
        apply elem_of_singleton in Hx. subst x. discriminate. }
    destruct bs as [s|]; [destruct (s_height s <? s_height (m_start (t_mem t)))%Z|];
      injection HS as <- <-; apply G; simpl; auto; try (split; assumption).
    split; [exact E1|reflexivity].
  - (* read *)
    simpl in HS. destruct (read q (t_disk t) (t_mem t)) as [m' x] eqn:ER. injection HS as <- <-. simpl.
    eapply TI_both_ext; [exact HI|exact HR|]. eapply read_ext; exact ER.
  - (* new watch-only account *)
    simpl in HS. eapply new_account_TI_rest; eauto.
  - (* lock *)
    simpl in HS. destruct (m_watch (t_mem t)); [injection HS as <- <-; exact HR|].
    destruct (m_locked (t_mem t)); injection HS as <- <-; [exact HR|].
    simpl. eapply TI_rest_cong; [..|exact HR]; auto.
  - (* unlock *)
    simpl in HS. destruct (m_watch (t_mem t)); [injection HS as <- <-; exact HR|].
    destruct (negb (m_locked (t_mem t))); [injection HS as <- <-; exact HR|].
    destruct (load_all (t_disk t) (t_mem t) (m_pending (t_mem t))) as [m1 ok] eqn:EL.
    apply load_all_ext in EL as [HE _].
    destruct (TI_both_ext _ _ _ _ _ _ _ HI HR HE) as [_ HR1].
    destruct ok; injection HS as <- <-; simpl; [|exact HR1].
    eapply TI_rest_cong; [..|exact HR1]; auto.
  - (* invalidate *)
    simpl in HS. injection HS as <- <-. simpl.
    destruct HR as (A & A2 & A3 & A4 & B & C & D & E & F).
    split; [|split; [exact A2|split; [exact A3|split; [exact A4|split; [exact B|split; [exact C|split; [exact D|split; [exact E|exact F]]]]]]]].
    intros a' ai' r' Ha' Hr'. simpl in Ha'. apply lookup_delete_Some in Ha' as [_ Ha']. eapply A; eauto.
  - (* convert to watching-only: rows, names, addresses stay; both flags are set *)
    simpl in HS. destruct (m_watch (t_mem t)); injection HS as <- <-; [exact HR|]. simpl.
    destruct HR as (A & A2 & A3 & A4 & B & C & D & E & F).
    assert (HK : kinds_kept (t_disk t) (set_d_watch true (t_disk t))) by (split; simpl; eauto).
    split; [exact A|split; [exact A2|split; [exact A3|split; [exact A4|split; [|split; [|split; [exact D|split; [exact E|]]]]]]]].
    + eapply coh_addr_transfer; eauto.
    + eapply cbs_transfer; eauto.
    + unfold coh_bday in *. simpl. injection F as -> _. reflexivity.
Qed.

Lemma cb_ok_lookup d c x mt : cb_ok d c -> (x, mt) ∈ cb_addrs c -> x ∈ d_addrs d /\ mt = meta_of d x.
Proof. intros H. apply H. Qed.

Lemma run_cb_fields c m :
  m_addrs (run_cb c m) = m_addrs (cache_all (cb_addrs c) m) /\
  m_synced (run_cb c m) = m_synced m /\ m_start (run_cb c m) = m_start m /\ m_bw (run_cb c m) = m_bw m.
Proof.
  unfold run_cb. destruct (m_locked m && cb_priv c); simpl; destruct (m_accts m !! cb_acct c); simpl; auto.
Qed.

Lemma TI_rest_run_cb P d m c cbs ncbs :
  TI_rest P d m (c :: cbs) ncbs -> TI_rest P d (run_cb c m) cbs ncbs.
Proof.
  intros (A & A2 & A3 & A4 & B & C & D & E & F). inversion C as [|c0 l Hc C']; subst.
  assert (HB : coh_addr (cache_all (cb_addrs c) m) d).
  { intros y mt Hy. apply cache_all_lookup in Hy as [Hy|Hy]; [apply Hc, Hy|apply B, Hy]. }
  destruct (run_cb_fields c m) as (E2 & E3 & E4 & E5).
  unfold TI_rest, coh_sync, coh_bday, coh_addr. rewrite run_cb_accts, E2, E3, E4, E5.
  split; [|split; [exact A2|split; [exact A3|split; [exact A4|split; [exact HB|split; [exact C'|split; [exact D|split; [exact E|exact F]]]]]]]].
  destruct (m_accts m !! cb_acct c) as [ai|] eqn:Eai; [|exact A].
  intros a ai' r Ha Hr. destruct (decide (a = cb_acct c)) as [->|Hne].
  - rewrite lookup_insert in Ha. injection Ha as <-. rewrite ai_name_set_branch, ai_kind_set_branch. eapply A; eauto.
  - rewrite lookup_insert_ne in Ha by congruence. eapply A; eauto.
Qed.

Lemma TI_rest_run_ncb P d m c ncbs :
  TI_rest P d m [] (c :: ncbs) -> TI_rest P d (run_ncb c m) [] ncbs.
Proof.
  intros (A & A2 & A3 & A4 & B & C & D & E & F). inversion A3 as [|c0 l Hc A3']; subst.
  assert (HA2 : forall a r v, d_accts d !! a = Some r -> Exists (fun c0 : N * N => c0.1 = a) ncbs -> eff_name ncbs a v = r_name r).
  { intros a r v Hr Hx. rewrite <- (A2 a r v Hr) by (constructor 2; exact Hx). rewrite eff_name_cons.
    apply eff_name_indep. exact Hx. }
  assert (HA4 : p_re P = true -> ncbs = []) by (intros H; specialize (A4 H); discriminate).
  unfold run_ncb. destruct (m_accts m !! c.1) as [ai|] eqn:Eai.
  - split; [|split; [exact HA2|split; [exact A3'|split; [exact HA4|split; [exact B|split; [exact C|split; [exact D|split; [exact E|exact F]]]]]]]].
    simpl. intros a ai' r Ha Hr. destruct (decide (a = c.1)) as [->|Hne].
    + rewrite lookup_insert in Ha. injection Ha as <-. simpl.
      pose proof (A c.1 ai r Eai Hr) as Hp. rewrite eff_name_cons, N.eqb_refl in Hp. exact Hp.
    + rewrite lookup_insert_ne in Ha by congruence.
      pose proof (A a ai' r Ha Hr) as Hp. rewrite eff_name_cons in Hp.
      assert (Hq : (c.1 =? a)%N = false) by (apply N.eqb_neq; congruence). rewrite Hq in Hp. exact Hp.
  - split; [|split; [exact HA2|split; [exact A3'|split; [exact HA4|split; [exact B|split; [exact C|split; [exact D|split; [exact E|exact F]]]]]]]].
    intros a ai' r Ha Hr. pose proof (A a ai' r Ha Hr) as Hp. rewrite eff_name_cons in Hp.
    assert (Hq : (c.1 =? a)%N = false) by (apply N.eqb_neq; congruence). rewrite Hq in Hp. exact Hp.
Qed.

Lemma TI_rest_settle P cbs : forall ncbs d m,
  TI_rest P d m cbs ncbs -> TI_rest P d (settle cbs ncbs m) [] [].
Proof.
  induction cbs as [|c cbs IH]; intros ncbs d m H.
  - unfold settle. simpl. revert m H. induction ncbs as [|n ncbs IHn]; intros m H; [exact H|].
    simpl. apply IHn. apply TI_rest_run_ncb. exact H.
  - unfold settle. simpl. apply (IH ncbs). apply TI_rest_run_cb. exact H.
Qed.

Lemma TI_rest_nil P d m : TI_rest P d m [] [] -> coh_name m d /\ coh_addr m d /\ wfA d /\ coh_sync m d /\ coh_bday m d.
Proof. intros (A & _ & _ & _ & B & _ & D & E & F). split; [exact A|split; [exact B|split; [exact D|split; [exact E|exact F]]]]. Qed.

Lemma commit_ops P ops : forall t t' outs pend,
  commit_k_idx P pend ops = false ->
  existsb is_synced_nil ops = false ->
  forallb op_times_ok ops = true ->
  run_ops P ops t = (t', outs) ->
  TI_idx (t_disk t) (t_mem t) (t_cbs t) pend ->
  TI_rest P (t_disk t) (t_mem t) (t_cbs t) (t_ncbs t) ->
  exists pend', TI_idx (t_disk t') (t_mem t') (t_cbs t') pend' /\
                TI_rest P (t_disk t') (t_mem t') (t_cbs t') (t_ncbs t').
Proof.
  induction ops as [|o ops IH]; simpl; intros t t' outs pend HK HN HT HR HI HRest.
  - injection HR as <- <-. eauto.
  - destruct (step P o t) as [t1 x] eqn:ES.
    destruct (run_ops P ops t1) as [t2 xs] eqn:ER. injection HR as <- <-.
    apply orb_false_iff in HN as [HN1 HN2]. apply andb_true_iff in HT as [HT1 HT2].
    pose proof (commit_idx_step P o ops t t1 x pend HK ES HI) as HI1.
    pose proof (commit_rest_step P o t t1 x pend HT1 HN1 ES HI HRest) as HR1.
    eapply IH; [|exact HN2|exact HT2|exact ER|exact HI1|exact HR1]. apply commit_k_idx_next. exact HK.
Qed.

(** ** Rolled-back transactions and the next indices *)

Definition AI_idx (d0 d : disk) (m : mem) (armed : bool) (T : list N) : Prop :=
  coh_idx_ex T m d0 /\
  (armed = false -> T = [] /\
     forall a, m_accts m !! a = None -> idxp (d_accts d !! a) = idxp (d_accts d0 !! a)).

Definition arm_idx (o : op) (armed : bool) : bool :=
  match o with ONewAccount _ | ONewAccountWO _ _ | OInvalidate _ => true | _ => armed end.
Definition tnt_idx (o : op) (armed : bool) (T : list N) : list N :=
  match o with
  | OExtend a _ _ | ONext a _ _ | ORead (QLast a _) | ORead (QLookup (Chain a _ _)) => taint_if armed a T
  | ORead (QProps a) => if (a =? imported_acct)%N then T else taint_if armed a T
  | OInvalidate a => rm_taint a T
  | _ => T
  end.

Lemma abort_k_idx_next P o ops armed T :
  abort_k_idx P armed T (o :: ops) = false ->
  abort_k_idx P (arm_idx o armed) (tnt_idx o armed T) ops = false.
Proof.
  destruct o as [nm|a nm|a b n|a b last|x|s| |tm|s v|x bs pv|q|nm wk| | |a| ]; simpl; auto.
  - intros H. apply orb_false_iff in H as [_ H]. exact H.
  - destruct q as [[a b i|k|k]|a b|a|nm|a| | |h| | ]; simpl; auto.
  - intros H. apply orb_false_iff in H as [_ H]. exact H.
Qed.

Lemma AI_idx_cong d0 d m armed T d' m' :
  d_accts d' = d_accts d -> m_accts m' = m_accts m -> AI_idx d0 d m armed T -> AI_idx d0 d' m' armed T.
Proof. intros E1 E2 [A B]. unfold AI_idx, coh_idx_ex in *. rewrite E1, E2. auto. Qed.

Lemma AI_idx_ext d0 d m m' :
  AI_idx d0 d m false [] -> mem_ext d m m' -> AI_idx d0 d m' false [].
Proof.
  intros [A B] HE. destruct (B eq_refl) as [_ B']. apply coh_idx_ex_nil in A. split.
  - apply coh_idx_ex_nil. eapply coh_idx_ext; eauto.
  - intros _. split; [reflexivity|]. intros a Ha. apply B'. eapply mem_ext_uncached; eauto.
Qed.

Lemma AI_idx_weaken d0 d m armed T : AI_idx d0 d m armed T -> AI_idx d0 d m true T.
Proof. intros [A _]. split; [exact A|discriminate]. Qed.

Definition accts_but (a : N) (m m' : mem) : Prop :=
  forall a', a' <> a -> m_accts m' !! a' = m_accts m !! a'.

Lemma AI_idx_taint d0 d m m' T a :
  AI_idx d0 d m true T -> accts_but a m m' -> AI_idx d0 d m' true (a :: T).
Proof.
  intros [A _] S1. split; [|discriminate].
  intros a' ai Hn Ha'. apply not_elem_of_cons in Hn as [Hne Hn]. rewrite S1 in Ha' by exact Hne. eapply A; eauto.
Qed.

Lemma AI_idx_more d0 d m armed T a : AI_idx d0 d m armed T -> AI_idx d0 d m armed (taint_if armed a T).
Proof.
  destruct armed; simpl; [|auto]. intros [A _]. split; [|discriminate].
  intros a' ai Hn Ha'. apply not_elem_of_cons in Hn as [_ Hn]. eapply A; eauto.
Qed.

Lemma AI_idx_load d0 d m m' o a armed T :
  load_acct d m a = (m', o) -> AI_idx d0 d m armed T -> AI_idx d0 d m' armed (taint_if armed a T).
Proof.
  intros HL HI. apply load_acct_ext in HL as (HE & (HS & _) & _).
  destruct armed; simpl.
  - eapply AI_idx_taint; eauto.
  - assert (T = []) as -> by (apply HI; reflexivity). eapply AI_idx_ext; eauto.
Qed.

Lemma new_account_AI_idx d0 k nm t t' r armed T :
  new_account k nm t = (t', r) ->
  AI_idx d0 (t_disk t) (t_mem t) armed T -> AI_idx d0 (t_disk t') (t_mem t') true T.
Proof.
  intros HS HI. apply AI_idx_weaken in HI. unfold new_account in HS.
  repeat case_match; simplify_eq; simpl; try exact HI.
  destruct HI as [A _]. split; [exact A|discriminate].
Qed.

Lemma issue_AI_idx rbf d0 a b i cnt ai ok t t' r armed T :
  issue rbf a b i cnt ai ok t = (t', r) ->
  m_accts (t_mem t) !! a = Some ai ->
  AI_idx d0 (t_disk t) (t_mem t) armed T -> AI_idx d0 (t_disk t') (t_mem t') armed T.
Proof.
  intros HS Ha HI. unfold issue, put_chain in HS.
  destruct (d_accts (t_disk t) !! a) as [r0|] eqn:Er0; injection HS as <- <-; simpl.
  - match goal with |- AI_idx _ ?d' _ _ _ => assert (G : AI_idx d0 d' (t_mem t) armed T) end.
    2:{ eapply AI_idx_cong; [..|exact G]; try reflexivity. destruct rbf; [np|]; reflexivity. }
    destruct HI as [A B]. split; [exact A|].
    intros Harm. destruct (B Harm) as [HT B']. split; [exact HT|].
    intros a' Ha'. simpl in *. assert (a' <> a) by congruence.
    rewrite lookup_insert_ne by congruence. apply B'; auto.
  - eapply AI_idx_cong; [..|exact HI]; reflexivity.
Qed.

Lemma abort_idx_step P d0 o ops t t' r armed T :
  abort_k_idx P armed T (o :: ops) = false ->
  step P o t = (t', r) ->
  AI_idx d0 (t_disk t) (t_mem t) armed T ->
  AI_idx d0 (t_disk t') (t_mem t') (arm_idx o armed) (tnt_idx o armed T).
Proof.
  intros HK HS HI.
  destruct o as [nm|a nm|a b n|a b last|x|s| |tm|s v|x bs pv|q|nm wk| | |a| ]; simpl in HK.
  - (* new account *)
    simpl in HS. destruct (m_watch (t_mem t)); [injection HS as <- <-; eapply AI_idx_weaken; exact HI|].
    destruct (m_locked (t_mem t)); [injection HS as <- <-; eapply AI_idx_weaken; exact HI|].
    eapply new_account_AI_idx; eauto.
  - (* rename: the rows keep their indices, the cached entry too *)
    simpl in HS.
    destruct (a =? imported_acct)%N; [injection HS as <- <-; exact HI|].
    destruct (bool_decide (is_Some (d_nameidx (t_disk t) !! nm))); [injection HS as <- <-; exact HI|].
    destruct (bad_name nm); [injection HS as <- <-; exact HI|].
    destruct (d_accts (t_disk t) !! a) as [r0|] eqn:Er0; [|injection HS as <- <-; exact HI].
    rewrite rename_switch_eq in HS.
    assert (HD : AI_idx d0 (rename_rows a nm r0 (t_disk t)) (t_mem t) armed T).
    { destruct HI as [A B]. split; [exact A|].
      intros Harm. destruct (B Harm) as [HT B']. split; [exact HT|].
      intros a' Ha'. simpl. destruct (decide (a' = a)) as [->|Hne].
      - rewrite lookup_insert. rewrite <- (B' a Ha'), Er0. reflexivity.
      - rewrite lookup_insert_ne by congruence. apply B'; auto. }
    destruct (p_re P); injection HS as <- <-; simpl; [|exact HD].
    destruct (m_accts (t_mem t) !! a) as [ai|] eqn:Eai; [|exact HD].
    destruct HD as [A B]. split.
    + intros a' ai' Hn Ha'. simpl in Ha'. destruct (decide (a' = a)) as [->|Hne].
      * rewrite lookup_insert in Ha'. injection Ha' as <-.
        destruct (A a ai Hn Eai) as (r1 & Hr1 & Hb). exists r1. split; [exact Hr1|]. intros b0.
        rewrite next_of_set_name, last_of_set_name. apply Hb.
      * rewrite lookup_insert_ne in Ha' by congruence. eapply A; eauto.
    + intros Harm. destruct (B Harm) as [HT B']. split; [exact HT|].
      intros a' Ha'. simpl in Ha'. destruct (decide (a' = a)) as [->|Hne].
      * rewrite lookup_insert in Ha'. discriminate.
      * rewrite lookup_insert_ne in Ha' by congruence. apply B'; auto.
  - (* next *)
    simpl in HS.
    destruct (load_acct (t_disk t) (t_mem t) a) as [m1 o] eqn:EL.
    pose proof (AI_idx_load _ _ _ _ _ _ _ _ EL HI) as HI1.
    apply load_acct_ext in EL as (_ & _ & Ho).
    destruct o as [ai|]; [|injection HS as <- <-; exact HI1].
    destruct ((max_addrs <? n)%N || (max_addrs <? next_of ai b + n)%N); [injection HS as <- <-; exact HI1|].
    destruct (n =? 0)%N; [injection HS as <- <-; exact HI1|].
    eapply issue_AI_idx in HS; [exact HS|exact Ho|exact HI1].
  - (* extend, deferred *)
    apply orb_false_iff in HK as [Hee HK]. simpl in HS. rewrite Hee in HS.
    destruct (load_acct (t_disk t) (t_mem t) a) as [m1 o] eqn:EL.
    pose proof (AI_idx_load _ _ _ _ _ _ _ _ EL HI) as HI1.
    apply load_acct_ext in EL as (_ & _ & Ho).
    destruct o as [ai|]; [|injection HS as <- <-; exact HI1].
    destruct (last <? next_of ai b)%N; [injection HS as <- <-; exact HI1|].
    destruct (max_addrs <? last)%N; [injection HS as <- <-; exact HI1|].
    eapply issue_AI_idx in HS; [exact HS|exact Ho|exact HI1].
  - (* mark used *)
    simpl in HS. injection HS as <- <-. simpl. eapply AI_idx_cong; [..|exact HI]; reflexivity.
  - simpl in HS. apply set_synced_fields in HS as (E1 & _ & E3 & _).
    eapply AI_idx_cong; [..|exact HI]; assumption.
  - simpl in HS. apply set_synced_fields in HS as (E1 & _ & E3 & _).
    eapply AI_idx_cong; [..|exact HI]; assumption.
  - simpl in HS. injection HS as <- <-. simpl. eapply AI_idx_cong; [..|exact HI]; reflexivity.
  - simpl in HS. injection HS as <- <-. simpl. eapply AI_idx_cong; [..|exact HI]; reflexivity.
  - (* import *)
    simpl in HS. repeat case_match; simplify_eq; simpl; try exact HI;
      (eapply AI_idx_cong; [..|exact HI]; reflexivity).
  - (* read *)
    simpl in HS. destruct (read q (t_disk t) (t_mem t)) as [m' x] eqn:ER. injection HS as <- <-. simpl.
    destruct q as [y|a b|a|nm|a| | |h| | ]; simpl tnt_idx;
      try (simpl in ER; injection ER as <- <-; exact HI).
    + (* lookup *)
      destruct y as [a b i|k|k]; simpl tnt_idx; simpl in ER.
      * destruct (m_addrs (t_mem t) !! Chain a b i); [injection ER as <- <-; apply AI_idx_more; exact HI|].
        destruct (bool_decide (Chain a b i ∈ d_addrs (t_disk t))); [|injection ER as <- <-; apply AI_idx_more; exact HI].
        destruct (load_acct (t_disk t) (t_mem t) a) as [m1 o] eqn:EL.
        pose proof (AI_idx_load _ _ _ _ _ _ _ _ EL HI) as HI1.
        destruct o; injection ER as <- <-; [|exact HI1].
        eapply AI_idx_cong; [..|exact HI1]; [reflexivity|np; reflexivity].
      * repeat case_match; simplify_eq; try exact HI; (eapply AI_idx_cong; [..|exact HI]; reflexivity).
      * repeat case_match; simplify_eq; try exact HI; (eapply AI_idx_cong; [..|exact HI]; reflexivity).
    + simpl in ER. destruct (load_acct (t_disk t) (t_mem t) a) as [m1 o] eqn:EL.
      pose proof (AI_idx_load _ _ _ _ _ _ _ _ EL HI) as HI1.
      destruct o; injection ER as <- <-; exact HI1.
    + simpl in ER. destruct (a =? imported_acct)%N; [injection ER as <- <-; exact HI|].
      destruct (load_acct (t_disk t) (t_mem t) a) as [m1 o] eqn:EL.
      pose proof (AI_idx_load _ _ _ _ _ _ _ _ EL HI) as HI1.
      destruct o; injection ER as <- <-; exact HI1.
  - (* new watch-only account *)
    simpl in HS. eapply new_account_AI_idx; eauto.
  - (* lock *)
    simpl in HS. destruct (m_watch (t_mem t)); [injection HS as <- <-; exact HI|].
    destruct (m_locked (t_mem t)); injection HS as <- <-; [exact HI|].
    simpl. eapply AI_idx_cong; [..|exact HI]; reflexivity.
  - (* unlock *)
    apply orb_false_iff in HK as [-> HK]. simpl in HS.
    destruct (m_watch (t_mem t)); [injection HS as <- <-; exact HI|].
    destruct (negb (m_locked (t_mem t))); [injection HS as <- <-; exact HI|].
    destruct (load_all (t_disk t) (t_mem t) (m_pending (t_mem t))) as [m1 ok] eqn:EL.
    apply load_all_ext in EL as [HE _].
    assert (T = []) as -> by (apply HI; reflexivity).
    pose proof (AI_idx_ext _ _ _ _ HI HE) as HI1.
    destruct ok; injection HS as <- <-; simpl; [|exact HI1].
    eapply AI_idx_cong; [..|exact HI1]; reflexivity.
  - (* invalidate *)
    simpl in HS. injection HS as <- <-. simpl.
    destruct HI as [A _]. split; [|discriminate].
    intros a' ai Hn Ha'. simpl in Ha'. apply lookup_delete_Some in Ha' as [Hne Ha'].
    eapply A; eauto. intros Hin. apply Hn, rm_taint_spec. auto.
  - (* convert to watching-only *)
    simpl in HS. destruct (m_watch (t_mem t)); injection HS as <- <-; [exact HI|].
    simpl. eapply AI_idx_cong; [..|exact HI]; reflexivity.
Qed.

Lemma abort_idx_ops P d0 ops : forall t t' outs armed T,
  abort_k_idx P armed T ops = false ->
  run_ops P ops t = (t', outs) ->
  AI_idx d0 (t_disk t) (t_mem t) armed T ->
  coh_idx (t_mem t') d0.
Proof.
  induction ops as [|o ops IH]; simpl; intros t t' outs armed T HK HR HI.
  - injection HR as <- <-. destruct T; [|discriminate]. apply coh_idx_ex_nil, HI.
  - destruct (step P o t) as [t1 x] eqn:ES.
    destruct (run_ops P ops t1) as [t2 xs] eqn:ER. injection HR as <- <-.
    pose proof (abort_idx_step P d0 o ops t t1 x armed T HK ES HI) as HI1.
    eapply IH; [|exact ER|exact HI1]. apply abort_k_idx_next. exact HK.
Qed.

(** ** Whole transactions and histories *)

Definition Inv (s : state) : Prop := coherent (mem_of s) (disk_of s) /\ wf_disk (disk_of s).
Definition Inv_idx (s : state) : Prop := coh_idx (mem_of s) (disk_of s) /\ wfL (disk_of s).

Lemma run_tx_unfold P x s :
  run_tx P x s =
  let '(t, outs) := run_ops P (tx_ops x) (begin_tx s) in
  let s1 := end_tx (tx_fate x) s t in
  let '(m2, qa) := run_queries (tx_queries x) (disk_of s1) (mem_of s1) in
  ({| disk_of := disk_of s1; mem_of := m2 |}, (outs, qa)).
Proof. reflexivity. Qed.

Lemma AIK_begin s : Inv s -> AIK (disk_of s) (disk_of s) (mem_of s) false false [].
Proof.
  intros [(A & B & C & D & E) _]. unfold AIK. rewrite coh_idx_ex_nil, coh_name_ex_nil.
  split; [exact A|split; [exact B|split; [exact C|split; [exact D|split; [exact E|split; [reflexivity|split; [auto|auto]]]]]]].
Qed.

Lemma tx_preserves_Inv P x s :
  tx_k P x = false -> forallb op_times_ok (tx_ops x) = true -> Inv s -> Inv (run_tx P x s).1.
Proof.
  intros HK HT HInv. pose proof HInv as [HC [HL HA]]. rewrite run_tx_unfold.
  destruct (run_ops P (tx_ops x) _) as [t outs] eqn:ER.
  cbv zeta. set (s1 := end_tx (tx_fate x) s t).
  assert (HI1 : Inv s1).
  { subst s1. unfold tx_k in HK. destruct (tx_fate x) eqn:EF; simpl.
    - apply orb_false_iff in HK as [HK1 HK2].
      destruct HC as (C1 & C2 & C3 & C4 & C5).
      destruct (commit_ops P (tx_ops x) _ t outs [] HK1 HK2 HT ER) as (pend' & HI' & HR').
      + simpl. apply TI_idx_init; assumption.
      + simpl. split; [exact C2|split; [intros a r v _ Hx; inversion Hx|split; [constructor|split; [auto|
          split; [exact C3|split; [constructor|split; [exact HA|split; [exact C4|exact C5]]]]]]]].
      + apply (TI_idx_settle _ (t_ncbs t)) in HI'. apply TI_rest_settle in HR'.
        apply TI_rest_nil in HR' as (R1 & R2 & R4 & R5 & R6).
        split; [|split; [apply HI'|exact R4]].
        split; [eapply TI_idx_nil; exact HI'|]. auto.
    - split; [|split; assumption].
      eapply (abort_k_ops P (disk_of s)); [exact HK|exact ER|]. simpl. apply AIK_begin. exact HInv.
    - split; [|split; assumption].
      eapply (abort_k_ops P (disk_of s)); [exact HK|exact ER|]. simpl. apply AIK_begin. exact HInv.
    - split; [|split; assumption].
      eapply (abort_k_ops P (disk_of s)); [exact HK|exact ER|]. simpl. apply AIK_begin. exact HInv. }
  destruct (run_queries (tx_queries x) (disk_of s1) (mem_of s1)) as [m2 qa] eqn:EQ. simpl.
  destruct HI1 as [HC1 HW1]. split; [|exact HW1].
  eapply coherent_ext; [exact HC1|]. eapply run_queries_ext; exact EQ.
Qed.

Lemma tx_preserves_Inv_idx P x s :
  tx_k_idx P x = false -> Inv_idx s -> Inv_idx (run_tx P x s).1.
Proof.
  intros HK [HC HL]. rewrite run_tx_unfold.
  destruct (run_ops P (tx_ops x) _) as [t outs] eqn:ER.
  cbv zeta. set (s1 := end_tx (tx_fate x) s t).
  assert (HA : AI_idx (disk_of s) (disk_of s) (mem_of s) false []).
  { split; [apply coh_idx_ex_nil; exact HC|auto]. }
  assert (HI1 : Inv_idx s1).
  { subst s1. unfold tx_k_idx in HK. destruct (tx_fate x) eqn:EF; simpl.
    - destruct (commit_ops_idx P (tx_ops x) _ t outs [] HK ER) as (pend' & HI').
      + simpl. apply TI_idx_init; assumption.
      + apply (TI_idx_settle _ (t_ncbs t)) in HI'. split; [eapply TI_idx_nil; exact HI'|apply HI'].
    - split; [|exact HL]. eapply (abort_idx_ops P (disk_of s)); [exact HK|exact ER|exact HA].
    - split; [|exact HL]. eapply (abort_idx_ops P (disk_of s)); [exact HK|exact ER|exact HA].
    - split; [|exact HL]. eapply (abort_idx_ops P (disk_of s)); [exact HK|exact ER|exact HA]. }
  destruct (run_queries (tx_queries x) (disk_of s1) (mem_of s1)) as [m2 qa] eqn:EQ. simpl.
  destruct HI1 as [HC1 HW1]. split; [|exact HW1].
  eapply coh_idx_ext; [exact HC1|eapply run_queries_ext; exact EQ|reflexivity].
Qed.

Lemma final_cons P x h s : final P (x :: h) s = final P h (run_tx P x s).1.
Proof.
  unfold final. simpl. destruct (run_tx P x s) as [s1 o]. simpl. destruct (run_hist P h s1). reflexivity.
Qed.

Lemma final_app P h1 : forall h2 s, final P (h1 ++ h2) s = final P h2 (final P h1 s).
Proof.
  induction h1 as [|x h1 IH]; intros h2 s; [reflexivity|].
  simpl. rewrite !final_cons. apply IH.
Qed.

Lemma hist_preserves_Inv P h : forall s,
  in_K P h = false -> times_ok h = true -> Inv s -> Inv (final P h s).
Proof.
  induction h as [|x h IH]; intros s HK HT HI; [exact HI|].
  simpl in HK, HT. apply orb_false_iff in HK as [HK1 HK2]. apply andb_true_iff in HT as [HT1 HT2].
  rewrite final_cons. apply IH; auto. apply tx_preserves_Inv; auto.
Qed.

Lemma hist_preserves_Inv_idx P h : forall s,
  in_K_idx P h = false -> Inv_idx s -> Inv_idx (final P h s).
Proof.
  induction h as [|x h IH]; intros s HK HI; [exact HI|].
  simpl in HK. apply orb_false_iff in HK as [HK1 HK2].
  rewrite final_cons. apply IH; auto. apply tx_preserves_Inv_idx; auto.
Qed.

Lemma Inv_opened d : wf_disk d -> Inv (opened d).
Proof. intros H. split; [apply coherent_reopen|exact H]. Qed.

Lemma Inv_idx_opened d : wfL d -> Inv_idx (opened d).
Proof. intros H. split; [apply coherent_reopen|exact H]. Qed.

(** The statement of C08 outside K. *)
Lemma memory_equals_restart P d0 h :
  wf_disk d0 -> times_ok h = true -> in_K P h = false ->
  let s := final P h (opened d0) in
  forall q, observe (mem_of s) (disk_of s) q = observe (restart (mem_of s) (disk_of s)) (disk_of s) q.
Proof.
  intros HW HT HK s q.
  destruct (hist_preserves_Inv P h (opened d0) HK HT (Inv_opened d0 HW)) as [HC [_ HA]].
  apply observe_coherent; assumption.
Qed.

Lemma in_K_app P h1 h2 : in_K P (h1 ++ h2) = in_K P h1 || in_K P h2.
Proof. unfold in_K. apply existsb_app. Qed.
Lemma times_ok_app h1 h2 : times_ok (h1 ++ h2) = times_ok h1 && times_ok h2.
Proof. unfold times_ok. apply forallb_app. Qed.

(** ... at every transaction boundary of the history. *)
Lemma memory_equals_restart_everywhere P d0 h1 h2 :
  wf_disk d0 -> times_ok (h1 ++ h2) = true -> in_K P (h1 ++ h2) = false ->
  let s := final P h1 (opened d0) in
  forall q, observe (mem_of s) (disk_of s) q = observe (restart (mem_of s) (disk_of s)) (disk_of s) q.
Proof.
  intros HW HT HK. rewrite times_ok_app in HT. rewrite in_K_app in HK.
  apply andb_true_iff in HT as [HT _]. apply orb_false_iff in HK as [HK _].
  apply memory_equals_restart; assumption.
Qed.

(** Outside K, every address the running manager knows is reported with the
    type and the master-key fingerprint of its account's database row. *)
Lemma derivation_info_is_the_rows P d0 h x y a i im u ty fp :
  wf_disk d0 -> times_ok h = true -> in_K P h = false ->
  let s := final P h (opened d0) in
  observe (mem_of s) (disk_of s) (QLookup x) = AAddr y a i im u ty fp ->
  (ty, fp) = meta_of (disk_of s) x.
Proof.
  intros HW HT HK s.
  destruct (hist_preserves_Inv P h (opened d0) HK HT (Inv_opened d0 HW)) as [HC [_ HA]].
  eapply lookup_reports_row_meta; eassumption.
Qed.

(** ** The next committed issuance *)

Definition issue_tx (a : N) (b : bool) (n : N) : txn :=
  {| tx_ops := [ONext a b n]; tx_fate := Commit; tx_queries := [] |}.

(** The state a restart gives: same database, fresh memory in the same lock state. *)
Definition restarted (s : state) : state :=
  {| disk_of := disk_of s; mem_of := restart (mem_of s) (disk_of s) |}.

Lemma issue_same P d m m' a b n :
  coh_idx m d -> m_accts m' = ∅ ->
  (run_tx P (issue_tx a b n) {| disk_of := d; mem_of := m |}).2.1
    = (run_tx P (issue_tx a b n) {| disk_of := d; mem_of := m' |}).2.1 /\
  disk_of (run_tx P (issue_tx a b n) {| disk_of := d; mem_of := m |}).1
    = disk_of (run_tx P (issue_tx a b n) {| disk_of := d; mem_of := m' |}).1.
Proof.
  intros HC HE. unfold run_tx, issue_tx, begin_tx. simpl.
  unfold load_acct. rewrite HE, lookup_empty.
  destruct (m_accts m !! a) as [ai|] eqn:E1.
  - destruct (HC a ai E1) as (r & Hr & Hb). rewrite Hr.
    destruct (Hb b) as [Hn _]. destruct (info_of_row_idx r b) as [Hn' _].
    rewrite Hn, Hn'.
    destruct ((max_addrs <? n)%N || (max_addrs <? row_next r b + n)%N); [simpl; auto|].
    destruct (n =? 0)%N; [simpl; auto|].
    unfold issue, put_chain. simpl. rewrite Hr. simpl. auto.
  - destruct (d_accts d !! a) as [r|] eqn:E2; [|simpl; auto].
    destruct ((max_addrs <? n)%N || (max_addrs <? next_of (info_of_row r) b + n)%N); [simpl; auto|].
    destruct (n =? 0)%N; [simpl; auto|].
    unfold issue, put_chain. simpl. rewrite E2. simpl. auto.
Qed.

Lemma next_issue_equals_restart P d0 h a b n :
  wfL d0 -> in_K_idx P h = false ->
  let s := final P h (opened d0) in
  (run_tx P (issue_tx a b n) s).2.1 = (run_tx P (issue_tx a b n) (restarted s)).2.1 /\
  disk_of (run_tx P (issue_tx a b n) s).1 = disk_of (run_tx P (issue_tx a b n) (restarted s)).1.
Proof.
  intros HW HK s.
  destruct (hist_preserves_Inv_idx P h (opened d0) HK (Inv_idx_opened d0 HW)) as [HC _].
  fold s in HC. destruct s as [d m]. apply issue_same; [exact HC|reflexivity].
Qed.

(** Index-related queries agree outside [in_K_idx] (whatever else diverged). *)
Lemma index_queries_equal_restart P d0 h a :
  wfL d0 -> in_K_idx P h = false ->
  let s := final P h (opened d0) in
  (forall b, match observe (mem_of s) (disk_of s) (QLast a b),
                   observe (restart (mem_of s) (disk_of s)) (disk_of s) (QLast a b) with
             | ALast x _ _, ALast x' _ _ => x = x'
             | AErr e, AErr e' => e = e'
             | _, _ => False
             end) /\
  match observe (mem_of s) (disk_of s) (QProps a), observe (restart (mem_of s) (disk_of s)) (disk_of s) (QProps a) with
  | AProps _ e i _ _ _, AProps _ e' i' _ _ _ => e = e' /\ i = i'
  | AErr e, AErr e' => e = e'
  | _, _ => False
  end.
Proof.
  intros HW HK s.
  destruct (hist_preserves_Inv_idx P h (opened d0) HK (Inv_idx_opened d0 HW)) as [HC _].
  fold s in HC. destruct s as [d m]. simpl in *. unfold observe.
  split.
  - intros b. rewrite 2!read_ans_load, 2!load_acct_ans. simpl. rewrite lookup_empty.
    destruct (m_accts m !! a) as [ai|] eqn:E.
    + destruct (HC a ai E) as (r & Hr & Hf). rewrite Hr. simpl.
      destruct (Hf b) as [H1 H2]. destruct (info_of_row_idx r b) as [H3 H4].
      rewrite H1, H2, H3, H4. destruct (0 <? row_next r b)%N; reflexivity.
    + destruct (d_accts d !! a) as [r|]; simpl; [|reflexivity].
      destruct (0 <? next_of (info_of_row r) b)%N; reflexivity.
  - rewrite 2!read_ans_load, 2!load_acct_ans. simpl. rewrite lookup_empty.
    destruct (a =? imported_acct)%N; [simpl; auto|].
    destruct (m_accts m !! a) as [ai|] eqn:E.
    + destruct (HC a ai E) as (r & Hr & Hf). rewrite Hr. simpl.
      destruct (Hf true) as [H1 _]. destruct (Hf false) as [H2 _]. simpl in H1, H2. auto.
    + destruct (d_accts d !! a); simpl; auto.
Qed.

(** ** A rolled-back transaction made of address issuance (and reads) never
    advances an index in memory - no hypothesis on the state at all. *)

Definition issue_or_read (o : op) : bool :=
  match o with ONext _ _ _ | ORead _ => true | _ => false end.

Definition J (d0 : disk) (m0 : mem) (d : disk) (m : mem) : Prop :=
  (forall a ai, m_accts m0 !! a = Some ai -> m_accts m !! a = Some ai) /\
  (forall a ai, m_accts m !! a = Some ai ->
     m_accts m0 !! a = Some ai \/
     (m_accts m0 !! a = None /\ exists r, d_accts d0 !! a = Some r /\ ai = info_of_row r)) /\
  (forall a, m_accts m !! a = None -> d_accts d !! a = d_accts d0 !! a).

Lemma J_ext d0 m0 d m m' : J d0 m0 d m -> mem_ext d m m' -> J d0 m0 d m'.
Proof.
  intros (A0 & A & B) (E1 & E2 & _). split; [|split].
  - intros a ai Ha. apply E1, A0, Ha.
  - intros a ai Ha. destruct (E2 a ai Ha) as [H|(H & r & Hr & ->)]; [auto|].
    rewrite (B a H) in Hr.
    destruct (m_accts m0 !! a) as [ai0|] eqn:E0.
    + apply A0 in E0. congruence.
    + right. split; [reflexivity|]. eauto.
  - intros a Ha. apply B. destruct (m_accts m !! a) as [ai|] eqn:E; [|reflexivity].
    apply E1 in E. congruence.
Qed.

Lemma J_cong d0 m0 d m d' m' :
  d_accts d' = d_accts d -> m_accts m' = m_accts m -> J d0 m0 d m -> J d0 m0 d' m'.
Proof. intros E1 E2 H. unfold J in *. rewrite E1, E2. exact H. Qed.

Lemma issue_step_J P d0 m0 o t t' r :
  issue_or_read o = true -> step P o t = (t', r) ->
  J d0 m0 (t_disk t) (t_mem t) -> J d0 m0 (t_disk t') (t_mem t').
Proof.
  intros HO HS HJ. destruct o as [| |a b n| | | | | | | |q| | | | |]; try discriminate.
  - simpl in HS.
    destruct (load_acct (t_disk t) (t_mem t) a) as [m1 o] eqn:EL.
    apply load_acct_ext in EL as (HE & _ & Ho).
    pose proof (J_ext _ _ _ _ _ HJ HE) as HJ1.
    destruct o as [ai|]; [|injection HS as <- <-; exact HJ1].
    destruct ((max_addrs <? n)%N || (max_addrs <? next_of ai b + n)%N); [injection HS as <- <-; exact HJ1|].
    destruct (n =? 0)%N; [injection HS as <- <-; exact HJ1|].
    unfold issue, put_chain in HS. simpl in HS.
    destruct (d_accts (t_disk t) !! a) as [r0|] eqn:Er0; injection HS as <- <-; simpl.
    + match goal with |- J _ _ ?d' _ => assert (G : J d0 m0 d' m1) end.
      2:{ eapply J_cong; [..|exact G]; try reflexivity. destruct (p_rb P); [np|]; reflexivity. }
      destruct HJ1 as (A0 & A & B). split; [exact A0|split; [exact A|]].
      intros a' Ha'. simpl in *. assert (a' <> a) by congruence.
      rewrite lookup_insert_ne by congruence. apply B; auto.
    + eapply J_cong; [..|exact HJ1]; reflexivity.
  - simpl in HS. destruct (read q (t_disk t) (t_mem t)) as [m' x] eqn:ER. injection HS as <- <-. simpl.
    eapply J_ext; [exact HJ|]. eapply read_ext; exact ER.
Qed.

Lemma issue_ops_J P d0 m0 ops : forall t t' outs,
  forallb issue_or_read ops = true -> run_ops P ops t = (t', outs) ->
  J d0 m0 (t_disk t) (t_mem t) -> J d0 m0 (t_disk t') (t_mem t').
Proof.
  induction ops as [|o ops IH]; simpl; intros t t' outs HO HR HJ.
  - injection HR as <- <-. exact HJ.
  - destruct (step P o t) as [t1 x] eqn:ES.
    destruct (run_ops P ops t1) as [t2 xs] eqn:ER. injection HR as <- <-.
    apply andb_true_iff in HO as [HO1 HO2].
    eapply IH; eauto. eapply issue_step_J; eauto.
Qed.

Lemma rolled_back_issuance_keeps_indices P s ops f qs :
  f <> Commit -> forallb issue_or_read ops = true ->
  let s' := (run_tx P {| tx_ops := ops; tx_fate := f; tx_queries := qs |} s).1 in
  disk_of s' = disk_of s /\
  forall a ai, m_accts (mem_of s') !! a = Some ai ->
    m_accts (mem_of s) !! a = Some ai \/
    (m_accts (mem_of s) !! a = None /\
     exists r, d_accts (disk_of s) !! a = Some r /\ ai = info_of_row r).
Proof.
  intros Hf HO. rewrite run_tx_unfold. simpl.
  destruct (run_ops P ops _) as [t outs] eqn:ER.
  assert (HJ0 : J (disk_of s) (mem_of s) (disk_of s) (mem_of s)).
  { split; [auto|split; [auto|auto]]. }
  pose proof (issue_ops_J P (disk_of s) (mem_of s) ops _ t outs HO ER HJ0) as HJ1.
  assert (HE : end_tx f s t = {| disk_of := disk_of s; mem_of := t_mem t |}) by (destruct f; [contradiction|reflexivity..]).
  rewrite HE. simpl.
  destruct (run_queries qs (disk_of s) (t_mem t)) as [m2 qa] eqn:EQ. simpl.
  split; [reflexivity|].
  assert (HJ2 : J (disk_of s) (mem_of s) (disk_of s) (t_mem t)).
  { destruct HJ1 as (A0 & A & _). split; [exact A0|split; [exact A|auto]]. }
  apply (J_ext _ _ _ _ m2) in HJ2; [|eapply run_queries_ext; exact EQ].
  apply HJ2.
Qed.

(** ** K_idx is part of K *)

Lemma taint_if_sub a armed1 armed2 T1 T2 :
  (armed1 = true -> armed2 = true) -> (forall x, x ∈ T1 -> x ∈ T2) ->
  forall x, x ∈ taint_if armed1 a T1 -> x ∈ taint_if armed2 a T2.
Proof.
  intros HA HT x. destruct armed1; simpl.
  - rewrite (HA eq_refl). simpl. intros H. apply elem_of_cons in H as [->|H]; [left|right; auto].
  - intros H. destruct armed2; simpl; [right|]; auto.
Qed.

Lemma tainted_sub T1 T2 : (forall x, x ∈ T1 -> x ∈ T2) -> tainted T1 = true -> tainted T2 = true.
Proof.
  destruct T1 as [|a T1]; [discriminate|]. intros H _. destruct T2; [|reflexivity].
  exfalso. specialize (H a (elem_of_list_here _ _)). inversion H.
Qed.

Lemma rm_taint_sub a T1 T2 : (forall x, x ∈ T1 -> x ∈ T2) -> forall x, x ∈ rm_taint a T1 -> x ∈ rm_taint a T2.
Proof. intros H x Hx. apply rm_taint_spec in Hx as [H1 H2]. apply rm_taint_spec. auto. Qed.

Lemma abort_k_idx_sub P ops : forall armed1 armed2 issued T1 T2,
  (armed1 = true -> armed2 = true) -> (forall x, x ∈ T1 -> x ∈ T2) ->
  abort_k_idx P armed1 T1 ops = true -> abort_k P armed2 issued T2 ops = true.
Proof.
  induction ops as [|o ops IH]; intros armed1 armed2 issued T1 T2 HA HT H.
  - simpl in *. eapply tainted_sub; eauto.
  - destruct o as [nm|a nm|a b n|a b last|x|s| |tm|s v|x bs pv|q|nm wk| | |a| ]; simpl in *; auto.
    + eapply IH; [| |exact H]; auto.
    + apply orb_true_iff. right. eapply IH; [| |exact H]; auto.
    + apply orb_true_iff. right. eapply IH; [| |exact H]; try (apply taint_if_sub); auto.
    + apply orb_true_iff in H as [H|H]; apply orb_true_iff; [left; exact H|right].
      eapply IH; [| |exact H]; try (apply taint_if_sub); auto.
    + eapply IH; [| |exact H]; auto.
    + eapply IH; [| |exact H]; auto.
    + destruct q as [[a b i|k|k]|a b|a|nm|a| | |h| | ]; simpl in *;
        try (eapply IH; [| |exact H]; try (apply taint_if_sub); auto; fail).
      * destruct armed2; [apply orb_true_iff; left; apply orb_true_r|].
        apply orb_true_iff. right.
        assert (armed1 = false) by (destruct armed1; [specialize (HA eq_refl); discriminate|reflexivity]). subst armed1.
        simpl in H. eapply IH; [| |exact H]; auto.
      * apply orb_true_iff. right. eapply IH; [| |exact H]; auto.
      * apply orb_true_iff. right. eapply IH; [| |exact H]; auto.
      * destruct (a =? imported_acct)%N; eapply IH; [| |exact H| | |exact H]; try (apply taint_if_sub); auto.
    + eapply IH; [| |exact H]; auto.
    + eapply IH; [| |exact H]; auto.
    + apply orb_true_iff in H as [H|H]; apply orb_true_iff; [left; subst; auto|right].
      eapply IH; [| |exact H]; auto.
    + eapply IH; [| |exact H]; try (apply rm_taint_sub); auto.
Qed.

Lemma tx_k_idx_sub P x : tx_k_idx P x = true -> tx_k P x = true.
Proof.
  unfold tx_k_idx, tx_k. destruct (tx_fate x); intros H.
  - rewrite H. reflexivity.
  - eapply abort_k_idx_sub; [| |exact H]; auto.
  - eapply abort_k_idx_sub; [| |exact H]; auto.
  - eapply abort_k_idx_sub; [| |exact H]; auto.
Qed.

Lemma in_K_idx_sub P h : in_K_idx P h = true -> in_K P h = true.
Proof.
  unfold in_K_idx, in_K. rewrite !existsb_exists. intros (x & Hx & Hk). exists x. split; [exact Hx|].
  apply tx_k_idx_sub; exact Hk.
Qed.

(** ** The database [Create] leaves is well formed *)

Lemma wf_created sch g t b : wf_disk (created sch g t b).
Proof.
  split.
  - intros a [r Hr]. simpl in *. apply lookup_singleton_Some in Hr as [<- _]. lia.
  - intros a b0 i H. simpl in H. exfalso. revert H. apply not_elem_of_empty.
Qed.

(** ** What wallet.ImportAccountDryRun does is outside K (when issuance does
    not cache its read-back): the account it creates, reads and issues from is
    evicted before the transaction rolls back. *)

Definition dry_import_ops (n nm : N) (w : wo) (k : N) : list op :=
  [ONewAccountWO nm w; ORead (QProps n); ONext n false k; ONext n true k; ORead (QProps n); OInvalidate n].

Lemma rm_taint_all a l : Forall (fun x => x = a) l -> rm_taint a l = [].
Proof.
  intros H. apply elem_of_nil_inv. intros x Hx. apply rm_taint_spec in Hx as [H1 H2].
  rewrite Forall_forall in H. apply H2, H, elem_of_list_In, H1.
Qed.

Lemma dry_import_outside_K P n nm w k qs :
  tx_k P {| tx_ops := dry_import_ops n nm w k; tx_fate := AbortDryRun; tx_queries := qs |} = p_rb P.
Proof.
  unfold tx_k, dry_import_ops. simpl.
  destruct (p_rb P); [reflexivity|]. simpl.
  destruct (n =? imported_acct)%N; simpl; rewrite rm_taint_all; auto; repeat constructor.
Qed.

(** ** Witnesses inside K (all from the database [Create] leaves) *)

Definition d_wit : disk := created (4%N, 4%N) 0 1231006505 1599827200.
Definition tx (ops : list op) (f : fate) : txn := {| tx_ops := ops; tx_fate := f; tx_queries := [] |}.
Definition diverges (P : params) (h : list txn) (q : query) : bool :=
  let s := final P h (opened d_wit) in
  negb (bool_decide (observe (mem_of s) (disk_of s) q = observe (restart (mem_of s) (disk_of s)) (disk_of s) q)).
Definition issue_differs (P : params) (h : list txn) (a : N) (b : bool) (n : N) : bool :=
  let s := final P h (opened d_wit) in
  negb (bool_decide ((run_tx P (issue_tx a b n) s).2.1
                     = (run_tx P (issue_tx a b n) (restarted s)).2.1)).

Definition stamp1 : stamp := {| s_height := 1; s_hash := 5; s_time := 1600000600 |}.
Definition wo1 : wo := {| w_key := 3; w_fp := 287454020; w_schema := Some (3%N, 4%N) |}.
Definition w_rename := [tx [ORead (QProps 0)] Commit; tx [ORename 0 7] AbortCaller].
Definition w_rename_reload := [tx [ORename 0 7; ORead (QProps 0)] AbortCaller].
Definition w_synced := [tx [OSetSynced stamp1] CommitFails].
Definition w_extend := [tx [OExtend 0 false 4] AbortDryRun].
Definition w_phantom := [tx [ONext 0 true 1] AbortDryRun].
Definition w_issue_lookup := [tx [ONext 0 true 1; ORead (QLookup (Chain 0 true 0))] AbortDryRun].
Definition w_birthday := [tx [OSetBirthday 1500003600] AbortCaller].
Definition w_import := [tx [OImport (ImpKey 0) None false] CommitFails].
Definition w_newacct_read := [tx [ONewAccount 5; ORead (QProps 1)] AbortCaller].
Definition w_evict_reload := [tx [ONext 0 false 2; OInvalidate 0; ORead (QProps 0)] AbortCaller].
Definition w_dry_import := [tx (dry_import_ops 1 5 wo1 2) AbortDryRun].
Definition w_dry_import_kept :=
  [tx [ONewAccountWO 5 wo1; ORead (QProps 1); ONext 1 false 2; ONext 1 true 2; ORead (QProps 1)] AbortDryRun].
Definition w_stale_callback := [tx [ONext 0 false 1; OExtend 0 false 4] Commit].
Definition w_synced_nil := [tx [OSetSyncedNil] Commit].
Definition w_convert := [tx [OConvert] CommitFails].

(** Which witnesses are inside K depends on the source ([params]): the
    rolled-back rename only while rename is eager, the rolled-back extension and
    the extension after an issuance only while extension is eager. *)
Lemma witnesses_in_K P :
  in_K P w_rename = p_re P /\ in_K P w_extend = p_ee P /\ in_K P w_stale_callback = p_ee P /\
  in_K P w_dry_import = p_rb P /\
  forallb (fun h => in_K P h)
    [w_rename_reload; w_synced; w_issue_lookup; w_birthday; w_import; w_newacct_read;
     w_evict_reload; w_dry_import_kept; w_synced_nil; w_convert] = true /\
  forallb times_ok
    [w_rename; w_rename_reload; w_synced; w_extend; w_issue_lookup; w_birthday; w_import; w_newacct_read;
     w_evict_reload; w_dry_import; w_dry_import_kept; w_stale_callback; w_synced_nil; w_convert] = true.
Proof. destruct P as [[] [] []]; vm_compute; repeat split. Qed.

Lemma witnesses_diverge P :
  diverges P w_rename (QProps 0) = p_re P /\
  diverges P w_rename_reload (QProps 0) = true /\
  diverges P w_synced QSynced = true /\
  diverges P w_extend (QProps 0) = p_ee P /\
  diverges P w_extend (QLast 0 false) = p_ee P /\
  diverges P w_issue_lookup (QLookup (Chain 0 true 0)) = true /\
  diverges P w_birthday QBirthday = true /\
  diverges P w_import (QLookup (ImpKey 0)) = true /\
  diverges P w_newacct_read (QProps 1) = true /\
  diverges P w_evict_reload (QProps 0) = true /\
  diverges P w_dry_import_kept (QProps 1) = true /\
  diverges P w_dry_import (QProps 1) = false /\
  diverges P w_stale_callback (QProps 0) = p_ee P /\
  diverges P w_synced_nil QSynced = true /\
  diverges P w_convert (QProps imported_acct) = true.
Proof. destruct P as [[] [] []]; vm_compute; repeat split. Qed.

(** The plain dry-run issuance: inside K, and diverging, exactly when the
    read-back is cached before commit. *)
Lemma dry_run_issuance_phantom P :
  in_K P w_phantom = p_rb P /\ times_ok w_phantom = true /\ in_K_idx P w_phantom = false /\
  diverges P w_phantom (QLookup (Chain 0 true 0)) = p_rb P.
Proof. destruct P as [[] [] []]; vm_compute; repeat split. Qed.

Lemma witnesses_issue_differs P :
  in_K_idx P w_extend = p_ee P /\ issue_differs P w_extend 0 false 1 = p_ee P /\
  in_K_idx P w_stale_callback = p_ee P /\ issue_differs P w_stale_callback 0 false 1 = p_ee P /\
  in_K_idx P w_evict_reload = true /\ issue_differs P w_evict_reload 0 false 1 = true.
Proof. destruct P as [[] [] []]; vm_compute; repeat split. Qed.

Lemma diverges_spec P h q :
  diverges P h q = true ->
  let s := final P h (opened d_wit) in
  observe (mem_of s) (disk_of s) q <> observe (restart (mem_of s) (disk_of s)) (disk_of s) q.
Proof.
  unfold diverges. cbv zeta. intros H. apply negb_true_iff, bool_decide_eq_false in H. exact H.
Qed.

Lemma issue_differs_spec P h a b n :
  issue_differs P h a b n = true ->
  let s := final P h (opened d_wit) in
  (run_tx P (issue_tx a b n) s).2.1 <> (run_tx P (issue_tx a b n) (restarted s)).2.1.
Proof.
  unfold issue_differs. cbv zeta. intros H. apply negb_true_iff, bool_decide_eq_false in H. exact H.
Qed.
