(** C04 - executable comparison of the taint model with what the harness found
    in the real database after every call.

    The harness (harness/cmd/c04) holds every passphrase.  After every call
    it walks all rows of the database, finds every sealed field (the fields
    the layouts of db.go name, and anything else that opens), OPENS it with
    every key it can derive itself - public passphrase -> master public key
    -> crypto public key; private passphrase -> master private key -> crypto
    private key / stored script key; the all-zero key - and classifies the
    PLAINTEXT by content (which secret / public item of the run it is).  One
    observed fact = (slot of the row the field sits in, row type tag, key
    that opens it, class of the plaintext).

    Here the same facts are computed from the model's disk.  Compared - and
    nothing else - is what the secrecy theorems depend on:
      - the facts of the rows an operation changed are facts of the model's
        disk, and at the complete looks (creation, conversion, last call)
        the two sets of facts are equal: what is sealed where, under which
        key, is what the model says (the model's keys and plaintext classes
        come from the table regenerated from the source, Generated/TaintSites.v);
      - the watching-only flag;
      - Lock / Unlock / Open change no row;
      - the answers of the private accessors of a reopened watching-only manager.
    Not compared: row counts, clear-text metadata rows, byte lengths, rows or
    sealed blobs the model does not know (those are judged by the harness's
    oracle alone: no secret may be recoverable from them), and the outcome of
    a call the implementation REFUSES (the model then takes the refusal: a
    refused call writes nothing). *)
From Coq Require Import String.
From Verif Require Import Base.Prelude Addr.Taint.
From Verif Require Generated.TaintSites.
Local Open Scope N_scope.

(** which key opens a sealed field *)
Inductive hseal := LMasterPub | LMasterPriv | LCryptoPub | LCryptoPriv | LScriptStored | LZero | LNone.

Record fact := { f_slot : slot; f_tag : N; f_key : hseal; f_content : content }.

Definition slot_eq_dec : forall a b : slot, {a = b} + {a <> b}.
Proof. decide equality; apply Bool.bool_dec. Defined.
Definition hseal_eq_dec : forall a b : hseal, {a = b} + {a <> b}.
Proof. decide equality. Defined.
Definition content_eq_dec : forall a b : content, {a = b} + {a <> b}.
Proof. decide equality. Defined.
Definition fact_eq_dec : forall a b : fact, {a = b} + {a <> b}.
Proof. decide equality; try apply N.eq_dec; [apply content_eq_dec|apply hseal_eq_dec|apply slot_eq_dec]. Defined.

Definition fact_eqb (a b : fact) : bool := if fact_eq_dec a b then true else false.

Definition seal_label (k : keyid) : hseal :=
  match k with
  | KMasterPub => LMasterPub
  | KMasterPriv => LMasterPriv
  | KCryptoPub => LCryptoPub
  | KCryptoPriv => LCryptoPriv
  | KCryptoScript => if TaintSites.unlock_decrypts_script_key then LScriptStored else LZero
  end.

(** class of a stored atom, as the harness would classify its bytes *)
Definition content_of_atom (a : atom) : content :=
  match a with
  | SMasterXprv => CtMasterXprv
  | PMasterXpub => CtMasterXpub
  | SCoinXprv _ => CtCoinXprv
  | PCoinXpub _ => CtCoinXpub
  | SAcctXprv _ _ => CtAcctXprv
  | PAcctXpub _ _ => CtAcctXpub
  | PImpXpub _ => CtImpXpub
  | SImpPriv _ | SAddrPriv _ => CtPrivKey
  | PPubKey _ _ => CtPubKey
  | PAddrId _ => CtAddrId
  | SScript _ _ => CtSecretScript
  | PScript _ _ => CtPublicScript
  | PKeyPub => CtKeyPub
  | SKeyPriv => CtKeyPriv
  | SKeyScriptStored => CtKeyScript
  | SPass _ _ => CtPassphrase
  | SSeed => CtSeed
  | _ => CtUnknown
  end.

(** the fact of one field, if it is a sealing *)
Definition fact_of (l : slot) (tag : N) (t : term) : list fact :=
  match t with
  | Enc k (Clear a) => [{| f_slot := l; f_tag := tag; f_key := seal_label k; f_content := content_of_atom a |}]
  | Enc k _ => [{| f_slot := l; f_tag := tag; f_key := seal_label k; f_content := CtUnknown |}]
  | _ => []
  end.

Definition str_is (k : term) (s : string) : bool :=
  match k with Clear (UStr s') => if string_dec s s' then true else false | _ => false end.

(** the sealed fields of a row, by the layouts of db.go *)
Definition row_facts (r : row) : list fact :=
  match r_path r, r_val r with
  | [BMain], [t] =>
    if str_is (r_key r) "mhdpriv" then fact_of LMhdPriv 0 t
    else if str_is (r_key r) "mhdpub" then fact_of LMhdPub 0 t
    else if str_is (r_key r) "cpub" then fact_of LCPub 0 t
    else if str_is (r_key r) "cpriv" then fact_of LCPriv 0 t
    else if str_is (r_key r) "cscript" then fact_of LCScript 0 t
    else []
  | [BScope; BScopeOf _], [t] =>
    if str_is (r_key r) "ctpub" then fact_of LCtPub 0 t
    else if str_is (r_key r) "ctpriv" then fact_of LCtPriv 0 t
    else []
  | [BScope; BScopeOf _; BAcct], Clear (UTag 0) :: _ :: pub :: _ :: priv :: _ =>
    fact_of LAcctPub 0 pub ++ fact_of LAcctPriv 0 priv
  | [BScope; BScopeOf _; BAcct], Clear (UTag 1) :: _ :: pub :: _ =>
    fact_of LWatchAcctPub 1 pub
  | [BScope; BScopeOf _; BAddr], [Clear (UTag 1); _; _; pub; _; priv] =>
    fact_of LImpPub 1 pub ++ fact_of LImpPriv 1 priv
  | [BScope; BScopeOf _; BAddr], [Clear (UTag 2); _; _; hs; _; scr] =>
    fact_of LScrHash 2 hs ++ fact_of (LScrScript true) 2 scr
  | [BScope; BScopeOf _; BAddr], [Clear (UTag t); _; _; Clear (UFlag sec); _; hs; _; scr] =>
    fact_of LScrHash t hs ++ fact_of (LScrScript sec) t scr
  | _, _ => []
  end.

Definition disk_facts (d : disk) : list fact := flat_map row_facts d.

Definition fact_in (l : list fact) (f : fact) : bool := existsb (fact_eqb f) l.
Definition facts_subset (a b : list fact) : bool := forallb (fact_in b) a.

(* ---- one case = one history with the observation after every call -------- *)

Inductive answer := AWatchingOnly | ALocked | AError | AServed.

Record hobs := {
  o_ok : bool;                        (* the call succeeded and its transaction committed *)
  o_wo : bool;                        (* Manager.WatchOnly() after the call *)
  o_nchanged : N;                     (* rows that changed, appeared or disappeared *)
  o_facts : list fact;                (* facts of the rows that changed *)
  o_full : option (list fact);        (* facts of all rows (creation, conversion, last call) *)
  o_api : list (api_call * answer)    (* reopened watching-only manager: answers of the private accessors *)
}.

Definition tcase := list (op * hobs).

(** failure codes
    1 the implementation committed a call the model refuses
    3 a fact of a changed row is not a fact of the model's disk
    5 complete look: the facts differ (either direction)
    7 Lock / Unlock / Open changed the database
    8 the watching-only flag differs
    9 an accessor of the watching-only manager answers differently *)
Definition no_disk_op (o : op) : bool :=
  match o with OLock | OUnlock _ | OReopen => true | _ => false end.

Definition answer_matches (m : api_result) (a : answer) : bool :=
  match m, a with
  | Served, AServed => true
  | Served, _ => false
  | _, AServed => false
  | _, _ => true                       (* both refuse *)
  end.

Definition api_matches (st : state) (ca : api_call * answer) : bool :=
  let '(c, a) := ca in
  answer_matches (api st c) a
  && match c, api st c with
     | CUnlock, ErrWatchingOnly => match a with AWatchingOnly => true | _ => false end
     | _, _ => true
     end.

Definition check_obs (op0 : op) (st : state) (o : hobs) : list nat :=
  let m := disk_facts (dsk st) in
  (if facts_subset (o_facts o) m then [] else [3%nat])
  ++ (match o_full o with
      | None => []
      | Some f => if facts_subset f m && facts_subset m f then [] else [5%nat]
      end)
  ++ (if no_disk_op op0 && o_ok o && negb (o_nchanged o =? 0) then [7%nat] else [])
  ++ (if negb (created st) || Bool.eqb (wo st) (o_wo o) then [] else [8%nat])
  ++ (if forallb (api_matches st) (o_api o) then [] else [9%nat]).

(** what the model does on a call, given what the implementation did: a
    call the implementation refused writes nothing (a refused Unlock locks). *)
Definition refused (o : op) : op := match o with OUnlock _ => OUnlock false | _ => OLock end.

Definition follow (T : table) (sp : bool) (st : state) (o : op) (impl_ok : bool) : state * list nat :=
  if impl_ok then
    let '(st', ok) := step T sp st o in
    (st', if ok then [] else [1%nat])
  else
    match o with
    | OUnlock _ => (fst (step T sp st (OUnlock false)), [])
    | _ => (st, [])
    end.

Fixpoint check_events (i : nat) (st : state) (l : tcase) : list (nat * nat) :=
  match l with
  | [] => []
  | (o, ob) :: l' =>
    let '(st', c1) := follow TaintSites.table TaintSites.wo_strips_taproot st o (o_ok ob) in
    map (fun c => (i, c)) (c1 ++ check_obs o st' ob) ++ check_events (S i) st' l'
  end.

Definition check_case (c : tcase) : list (nat * nat) := check_events 0 init c.

Definition case_ok (c : tcase) : bool := match check_case c with [] => true | _ => false end.

Fixpoint mismatches_from (i : nat) (l : list tcase) : list nat :=
  match l with
  | [] => []
  | c :: l' => if case_ok c then mismatches_from (S i) l' else i :: mismatches_from (S i) l'
  end.

Definition mismatches := mismatches_from 0.

(** (case, event, code) of every disagreement, for the report *)
Fixpoint failures_from (i : nat) (l : list tcase) : list (nat * nat * nat) :=
  match l with
  | [] => []
  | c :: l' => map (fun '(e, code) => (i, e, code)) (check_case c) ++ failures_from (S i) l'
  end.

Definition failures := failures_from 0.

(** what the model expects to remain sealed with private content after a
    conversion (exposed for the evidence) *)
Definition model_residue (h : list op) : list fact :=
  filter (fun f => content_private (f_content f))
         (disk_facts (dsk (run TaintSites.table TaintSites.wo_strips_taproot h))).

(** the reader of the sealing sites found every site of the source safe *)
Definition source_sites_ok : bool :=
  forallb (fun '(_, l, e) => source_entry_ok l e) TaintSites.source_entries.
