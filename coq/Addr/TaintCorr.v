(** C04 - executable comparison of the taint model with what the harness found
    in the real database after every committed transaction.

    The harness (harness/cmd/c04) walks the bucket tree of the address
    manager's namespace, recognises every key (fixed name, number, scope,
    account name, sha256 of the id of an address it knows), splits every value
    into its fields and classifies each field: sealed (and under which key it
    opens: the harness derives the master keys from the passphrases and the
    stored parameters, opens the crypto keys with them, and also tries the
    all-zero key), hashed, or clear, with lengths.  Here the same shape is
    computed from the model's terms.  Only property-relevant facts are
    compared: which rows and fields exist, how each is protected, and the
    plaintext length - no byte offsets, no values. *)
From Coq Require Import String.
From Verif Require Import Base.Prelude Addr.Taint.
From Verif Require Generated.TaintSites.
Local Open Scope N_scope.

Inductive hkey :=
| HStr (s : string) | HNum (n : N) | HAddr (id : addrid) | HName (id len : N) | HScope (s : scope) | HOther.

(** which key opens a sealed field *)
Inductive hseal := LMasterPub | LMasterPriv | LCryptoPub | LCryptoPriv | LScriptStored | LZero | LNone.

Inductive hfield := HSealed (k : hseal) (plen : N) | HHashed | HClear (len : N).

Record hrow := { h_path : list seg; h_key : hkey; h_val : list hfield }.

Definition hkey_eq_dec : forall a b : hkey, {a = b} + {a <> b}.
Proof. decide equality; try apply N.eq_dec; try apply scope_eq_dec; try apply addrid_eq_dec; apply string_dec. Defined.
Definition hseal_eq_dec : forall a b : hseal, {a = b} + {a <> b}.
Proof. decide equality. Defined.
Definition hfield_eq_dec : forall a b : hfield, {a = b} + {a <> b}.
Proof. decide equality; try apply N.eq_dec; apply hseal_eq_dec. Defined.
Definition hrow_eq_dec : forall a b : hrow, {a = b} + {a <> b}.
Proof.
  decide equality; [apply (list_eq_dec hfield_eq_dec)|apply hkey_eq_dec|apply (list_eq_dec seg_eq_dec)].
Defined.

Definition hrow_eqb (a b : hrow) : bool := if hrow_eq_dec a b then true else false.
Definition hslot_eqb (a b : list seg * hkey) : bool :=
  (if list_eq_dec seg_eq_dec (fst a) (fst b) then true else false)
  && (if hkey_eq_dec (snd a) (snd b) then true else false).

(* ---- lengths of atoms as the code serialises them ----------------------- *)

Definition strlen (s : string) : N := N.of_nat (String.length s).

Definition alen (a : atom) : N :=
  match a with
  | SMasterXprv | SCoinXprv _ | SAcctXprv _ _ => 111   (* ExtendedKey.String() *)
  | PMasterXpub | PCoinXpub _ | PAcctXpub _ _ | PImpXpub _ => 111
  | SImpPriv _ | SAddrPriv _ | SKeyPriv | SKeyScriptStored | PKeyPub | SSeed => 32
  | SScript _ len | PScript _ len => len
  | SPass _ _ => 0
  | PPubKey _ c => if c then 33 else 65
  | PAddrId (AScr _ hlen) => hlen
  | PAddrId _ => 20
  | UStr s => strlen s
  | UNum _ => 4
  | UFlag _ | UTag _ => 1
  | UName _ len => 4 + len
  | UScope _ => 8
  | USalt _ _ => 32
  end.

Fixpoint tlen (t : term) : N :=
  match t with
  | Enc _ t' => 40 + tlen t'         (* 24 nonce + 16 tag + plaintext *)
  | Hash _ | Kdf _ => 32
  | Clear a => alen a
  | Cat a b => tlen a + tlen b
  | Const n => n
  end.

Definition seal_label (k : keyid) : hseal :=
  match k with
  | KMasterPub => LMasterPub
  | KMasterPriv => LMasterPriv
  | KCryptoPub => LCryptoPub
  | KCryptoPriv => LCryptoPriv
  | KCryptoScript => if TaintSites.unlock_decrypts_script_key then LScriptStored else LZero
  end.

Definition field_of (t : term) : hfield :=
  match t with
  | Enc k t' => HSealed (seal_label k) (tlen t')
  | Hash _ | Kdf _ => HHashed
  | _ => HClear (tlen t)
  end.

(** adjacent clear fields are one clear field; empty ones vanish *)
Fixpoint merge (l : list hfield) : list hfield :=
  match l with
  | [] => []
  | HClear a :: rest =>
    match merge rest with
    | HClear b :: r' => HClear (a + b) :: r'
    | r' => if a =? 0 then r' else HClear a :: r'
    end
  | x :: rest => x :: merge rest
  end.

Definition key_of (t : term) : hkey :=
  match t with
  | Clear (UStr s) => HStr s
  | Clear (UNum n) => HNum n
  | Clear (UName i l) => HName i l
  | Clear (UScope s) => HScope s
  | Hash (Clear (PAddrId id)) => HAddr id
  | _ => HOther
  end.

Definition hrow_of (r : row) : hrow :=
  {| h_path := r_path r; h_key := key_of (r_key r); h_val := merge (map field_of (r_val r)) |}.

Definition norm (r : hrow) : hrow := {| h_path := h_path r; h_key := h_key r; h_val := merge (h_val r) |}.

(* ---- one case = one history with the observation after every operation -- *)

Record hobs := {
  o_ok : bool;                              (* the call succeeded and its transaction committed *)
  o_nrows : N;                              (* rows in the namespace after it *)
  o_changed : list hrow;                    (* rows whose bytes changed or appeared *)
  o_deleted : list (list seg * hkey);       (* rows that disappeared *)
  o_full : option (list hrow)               (* complete dump (first, conversion and last commit) *)
}.

Definition tcase := list (op * hobs).

(** failure codes
    1 success/failure of the call differs      2 number of rows differs
    3 a changed row is not what the model holds 4 a deleted row is still in the model
    5 the complete dump differs                 6 an unrecognised key or an unopenable sealed field
    7 Lock / Unlock / Open changed the database *)
Definition no_disk_op (o : op) : bool :=
  match o with OLock | OUnlock _ | OReopen => true | _ => false end.

Definition well_formed (r : hrow) : bool :=
  match h_key r with HOther => false | _ =>
    forallb (fun f => match f with HSealed LNone _ => false | _ => true end) (h_val r) end.

Definition check_obs (op0 : op) (st : state) (ok : bool) (o : hobs) : list nat :=
  if negb (Bool.eqb ok (o_ok o)) then [1%nat]
  else if negb ok then []
  else
    let m := map hrow_of (dsk st) in
    (if N.of_nat (length m) =? o_nrows o then [] else [2%nat])
    ++ (if forallb (fun r => existsb (hrow_eqb (norm r)) m) (o_changed o) then [] else [3%nat])
    ++ (if existsb (fun s => existsb (fun r => hslot_eqb s (h_path r, h_key r)) m) (o_deleted o) then [4%nat] else [])
    ++ (match o_full o with
        | None => []
        | Some f => if (length f =? length m)%nat && forallb (fun r => existsb (hrow_eqb (norm r)) m) f
                    then [] else [5%nat]
        end)
    ++ (if forallb well_formed (o_changed o)
           && match o_full o with Some f => forallb well_formed f | None => true end
        then [] else [6%nat])
    ++ (if no_disk_op op0 && negb (match o_changed o, o_deleted o with [], [] => true | _, _ => false end)
        then [7%nat] else []).

Fixpoint check_events (i : nat) (st : state) (l : tcase) : list (nat * nat) :=
  match l with
  | [] => []
  | (o, ob) :: l' =>
    let '(st', ok) := step TaintSites.wo_strips_taproot st o in
    map (fun c => (i, c)) (check_obs o st' ok ob) ++ check_events (S i) st' l'
  end.

Definition check_case (c : tcase) : list (nat * nat) := check_events 0 init c.

Definition case_ok (c : tcase) : bool := match check_case c with [] => true | _ => false end.

Fixpoint mismatches_from (i : nat) (l : list tcase) : list nat :=
  match l with
  | [] => []
  | c :: l' => if case_ok c then mismatches_from (S i) l' else i :: mismatches_from (S i) l'
  end.

Definition mismatches := mismatches_from 0.

(** (case, event, code) of every disagreement, for the report *)
Fixpoint failures_from (i : nat) (l : list tcase) : list (nat * nat * nat) :=
  match l with
  | [] => []
  | c :: l' => map (fun '(e, code) => (i, e, code)) (check_case c) ++ failures_from (S i) l'
  end.

Definition failures := failures_from 0.

(** what the model expects to remain sealed under a private-class key after
    a conversion (compared through the complete dump; exposed for the evidence) *)
Definition model_residue (h : list op) : list hrow :=
  map hrow_of (filter (fun r => negb (clean_row r)) (dsk (run TaintSites.wo_strips_taproot h))).
