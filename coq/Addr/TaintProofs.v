(** C04 - proofs about the taint model [Addr/Taint.v]. *)
From Coq Require Import String.
From Verif Require Import Base.Prelude Addr.Taint.
Local Open Scope N_scope.

(* ------------------------------------------------------------ list/bool *)

Ltac bprop :=
  repeat (rewrite ?andb_true_iff, ?orb_true_iff, ?negb_true_iff, ?negb_false_iff,
                  ?andb_false_iff, ?orb_false_iff in *).

Ltac bsolve := bprop; intuition (try congruence).

Lemma Forall_flat_map_intro {A B} (P : B -> Prop) (f : A -> list B) l :
  (forall x, In x l -> Forall P (f x)) -> Forall P (flat_map f l).
Proof.
  induction l as [|x l IH]; simpl; intros H; [constructor|].
  apply Forall_app. split; [apply H; now left|apply IH; intros y Hy; apply H; now right].
Qed.

Lemma row_eta r : r = {| r_path := r_path r; r_key := r_key r; r_val := r_val r |}.
Proof. destruct r; reflexivity. Qed.

Lemma path_eqb_eq a b : path_eqb a b = true <-> a = b.
Proof. unfold path_eqb. destruct (list_eq_dec seg_eq_dec a b); split; congruence. Qed.

Lemma term_eqb_eq a b : term_eqb a b = true <-> a = b.
Proof. unfold term_eqb. destruct (term_eq_dec a b); split; congruence. Qed.

Lemma same_slot_iff p k r : same_slot p k r = true <-> r_path r = p /\ r_key r = k.
Proof.
  unfold same_slot. rewrite andb_true_iff, path_eqb_eq, term_eqb_eq. intuition congruence.
Qed.

Lemma same_slot_refl p k v : same_slot p k {| r_path := p; r_key := k; r_val := v |} = true.
Proof. apply same_slot_iff; auto. Qed.

(* ------------------------------------------------------- disk operations *)

Definition wP (P : row -> Prop) (w : write) : Prop :=
  match w with
  | WPut p k v => P {| r_path := p; r_key := k; r_val := v |}
  | WDel _ _ => True
  end.

Lemma Forall_del (P : row -> Prop) p k d : Forall P d -> Forall P (del p k d).
Proof. apply Forall_filter. Qed.

Lemma Forall_apply_write (P : row -> Prop) w d : Forall P d -> wP P w -> Forall P (apply_write w d).
Proof.
  destruct w; simpl; intros Hd Hw.
  - constructor; [exact Hw|apply Forall_del; exact Hd].
  - apply Forall_del; exact Hd.
Qed.

Lemma Forall_apply_writes (P : row -> Prop) ws : forall d,
  Forall P d -> Forall (wP P) ws -> Forall P (apply_writes ws d).
Proof.
  unfold apply_writes. induction ws as [|w ws IH]; simpl; intros d Hd Hw; [exact Hd|].
  inversion Hw; subst. apply IH; [apply Forall_apply_write; assumption|assumption].
Qed.

Lemma apply_writes_app ws1 ws2 d :
  apply_writes (ws1 ++ ws2) d = apply_writes ws2 (apply_writes ws1 d).
Proof. unfold apply_writes. apply fold_left_app. Qed.

Lemma find_some_in {A} (f : A -> bool) l x : find f l = Some x -> In x l /\ f x = true.
Proof. apply find_some. Qed.

Lemma get_in p k d v : get p k d = Some v -> In {| r_path := p; r_key := k; r_val := v |} d.
Proof.
  unfold get. destruct (find (same_slot p k) d) as [r|] eqn:E; simpl; [|discriminate].
  intros H. inversion H; subst. apply find_some in E. destruct E as [Hin Hs].
  apply same_slot_iff in Hs. destruct Hs as [<- <-]. rewrite <- row_eta. exact Hin.
Qed.

Definition wslot (w : write) : list seg * term :=
  match w with WPut p k _ => (p, k) | WDel p k => (p, k) end.

Definition wtouch (w : write) (r : row) : bool := same_slot (fst (wslot w)) (snd (wslot w)) r.

(** a row of the resulting disk was put by one of the writes, or is an old
    row that no write touched *)
Lemma in_apply_writes ws : forall d r,
  In r (apply_writes ws d) ->
  (exists p k v, In (WPut p k v) ws /\ r = {| r_path := p; r_key := k; r_val := v |})
  \/ (In r d /\ forall w, In w ws -> wtouch w r = false).
Proof.
  unfold apply_writes. induction ws as [|w ws IH]; simpl; intros d r H.
  - right. split; [exact H|intros w []].
  - apply IH in H. destruct H as [(p & k & v & Hin & ->)|[Hin Hno]].
    + left. exists p, k, v. split; [now right|reflexivity].
    + destruct w as [p k v|p k]; simpl in Hin.
      * destruct Hin as [<-|Hin].
        { left. exists p, k, v. split; [now left|reflexivity]. }
        { unfold del in Hin. apply filter_In in Hin. destruct Hin as [Hin Hs].
          right. split; [exact Hin|]. intros w [<-|Hw]; [|apply Hno; exact Hw].
          unfold wtouch; simpl. now apply negb_true_iff in Hs. }
      * unfold del in Hin. apply filter_In in Hin. destruct Hin as [Hin Hs].
        right. split; [exact Hin|]. intros w [<-|Hw]; [|apply Hno; exact Hw].
        unfold wtouch; simpl. now apply negb_true_iff in Hs.
Qed.

(** reading a slot that the writes leave alone *)
Definition slot_free (p : list seg) (k : term) (ws : list write) : bool :=
  forallb (fun w => negb (path_eqb p (fst (wslot w)) && term_eqb k (snd (wslot w)))) ws.

Lemma find_del_other p k p' k' d :
  path_eqb p p' && term_eqb k k' = false ->
  find (same_slot p k) (del p' k' d) = find (same_slot p k) d.
Proof.
  intros Hne. unfold del. induction d as [|r d IH]; simpl; [reflexivity|].
  destruct (same_slot p' k' r) eqn:E'; simpl.
  - destruct (same_slot p k r) eqn:E; [|exact IH].
    apply same_slot_iff in E. apply same_slot_iff in E'. destruct E as [E1 E2], E' as [E1' E2'].
    exfalso. assert (path_eqb p p' && term_eqb k k' = true); [|congruence].
    apply andb_true_iff. rewrite path_eqb_eq, term_eqb_eq. split; congruence.
  - destruct (same_slot p k r); [reflexivity|exact IH].
Qed.

Lemma get_apply_write_other p k w d :
  path_eqb p (fst (wslot w)) && term_eqb k (snd (wslot w)) = false ->
  get p k (apply_write w d) = get p k d.
Proof.
  intros Hne. unfold get. destruct w as [p' k' v|p' k']; simpl in *.
  - unfold put. simpl. unfold same_slot at 1. simpl. rewrite Hne.
    now rewrite find_del_other.
  - now rewrite find_del_other.
Qed.

Lemma get_apply_writes_free p k ws : forall d,
  slot_free p k ws = true -> get p k (apply_writes ws d) = get p k d.
Proof.
  unfold apply_writes. induction ws as [|w ws IH]; simpl; intros d H; [reflexivity|].
  apply andb_true_iff in H. destruct H as [Hw Hws]. apply negb_true_iff in Hw.
  rewrite IH by exact Hws. now apply get_apply_write_other.
Qed.

Lemma get_put_same p k v d : get p k (put p k v d) = Some v.
Proof. unfold get, put. simpl. now rewrite same_slot_refl. Qed.

Lemma slot_free_app p k a b : slot_free p k (a ++ b) = slot_free p k a && slot_free p k b.
Proof. unfold slot_free. apply forallb_app. Qed.

Lemma slot_free_flat_map {A} p k (f : A -> list write) l :
  (forall x, In x l -> slot_free p k (f x) = true) -> slot_free p k (flat_map f l) = true.
Proof.
  induction l as [|x l IH]; simpl; intros H; [reflexivity|].
  rewrite slot_free_app, H by (now left). simpl. apply IH. intros y Hy. apply H. now right.
Qed.

(** [has] survives writes that do not delete the slot *)
Definition no_del_at (p : list seg) (k : term) (ws : list write) : bool :=
  forallb (fun w => match w with
                    | WDel p' k' => negb (path_eqb p p' && term_eqb k k')
                    | WPut _ _ _ => true
                    end) ws.

Lemma has_iff p k d : has p k d = true <-> exists r, In r d /\ r_path r = p /\ r_key r = k.
Proof.
  unfold has. rewrite existsb_exists. split; intros (r & Hin & H); exists r; split; auto;
    now apply same_slot_iff.
Qed.

Lemma has_apply_write p k w d :
  match w with WDel p' k' => path_eqb p p' && term_eqb k k' = false | _ => True end ->
  has p k d = true -> has p k (apply_write w d) = true.
Proof.
  intros Hw H. apply has_iff in H. destruct H as (r & Hin & Hp & Hk). apply has_iff.
  destruct w as [p' k' v|p' k']; simpl.
  - destruct (same_slot p' k' r) eqn:E.
    + apply same_slot_iff in E. destruct E as [E1 E2].
      exists {| r_path := p'; r_key := k'; r_val := v |}. simpl. split; [now left|]. split; congruence.
    + exists r. split; [right; unfold del; apply filter_In; split; [exact Hin|now rewrite E]|auto].
  - exists r. split; [|auto]. unfold del. apply filter_In. split; [exact Hin|].
    apply negb_true_iff. destruct (same_slot p' k' r) eqn:E; [|reflexivity].
    apply same_slot_iff in E. destruct E as [E1 E2]. exfalso.
    assert (path_eqb p p' && term_eqb k k' = true); [|congruence].
    apply andb_true_iff. rewrite path_eqb_eq, term_eqb_eq. split; congruence.
Qed.

Lemma has_apply_writes p k ws : forall d,
  no_del_at p k ws = true -> has p k d = true -> has p k (apply_writes ws d) = true.
Proof.
  unfold apply_writes. induction ws as [|w ws IH]; simpl; intros d Hn H; [exact H|].
  apply andb_true_iff in Hn. destruct Hn as [Hw Hws]. apply IH; [exact Hws|].
  apply has_apply_write; [|exact H]. destruct w; [exact I|]. now apply negb_true_iff in Hw.
Qed.

Lemma no_del_at_app p k a b : no_del_at p k (a ++ b) = no_del_at p k a && no_del_at p k b.
Proof. unfold no_del_at. apply forallb_app. Qed.

Lemma no_del_at_flat_map {A} p k (f : A -> list write) l :
  (forall x, In x l -> no_del_at p k (f x) = true) -> no_del_at p k (flat_map f l) = true.
Proof.
  induction l as [|x l IH]; simpl; intros H; [reflexivity|].
  rewrite no_del_at_app, H by (now left). simpl. apply IH. intros y Hy. apply H. now right.
Qed.

(* ------------------------------------------- what [ok] means (soundness) *)

Inductive wrap := WEnc (k : keyid) | WOneWay.

(** [occurs a c t]: atom [a] occurs in [t] below the wrappers [c]
    (outermost first) *)
Inductive occurs : atom -> list wrap -> term -> Prop :=
| occ_clear a : occurs a [] (Clear a)
| occ_enc a c k t : occurs a c t -> occurs a (WEnc k :: c) (Enc k t)
| occ_hash a c t : occurs a c t -> occurs a (WOneWay :: c) (Hash t)
| occ_kdf a c t : occurs a c t -> occurs a (WOneWay :: c) (Kdf t)
| occ_cat_l a c t1 t2 : occurs a c t1 -> occurs a c (Cat t1 t2)
| occ_cat_r a c t1 t2 : occurs a c t2 -> occurs a c (Cat t1 t2).

(** the rule of the property for one occurrence *)
Definition allowed (strict : bool) (a : atom) (c : list wrap) : Prop :=
  match class_of strict a with
  | Passphrase => In WOneWay c
  | Secret => exists k, In (WEnc k) c /\ priv_key strict k = true
  | Sensitive => (exists k, In (WEnc k) c) \/ In WOneWay c
  | Public => True
  end.

Definition allowed_ctx (strict upriv uany hashed : bool) (a : atom) (c : list wrap) : Prop :=
  match class_of strict a with
  | Passphrase => hashed = true \/ In WOneWay c
  | Secret => upriv = true \/ exists k, In (WEnc k) c /\ priv_key strict k = true
  | Sensitive => uany = true \/ hashed = true \/ (exists k, In (WEnc k) c) \/ In WOneWay c
  | Public => True
  end.

Lemma ok_sound_ctx strict a c t : occurs a c t -> forall upriv uany hashed,
  ok strict upriv uany hashed t = true -> allowed_ctx strict upriv uany hashed a c.
Proof.
  induction 1 as [a|a c k t Hoc IH|a c t Hoc IH|a c t Hoc IH|a c t1 t2 Hoc IH|a c t1 t2 Hoc IH];
    simpl; intros upriv uany hashed Hok.
  - unfold allowed_ctx. destruct (class_of strict a); auto.
    apply orb_true_iff in Hok. destruct Hok; auto.
  - specialize (IH _ _ _ Hok). unfold allowed_ctx in *.
    destruct (class_of strict a); auto.
    + destruct IH as [H|H]; [left; exact H|right; now right].
    + destruct IH as [H|(k' & Hin & Hp)].
      * apply orb_true_iff in H. destruct H as [H|H]; [left; exact H|].
        right. exists k. split; [now left|exact H].
      * right. exists k'. split; [now right|exact Hp].
    + destruct IH as [_|[H|[(k' & Hin)|H]]].
      * right. right. left. exists k. now left.
      * right. left. exact H.
      * right. right. left. exists k'. now right.
      * right. right. right. now right.
  - specialize (IH _ _ _ Hok). unfold allowed_ctx in *.
    destruct (class_of strict a); auto.
    + right. now left.
    + destruct IH as [H|(k' & Hin & Hp)]; [left; exact H|right; exists k'; split; [now right|exact Hp]].
    + right. right. right. now left.
  - specialize (IH _ _ _ Hok). unfold allowed_ctx in *.
    destruct (class_of strict a); auto.
    + right. now left.
    + destruct IH as [H|(k' & Hin & Hp)]; [left; exact H|right; exists k'; split; [now right|exact Hp]].
    + right. right. right. now left.
  - apply andb_true_iff in Hok. destruct Hok as [H1 H2]. now apply IH.
  - apply andb_true_iff in Hok. destruct Hok as [H1 H2]. now apply IH.
Qed.

Lemma ok_sound strict t :
  ok strict false false false t = true -> forall a c, occurs a c t -> allowed strict a c.
Proof.
  intros Hok a c Hoc. pose proof (ok_sound_ctx strict a c t Hoc _ _ _ Hok) as H.
  unfold allowed_ctx, allowed in *. destruct (class_of strict a); auto.
  - destruct H; [discriminate|assumption].
  - destruct H; [discriminate|assumption].
  - destruct H as [H|[H|H]]; [discriminate|discriminate|assumption].
Qed.

Lemma has_private_sound a c t : occurs a c t -> has_private t = false -> private_atom a = false.
Proof.
  induction 1; simpl; intros Hf; auto;
    apply orb_false_iff in Hf; destruct Hf; auto.
Qed.

Lemma mentions_sound p a c t : occurs a c t -> mentions p t = false -> p a = false.
Proof.
  induction 1; simpl; intros Hf; auto;
    apply orb_false_iff in Hf; destruct Hf; auto.
Qed.

(* -------------------------------------------------------- the invariant *)

Definition is_main_private (r : row) : bool :=
  match r_path r, r_key r with
  | [BMain], Clear (UStr k) => existsb (fun k' => if string_dec k k' then true else false) main_private_keys
  | _, _ => false
  end.

(** after conversion: clean, except (when the code does not strip them)
    secret taproot script rows *)
Definition resid (strip_tr : bool) (r : row) : bool :=
  clean_row r || (negb strip_tr && tr_secret_row r).

(** before conversion: converting would remove or clean the row *)
Definition jrow (strip_tr : bool) (r : row) : bool :=
  is_ctpriv r || is_main_private r ||
  match strip_val strip_tr (r_path r) (r_val r) with
  | Some v' => clean_row {| r_path := r_path r; r_key := r_key r; r_val := v' |}
  | None => resid strip_tr r
  end.

(** [allow_tr = false]: histories that import no secret taproot script *)
Definition good_row (strip_tr allow_tr w : bool) (r : row) : bool :=
  ok_row false r && ok_row true r && avoids_never r
  && (allow_tr || negb (tr_secret_row r))
  && (if w then resid strip_tr r else jrow strip_tr r).

Definition gP (strip_tr allow_tr w : bool) (r : row) : Prop := good_row strip_tr allow_tr w r = true.

Record Inv (strip_tr allow_tr : bool) (st : state) : Prop := {
  inv_rows : Forall (gP strip_tr allow_tr (wo st)) (dsk st);
  inv_wo : created st = true -> wo st = disk_wo (dsk st);
  inv_fresh : created st = false -> wo st = false /\ dsk st = []
}.

Definition secret_taproot_import (o : op) : bool :=
  match o with OImportScript _ _ _ (KTaproot true) => true | _ => false end.

Definition admissible (allow_tr : bool) (o : op) : bool := allow_tr || negb (secret_taproot_import o).

(* ---- characterisation of strip_val ------------------------------------ *)

Inductive strip_shape (strip_tr : bool) : list seg -> list term -> list term -> Prop :=
| ss_acct s c1 pub c2 x e i nm :
    strip_shape strip_tr [BScope; BScopeOf s; BAcct]
      [Clear (UTag 0); c1; pub; c2; x; e; i; nm] [Clear (UTag 0); c1; pub; c2; Const 0; e; i; nm]
| ss_import s h c1 pub c2 x :
    strip_shape strip_tr [BScope; BScopeOf s; BAddr]
      [Clear (UTag 1); h; c1; pub; c2; x] [Clear (UTag 1); h; c1; pub; c2; Const 0]
| ss_script s h c1 hs c2 x :
    strip_shape strip_tr [BScope; BScopeOf s; BAddr]
      [Clear (UTag 2); h; c1; hs; c2; x] [Clear (UTag 2); h; c1; hs; c2; Const 0]
| ss_wscript s h ver c1 hs c2 x :
    strip_shape strip_tr [BScope; BScopeOf s; BAddr]
      [Clear (UTag 3); h; ver; Clear (UFlag true); c1; hs; c2; x]
      [Clear (UTag 3); h; ver; Clear (UFlag true); c1; hs; c2; Const 0]
| ss_taproot s h ver c1 hs c2 x :
    strip_tr = true ->
    strip_shape strip_tr [BScope; BScopeOf s; BAddr]
      [Clear (UTag 4); h; ver; Clear (UFlag true); c1; hs; c2; x]
      [Clear (UTag 4); h; ver; Clear (UFlag true); c1; hs; c2; Const 0].

Ltac prune H :=
  repeat (cbv beta iota in H;
          match type of H with
          | match ?x with _ => _ end = Some _ => destruct x; try discriminate H
          | (if ?x then _ else _) = Some _ => destruct x eqn:?; try discriminate H
          end).

Lemma strip_val_shape strip_tr p v v' :
  strip_val strip_tr p v = Some v' -> strip_shape strip_tr p v v'.
Proof.
  intros H. unfold strip_val in H. prune H; inversion H; subst; constructor; auto.
Qed.

(* ---- rows produced by the conversion ---------------------------------- *)

Ltac unfold_good :=
  unfold gP, good_row, jrow, resid, ok_row, clean_row, avoids_never, tr_secret_row,
         is_ctpriv, is_main_private, fields in *.

Lemma stripped_good sp al p k v v' :
  strip_shape sp p v v' ->
  gP sp al false {| r_path := p; r_key := k; r_val := v |} ->
  gP sp al true {| r_path := p; r_key := k; r_val := v' |}.
Proof.
  intros Hs. inversion Hs; subst; unfold_good; simpl; intros H; bsolve.
Qed.

Lemma strip_shape_path sp p v v' : strip_shape sp p v v' ->
  exists s b, p = [BScope; BScopeOf s; b].
Proof. inversion 1; eauto. Qed.

Lemma wtouch_self_put r v : wtouch (WPut (r_path r) (r_key r) v) r = true.
Proof. unfold wtouch; simpl. apply same_slot_iff; auto. Qed.

Lemma wtouch_self_del r : wtouch (WDel (r_path r) (r_key r)) r = true.
Proof. unfold wtouch; simpl. apply same_slot_iff; auto. Qed.

Lemma is_main_private_del r :
  is_main_private r = true -> In (WDel (r_path r) (r_key r)) (map (fun k => WDel [BMain] (kstr k)) main_private_keys).
Proof.
  unfold is_main_private. destruct r as [p k v]; simpl.
  destruct p as [|[] [|]]; try discriminate. destruct k as [| | |[]| |]; try discriminate.
  intros H. unfold main_private_keys. simpl.
  repeat match type of H with
         | (if string_dec ?a ?b then true else false) || _ = true =>
           destruct (string_dec a b); [subst; simpl; auto 10|simpl in H]
         end.
  discriminate.
Qed.

Lemma convert_good sp al d :
  Forall (gP sp al false) d -> Forall (gP sp al true) (apply_writes (w_convert sp d) d).
Proof.
  intros Hd. rewrite Forall_forall in *. intros r Hin.
  apply in_apply_writes in Hin. destruct Hin as [(p & k & v & Hw & ->)|[Hin Hno]].
  - unfold w_convert in Hw. apply in_app_or in Hw. destruct Hw as [Hw|Hw].
    { apply in_map_iff in Hw. destruct Hw as (? & Hw & _). discriminate. }
    apply in_app_or in Hw. destruct Hw as [Hw|Hw].
    + apply in_flat_map in Hw. destruct Hw as (r0 & Hr0 & Hw).
      unfold conv_row in Hw. destruct (is_ctpriv r0); [destruct Hw as [Hw|[]]; discriminate|].
      destruct (strip_val sp (r_path r0) (r_val r0)) as [v'|] eqn:E; [|destruct Hw].
      destruct Hw as [Hw|[]]. inversion Hw; subst.
      apply stripped_good with (v := r_val r0); [now apply strip_val_shape|].
      rewrite <- row_eta. now apply Hd.
    + destruct Hw as [Hw|[]]. inversion Hw; subst.
      unfold gP. destruct sp, al; reflexivity.
  - pose proof (Hd r Hin) as Hg. unfold gP, good_row in *.
    apply andb_true_iff in Hg. destruct Hg as [Hrest Hj]. rewrite Hrest. simpl.
    unfold jrow in Hj. apply orb_true_iff in Hj. destruct Hj as [Hj|Hj].
    + apply orb_true_iff in Hj. destruct Hj as [Hj|Hj]; exfalso.
      * assert (Ht : wtouch (WDel (r_path r) (r_key r)) r = false).
        { apply Hno. unfold w_convert. apply in_or_app. right. apply in_or_app. left.
          apply in_flat_map. exists r. split; [exact Hin|]. unfold conv_row. rewrite Hj. now left. }
        rewrite wtouch_self_del in Ht. discriminate.
      * assert (Ht : wtouch (WDel (r_path r) (r_key r)) r = false).
        { apply Hno. unfold w_convert. apply in_or_app. left. now apply is_main_private_del. }
        rewrite wtouch_self_del in Ht. discriminate.
    + destruct (strip_val sp (r_path r) (r_val r)) as [v'|] eqn:E; [exfalso|exact Hj].
      destruct (is_ctpriv r) eqn:Ec.
      * assert (Ht : wtouch (WDel (r_path r) (r_key r)) r = false).
        { apply Hno. unfold w_convert. apply in_or_app. right. apply in_or_app. left.
          apply in_flat_map. exists r. split; [exact Hin|]. unfold conv_row. rewrite Ec. now left. }
        rewrite wtouch_self_del in Ht. discriminate.
      * assert (Ht : wtouch (WPut (r_path r) (r_key r) v') r = false).
        { apply Hno. unfold w_convert. apply in_or_app. right. apply in_or_app. left.
          apply in_flat_map. exists r. split; [exact Hin|]. unfold conv_row. rewrite Ec, E. now left. }
        rewrite wtouch_self_put in Ht. discriminate.
Qed.
