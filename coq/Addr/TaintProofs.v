(** C04 - proofs about the taint model [Addr/Taint.v]. *)
From Coq Require Import String.
From Verif Require Import Base.Prelude Addr.Taint.
Local Open Scope N_scope.

(* ------------------------------------------------------------ list/bool *)

Ltac bprop :=
  repeat (rewrite ?andb_true_iff, ?orb_true_iff, ?negb_true_iff, ?negb_false_iff,
                  ?andb_false_iff, ?orb_false_iff in *).

Ltac bsolve := bprop; intuition (try congruence).

Lemma Forall_flat_map_intro {A B} (P : B -> Prop) (f : A -> list B) l :
  (forall x, In x l -> Forall P (f x)) -> Forall P (flat_map f l).
Proof.
  induction l as [|x l IH]; simpl; intros H; [constructor|].
  apply Forall_app. split; [apply H; now left|apply IH; intros y Hy; apply H; now right].
Qed.

Lemma row_eta r : r = {| r_path := r_path r; r_key := r_key r; r_val := r_val r |}.
Proof. destruct r; reflexivity. Qed.

Lemma path_eqb_eq a b : path_eqb a b = true <-> a = b.
Proof. unfold path_eqb. destruct (list_eq_dec seg_eq_dec a b); split; congruence. Qed.

Lemma term_eqb_eq a b : term_eqb a b = true <-> a = b.
Proof. unfold term_eqb. destruct (term_eq_dec a b); split; congruence. Qed.

Lemma same_slot_iff p k r : same_slot p k r = true <-> r_path r = p /\ r_key r = k.
Proof.
  unfold same_slot. rewrite andb_true_iff, path_eqb_eq, term_eqb_eq. intuition congruence.
Qed.

Lemma same_slot_refl p k v : same_slot p k {| r_path := p; r_key := k; r_val := v |} = true.
Proof. apply same_slot_iff; auto. Qed.

(* ------------------------------------------------------- disk operations *)

Definition wP (P : row -> Prop) (w : write) : Prop :=
  match w with
  | WPut p k v => P {| r_path := p; r_key := k; r_val := v |}
  | WDel _ _ => True
  end.

Lemma Forall_del (P : row -> Prop) p k d : Forall P d -> Forall P (del p k d).
Proof. apply Forall_filter. Qed.

Lemma Forall_apply_write (P : row -> Prop) w d : Forall P d -> wP P w -> Forall P (apply_write w d).
Proof.
  destruct w; simpl; intros Hd Hw.
  - constructor; [exact Hw|apply Forall_del; exact Hd].
  - apply Forall_del; exact Hd.
Qed.

Lemma Forall_apply_writes (P : row -> Prop) ws : forall d,
  Forall P d -> Forall (wP P) ws -> Forall P (apply_writes ws d).
Proof.
  unfold apply_writes. induction ws as [|w ws IH]; simpl; intros d Hd Hw; [exact Hd|].
  inversion Hw; subst. apply IH; [apply Forall_apply_write; assumption|assumption].
Qed.

Lemma apply_writes_app ws1 ws2 d :
  apply_writes (ws1 ++ ws2) d = apply_writes ws2 (apply_writes ws1 d).
Proof. unfold apply_writes. apply fold_left_app. Qed.

Lemma find_some_in {A} (f : A -> bool) l x : find f l = Some x -> In x l /\ f x = true.
Proof. apply find_some. Qed.

Lemma get_in p k d v : get p k d = Some v -> In {| r_path := p; r_key := k; r_val := v |} d.
Proof.
  unfold get. destruct (find (same_slot p k) d) as [r|] eqn:E; simpl; [|discriminate].
  intros H. inversion H; subst. apply find_some in E. destruct E as [Hin Hs].
  apply same_slot_iff in Hs. destruct Hs as [<- <-]. rewrite <- row_eta. exact Hin.
Qed.

Definition wslot (w : write) : list seg * term :=
  match w with WPut p k _ => (p, k) | WDel p k => (p, k) end.

Definition wtouch (w : write) (r : row) : bool := same_slot (fst (wslot w)) (snd (wslot w)) r.

(** a row of the resulting disk was put by one of the writes, or is an old
    row that no write touched *)
Lemma in_apply_writes ws : forall d r,
  In r (apply_writes ws d) ->
  (exists p k v, In (WPut p k v) ws /\ r = {| r_path := p; r_key := k; r_val := v |})
  \/ (In r d /\ forall w, In w ws -> wtouch w r = false).
Proof.
  unfold apply_writes. induction ws as [|w ws IH]; simpl; intros d r H.
  - right. split; [exact H|intros w []].
  - apply IH in H. destruct H as [(p & k & v & Hin & ->)|[Hin Hno]].
    + left. exists p, k, v. split; [now right|reflexivity].
    + destruct w as [p k v|p k]; simpl in Hin.
      * destruct Hin as [<-|Hin].
        { left. exists p, k, v. split; [now left|reflexivity]. }
        { unfold del in Hin. apply filter_In in Hin. destruct Hin as [Hin Hs].
          right. split; [exact Hin|]. intros w [<-|Hw]; [|apply Hno; exact Hw].
          unfold wtouch; simpl. now apply negb_true_iff in Hs. }
      * unfold del in Hin. apply filter_In in Hin. destruct Hin as [Hin Hs].
        right. split; [exact Hin|]. intros w [<-|Hw]; [|apply Hno; exact Hw].
        unfold wtouch; simpl. now apply negb_true_iff in Hs.
Qed.

(** reading a slot that the writes leave alone *)
Definition slot_free (p : list seg) (k : term) (ws : list write) : bool :=
  forallb (fun w => negb (path_eqb p (fst (wslot w)) && term_eqb k (snd (wslot w)))) ws.

Lemma find_del_other p k p' k' d :
  path_eqb p p' && term_eqb k k' = false ->
  find (same_slot p k) (del p' k' d) = find (same_slot p k) d.
Proof.
  intros Hne. unfold del. induction d as [|r d IH]; simpl; [reflexivity|].
  destruct (same_slot p' k' r) eqn:E'; simpl.
  - destruct (same_slot p k r) eqn:E; [|exact IH].
    apply same_slot_iff in E. apply same_slot_iff in E'. destruct E as [E1 E2], E' as [E1' E2'].
    exfalso. assert (path_eqb p p' && term_eqb k k' = true); [|congruence].
    apply andb_true_iff. rewrite path_eqb_eq, term_eqb_eq. split; congruence.
  - destruct (same_slot p k r); [reflexivity|exact IH].
Qed.

Lemma get_apply_write_other p k w d :
  path_eqb p (fst (wslot w)) && term_eqb k (snd (wslot w)) = false ->
  get p k (apply_write w d) = get p k d.
Proof.
  intros Hne. unfold get. destruct w as [p' k' v|p' k']; simpl in *.
  - unfold put. simpl. unfold same_slot at 1. simpl. rewrite Hne.
    now rewrite find_del_other.
  - now rewrite find_del_other.
Qed.

Lemma get_apply_writes_free p k ws : forall d,
  slot_free p k ws = true -> get p k (apply_writes ws d) = get p k d.
Proof.
  unfold apply_writes. induction ws as [|w ws IH]; simpl; intros d H; [reflexivity|].
  apply andb_true_iff in H. destruct H as [Hw Hws]. apply negb_true_iff in Hw.
  rewrite IH by exact Hws. now apply get_apply_write_other.
Qed.

Lemma get_put_same p k v d : get p k (put p k v d) = Some v.
Proof. unfold get, put. simpl. now rewrite same_slot_refl. Qed.

Lemma find_del_same p k d : find (same_slot p k) (del p k d) = None.
Proof.
  unfold del. induction d as [|r d IH]; simpl; [reflexivity|].
  destruct (same_slot p k r) eqn:E; simpl; [exact IH|]. rewrite E. exact IH.
Qed.

(** reading a slot after a list of writes: the last write to the slot wins *)
Definition upd (p : list seg) (k : term) (r : option (list term)) (w : write) : option (list term) :=
  if path_eqb p (fst (wslot w)) && term_eqb k (snd (wslot w))
  then match w with WPut _ _ v => Some v | WDel _ _ => None end
  else r.

Lemma get_apply_write p k w d : get p k (apply_write w d) = upd p k (get p k d) w.
Proof.
  unfold upd. destruct (path_eqb p (fst (wslot w)) && term_eqb k (snd (wslot w))) eqn:E.
  - apply andb_true_iff in E. destruct E as [E1 E2]. apply path_eqb_eq in E1. apply term_eqb_eq in E2.
    destruct w as [p' k' v|p' k']; simpl in *; subst.
    + apply get_put_same.
    + unfold get. now rewrite find_del_same.
  - now apply get_apply_write_other.
Qed.

Lemma get_apply_writes p k ws : forall d,
  get p k (apply_writes ws d) = fold_left (upd p k) ws (get p k d).
Proof.
  unfold apply_writes. induction ws as [|w ws IH]; simpl; intros d; [reflexivity|].
  rewrite IH. now rewrite get_apply_write.
Qed.

Lemma slot_free_app p k a b : slot_free p k (a ++ b) = slot_free p k a && slot_free p k b.
Proof. unfold slot_free. apply forallb_app. Qed.

Lemma slot_free_flat_map {A} p k (f : A -> list write) l :
  (forall x, In x l -> slot_free p k (f x) = true) -> slot_free p k (flat_map f l) = true.
Proof.
  induction l as [|x l IH]; simpl; intros H; [reflexivity|].
  rewrite slot_free_app, H by (now left). simpl. apply IH. intros y Hy. apply H. now right.
Qed.

(** [has] survives writes that do not delete the slot *)
Definition no_del_at (p : list seg) (k : term) (ws : list write) : bool :=
  forallb (fun w => match w with
                    | WDel p' k' => negb (term_eqb k k' && path_eqb p p')
                    | WPut _ _ _ => true
                    end) ws.

Lemma has_iff p k d : has p k d = true <-> exists r, In r d /\ r_path r = p /\ r_key r = k.
Proof.
  unfold has. rewrite existsb_exists. split; intros (r & Hin & H); exists r; split; auto;
    now apply same_slot_iff.
Qed.

Lemma has_apply_write p k w d :
  match w with WDel p' k' => term_eqb k k' && path_eqb p p' = false | _ => True end ->
  has p k d = true -> has p k (apply_write w d) = true.
Proof.
  intros Hw H. apply has_iff in H. destruct H as (r & Hin & Hp & Hk). apply has_iff.
  destruct w as [p' k' v|p' k']; simpl.
  - destruct (same_slot p' k' r) eqn:E.
    + apply same_slot_iff in E. destruct E as [E1 E2].
      exists {| r_path := p'; r_key := k'; r_val := v |}. simpl. split; [now left|]. split; congruence.
    + exists r. split; [right; unfold del; apply filter_In; split; [exact Hin|now rewrite E]|auto].
  - exists r. split; [|auto]. unfold del. apply filter_In. split; [exact Hin|].
    apply negb_true_iff. destruct (same_slot p' k' r) eqn:E; [|reflexivity].
    apply same_slot_iff in E. destruct E as [E1 E2]. exfalso.
    assert (term_eqb k k' && path_eqb p p' = true); [|congruence].
    apply andb_true_iff. rewrite path_eqb_eq, term_eqb_eq. split; congruence.
Qed.

Lemma has_apply_writes p k ws : forall d,
  no_del_at p k ws = true -> has p k d = true -> has p k (apply_writes ws d) = true.
Proof.
  unfold apply_writes. induction ws as [|w ws IH]; simpl; intros d Hn H; [exact H|].
  apply andb_true_iff in Hn. destruct Hn as [Hw Hws]. apply IH; [exact Hws|].
  apply has_apply_write; [|exact H]. destruct w; [exact I|]. now apply negb_true_iff in Hw.
Qed.

Lemma no_del_at_app p k a b : no_del_at p k (a ++ b) = no_del_at p k a && no_del_at p k b.
Proof. unfold no_del_at. apply forallb_app. Qed.

Lemma no_del_at_flat_map {A} p k (f : A -> list write) l :
  (forall x, In x l -> no_del_at p k (f x) = true) -> no_del_at p k (flat_map f l) = true.
Proof.
  induction l as [|x l IH]; simpl; intros H; [reflexivity|].
  rewrite no_del_at_app, H by (now left). simpl. apply IH. intros y Hy. apply H. now right.
Qed.

(* ------------------------------------------- what [ok] means (soundness) *)

Inductive wrap := WEnc (k : keyid) | WOneWay.

(** [occurs a c t]: atom [a] occurs in [t] below the wrappers [c]
    (outermost first) *)
Inductive occurs : atom -> list wrap -> term -> Prop :=
| occ_clear a : occurs a [] (Clear a)
| occ_enc a c k t : occurs a c t -> occurs a (WEnc k :: c) (Enc k t)
| occ_hash a c t : occurs a c t -> occurs a (WOneWay :: c) (Hash t)
| occ_kdf a c t : occurs a c t -> occurs a (WOneWay :: c) (Kdf t)
| occ_cat_l a c t1 t2 : occurs a c t1 -> occurs a c (Cat t1 t2)
| occ_cat_r a c t1 t2 : occurs a c t2 -> occurs a c (Cat t1 t2).

(** the rule of the property for one occurrence *)
Definition allowed (strict : bool) (a : atom) (c : list wrap) : Prop :=
  match class_of strict a with
  | Passphrase => In WOneWay c
  | Secret => exists k, In (WEnc k) c /\ priv_key strict k = true
  | Sensitive => (exists k, In (WEnc k) c) \/ In WOneWay c
  | Public => True
  end.

Definition allowed_ctx (strict upriv uany hashed : bool) (a : atom) (c : list wrap) : Prop :=
  match class_of strict a with
  | Passphrase => hashed = true \/ In WOneWay c
  | Secret => upriv = true \/ exists k, In (WEnc k) c /\ priv_key strict k = true
  | Sensitive => uany = true \/ hashed = true \/ (exists k, In (WEnc k) c) \/ In WOneWay c
  | Public => True
  end.

Lemma ok_sound_ctx strict a c t : occurs a c t -> forall upriv uany hashed,
  ok strict upriv uany hashed t = true -> allowed_ctx strict upriv uany hashed a c.
Proof.
  induction 1 as [a|a c k t Hoc IH|a c t Hoc IH|a c t Hoc IH|a c t1 t2 Hoc IH|a c t1 t2 Hoc IH];
    simpl; intros upriv uany hashed Hok.
  - unfold allowed_ctx. destruct (class_of strict a); auto.
    apply orb_true_iff in Hok. destruct Hok; auto.
  - specialize (IH _ _ _ Hok). unfold allowed_ctx in *.
    destruct (class_of strict a); auto.
    + destruct IH as [H|H]; [left; exact H|right; now right].
    + destruct IH as [H|(k' & Hin & Hp)].
      * apply orb_true_iff in H. destruct H as [H|H]; [left; exact H|].
        right. exists k. split; [now left|exact H].
      * right. exists k'. split; [now right|exact Hp].
    + destruct IH as [_|[H|[(k' & Hin)|H]]].
      * right. right. left. exists k. now left.
      * right. left. exact H.
      * right. right. left. exists k'. now right.
      * right. right. right. now right.
  - specialize (IH _ _ _ Hok). unfold allowed_ctx in *.
    destruct (class_of strict a); auto.
    + right. now left.
    + destruct IH as [H|(k' & Hin & Hp)]; [left; exact H|right; exists k'; split; [now right|exact Hp]].
    + right. right. right. now left.
  - specialize (IH _ _ _ Hok). unfold allowed_ctx in *.
    destruct (class_of strict a); auto.
    + right. now left.
    + destruct IH as [H|(k' & Hin & Hp)]; [left; exact H|right; exists k'; split; [now right|exact Hp]].
    + right. right. right. now left.
  - apply andb_true_iff in Hok. destruct Hok as [H1 H2]. now apply IH.
  - apply andb_true_iff in Hok. destruct Hok as [H1 H2]. now apply IH.
Qed.

Lemma ok_sound strict t :
  ok strict false false false t = true -> forall a c, occurs a c t -> allowed strict a c.
Proof.
  intros Hok a c Hoc. pose proof (ok_sound_ctx strict a c t Hoc _ _ _ Hok) as H.
  unfold allowed_ctx, allowed in *. destruct (class_of strict a); auto.
  - destruct H; [discriminate|assumption].
  - destruct H; [discriminate|assumption].
  - destruct H as [H|[H|H]]; [discriminate|discriminate|assumption].
Qed.

Lemma has_private_sound a c t : occurs a c t -> has_private t = false -> private_atom a = false.
Proof.
  induction 1; simpl; intros Hf; auto;
    apply orb_false_iff in Hf; destruct Hf; auto.
Qed.

Lemma mentions_sound p a c t : occurs a c t -> mentions p t = false -> p a = false.
Proof.
  induction 1; simpl; intros Hf; auto;
    apply orb_false_iff in Hf; destruct Hf; auto.
Qed.

(* ------------------------------------------- the sealing-site table [T] *)

(** Everything the proofs know about a sealed field [sealT T s x]: the three
    facts below, for every table that passes [table_ok]. *)

Lemma in_all_sites s : In s all_sites.
Proof. destruct s; unfold all_sites; simpl; repeat (first [left; reflexivity|right]). Qed.

Lemma table_ok_entry T s : table_ok T = true -> entry_ok s (T s) = true.
Proof. unfold table_ok. rewrite forallb_forall. intros H. apply H. apply in_all_sites. Qed.

Lemma class_of_atom_of strict c x : class_of strict (atom_of c x) = cclass strict c.
Proof. destruct c; reflexivity. Qed.

Lemma private_atom_of c x : private_atom (atom_of c x) = content_private c.
Proof. destruct c; reflexivity. Qed.

Lemma never_atom_of c x : never_atom (atom_of c x) = content_never c.
Proof. destruct c; reflexivity. Qed.

Lemma ok_seal T (HT : table_ok T = true) strict s x :
  ok strict false false false (sealT T s x) = true.
Proof.
  pose proof (table_ok_entry T s HT) as He. unfold entry_ok, entry_safe in He.
  apply andb_true_iff in He. destruct He as [He _].
  apply andb_true_iff in He. destruct He as [He _].
  apply andb_true_iff in He. destruct He as [H0 H1].
  assert (Hs : seal_ok_for strict (T s) = true) by (destruct strict; assumption).
  unfold sealT. cbn [ok orb]. rewrite class_of_atom_of.
  unfold seal_ok_for in Hs. destruct (cclass strict (e_content (T s)));
    [discriminate Hs|exact Hs|reflexivity|reflexivity].
Qed.

Lemma never_seal T (HT : table_ok T = true) s x : mentions never_atom (sealT T s x) = false.
Proof.
  pose proof (table_ok_entry T s HT) as He. unfold entry_ok, entry_safe in He.
  apply andb_true_iff in He. destruct He as [He _].
  apply andb_true_iff in He. destruct He as [_ Hn]. apply negb_true_iff in Hn.
  unfold sealT. cbn [mentions]. rewrite never_atom_of. exact Hn.
Qed.

Lemma priv_seal T (HT : table_ok T = true) s x :
  site_survives s = true -> has_private (sealT T s x) = false.
Proof.
  intros Hs. pose proof (table_ok_entry T s HT) as He. unfold entry_ok in He.
  apply andb_true_iff in He. destruct He as [_ Hp]. rewrite Hs in Hp. simpl in Hp.
  apply negb_true_iff in Hp.
  unfold sealT. cbn [has_private]. rewrite private_atom_of. exact Hp.
Qed.

(** from here on a sealed field is a black box *)
Local Arguments sealT : simpl never.
Local Opaque sealT.

(** rewrite the three facts wherever they apply ([priv_seal] only at the
    sites that survive a conversion) *)
Ltac seal_rewrite HT :=
  rewrite ?(ok_seal _ HT), ?(never_seal _ HT);
  repeat match goal with
         | |- context [has_private (sealT ?T ?s ?x)] => rewrite (priv_seal T HT s x) by reflexivity
         end.

(* -------------------------------------------------------- the invariant *)

Definition is_main_private (r : row) : bool :=
  match r_path r, r_key r with
  | [BMain], Clear (UStr k) => existsb (fun k' => if string_dec k k' then true else false) main_private_keys
  | _, _ => false
  end.

(** after conversion: clean, except (when the code does not strip them)
    secret taproot script rows *)
Definition resid (strip_tr : bool) (r : row) : bool :=
  clean_row r || (negb strip_tr && tr_secret_row r).

(** before conversion: converting would remove or clean the row *)
Definition jrow (strip_tr : bool) (r : row) : bool :=
  is_ctpriv r || is_main_private r ||
  match strip_val strip_tr (r_path r) (r_val r) with
  | Some v' => clean_row {| r_path := r_path r; r_key := r_key r; r_val := v' |}
  | None => resid strip_tr r
  end.

(** [allow_tr = false]: histories that import no secret taproot script *)
Definition good_row (strip_tr allow_tr w : bool) (r : row) : bool :=
  ok_row false r && ok_row true r && avoids_never r
  && (allow_tr || negb (tr_secret_row r))
  && (if w then resid strip_tr r else jrow strip_tr r).

Definition gP (strip_tr allow_tr w : bool) (r : row) : Prop := good_row strip_tr allow_tr w r = true.

Record Inv (strip_tr allow_tr : bool) (st : state) : Prop := {
  inv_rows : Forall (gP strip_tr allow_tr (wo st)) (dsk st);
  inv_wo : created st = true -> wo st = disk_wo (dsk st);
  inv_fresh : created st = false -> wo st = false /\ dsk st = []
}.

(** the part of the invariant that is about the watching-only flag alone; it
    is preserved for EVERY table (no [table_ok]) and every history *)
Record InvW (st : state) : Prop := {
  invw_wo : created st = true -> wo st = disk_wo (dsk st);
  invw_fresh : created st = false -> wo st = false /\ dsk st = []
}.

Lemma Inv_InvW sp al st : Inv sp al st -> InvW st.
Proof. intros [_ H1 H2]. constructor; assumption. Qed.

Definition secret_taproot_import (o : op) : bool :=
  match o with OImportScript _ _ _ (KTaproot true) => true | _ => false end.

Definition admissible (allow_tr : bool) (o : op) : bool := allow_tr || negb (secret_taproot_import o).

(* ---- characterisation of strip_val ------------------------------------ *)

Inductive strip_shape (strip_tr : bool) : list seg -> list term -> list term -> Prop :=
| ss_acct s c1 pub c2 x e i nm :
    strip_shape strip_tr [BScope; BScopeOf s; BAcct]
      [Clear (UTag 0); c1; pub; c2; x; e; i; nm] [Clear (UTag 0); c1; pub; c2; Const 0; e; i; nm]
| ss_import s h c1 pub c2 x :
    strip_shape strip_tr [BScope; BScopeOf s; BAddr]
      [Clear (UTag 1); h; c1; pub; c2; x] [Clear (UTag 1); h; c1; pub; c2; Const 0]
| ss_script s h c1 hs c2 x :
    strip_shape strip_tr [BScope; BScopeOf s; BAddr]
      [Clear (UTag 2); h; c1; hs; c2; x] [Clear (UTag 2); h; c1; hs; c2; Const 0]
| ss_wscript s h ver c1 hs c2 x :
    strip_shape strip_tr [BScope; BScopeOf s; BAddr]
      [Clear (UTag 3); h; ver; Clear (UFlag true); c1; hs; c2; x]
      [Clear (UTag 3); h; ver; Clear (UFlag true); c1; hs; c2; Const 0]
| ss_taproot s h ver c1 hs c2 x :
    strip_tr = true ->
    strip_shape strip_tr [BScope; BScopeOf s; BAddr]
      [Clear (UTag 4); h; ver; Clear (UFlag true); c1; hs; c2; x]
      [Clear (UTag 4); h; ver; Clear (UFlag true); c1; hs; c2; Const 0].

Ltac prune H :=
  repeat (cbv beta iota in H;
          match type of H with
          | match ?x with _ => _ end = Some _ => destruct x; try discriminate H
          | (if ?x then _ else _) = Some _ => destruct x eqn:?; try discriminate H
          end).

Lemma strip_val_shape strip_tr p v v' :
  strip_val strip_tr p v = Some v' -> strip_shape strip_tr p v v'.
Proof.
  intros H. unfold strip_val in H. prune H; inversion H; subst; constructor; auto.
Qed.

(* ---- rows produced by the conversion ---------------------------------- *)

Ltac unfold_good :=
  unfold gP, good_row, jrow, resid, ok_row, clean_row, avoids_never, tr_secret_row,
         is_ctpriv, is_main_private, fields in *.

Ltac split_hyps :=
  repeat match goal with H : _ && _ = true |- _ => apply andb_true_iff in H; destruct H end.
Ltac split_goal := repeat (apply andb_true_iff; split).

Lemma stripped_good sp al p k v v' :
  strip_shape sp p v v' ->
  gP sp al false {| r_path := p; r_key := k; r_val := v |} ->
  gP sp al true {| r_path := p; r_key := k; r_val := v' |}.
Proof.
  intros Hs. inversion Hs; subst; unfold_good; simpl; intros H;
    split_hyps; split_goal; try assumption; try reflexivity; bsolve.
Qed.

Lemma strip_shape_path sp p v v' : strip_shape sp p v v' ->
  exists s b, p = [BScope; BScopeOf s; b].
Proof. inversion 1; eauto. Qed.

Lemma wtouch_self_put r v : wtouch (WPut (r_path r) (r_key r) v) r = true.
Proof. unfold wtouch; simpl. apply same_slot_iff; auto. Qed.

Lemma wtouch_self_del r : wtouch (WDel (r_path r) (r_key r)) r = true.
Proof. unfold wtouch; simpl. apply same_slot_iff; auto. Qed.

Lemma is_main_private_del r :
  is_main_private r = true -> In (WDel (r_path r) (r_key r)) (map (fun k => WDel [BMain] (kstr k)) main_private_keys).
Proof.
  unfold is_main_private. destruct r as [p k v]; simpl.
  destruct p as [|[] [|]]; try discriminate. destruct k as [| | |[]| |]; try discriminate.
  intros H. unfold main_private_keys. simpl.
  repeat match type of H with
         | (if string_dec ?a ?b then true else false) || _ = true =>
           destruct (string_dec a b); [subst; simpl; auto 10|simpl in H]
         end.
  discriminate.
Qed.

Lemma convert_good sp al d :
  Forall (gP sp al false) d -> Forall (gP sp al true) (apply_writes (w_convert sp d) d).
Proof.
  intros Hd. rewrite Forall_forall in *. intros r Hin.
  apply in_apply_writes in Hin. destruct Hin as [(p & k & v & Hw & ->)|[Hin Hno]].
  - unfold w_convert in Hw. apply in_app_or in Hw. destruct Hw as [Hw|Hw].
    { apply in_map_iff in Hw. destruct Hw as (? & Hw & _). discriminate. }
    apply in_app_or in Hw. destruct Hw as [Hw|Hw].
    + apply in_flat_map in Hw. destruct Hw as (r0 & Hr0 & Hw).
      unfold conv_row in Hw. destruct (is_ctpriv r0); [destruct Hw as [Hw|[]]; discriminate|].
      destruct (strip_val sp (r_path r0) (r_val r0)) as [v'|] eqn:E; [|destruct Hw].
      destruct Hw as [Hw|[]]. inversion Hw; subst.
      apply stripped_good with (v := r_val r0); [now apply strip_val_shape|].
      rewrite <- row_eta. now apply Hd.
    + destruct Hw as [Hw|[]]. inversion Hw; subst.
      unfold gP. destruct sp, al; reflexivity.
  - pose proof (Hd r Hin) as Hg. unfold gP, good_row in *.
    apply andb_true_iff in Hg. destruct Hg as [Hrest Hj]. rewrite Hrest. simpl.
    unfold jrow in Hj. apply orb_true_iff in Hj. destruct Hj as [Hj|Hj].
    + apply orb_true_iff in Hj. destruct Hj as [Hj|Hj]; exfalso.
      * assert (Ht : wtouch (WDel (r_path r) (r_key r)) r = false).
        { apply Hno. unfold w_convert. apply in_or_app. right. apply in_or_app. left.
          apply in_flat_map. exists r. split; [exact Hin|]. unfold conv_row. rewrite Hj. now left. }
        rewrite wtouch_self_del in Ht. discriminate.
      * assert (Ht : wtouch (WDel (r_path r) (r_key r)) r = false).
        { apply Hno. unfold w_convert. apply in_or_app. left. now apply is_main_private_del. }
        rewrite wtouch_self_del in Ht. discriminate.
    + destruct (strip_val sp (r_path r) (r_val r)) as [v'|] eqn:E; [exfalso|exact Hj].
      destruct (is_ctpriv r) eqn:Ec.
      * assert (Ht : wtouch (WDel (r_path r) (r_key r)) r = false).
        { apply Hno. unfold w_convert. apply in_or_app. right. apply in_or_app. left.
          apply in_flat_map. exists r. split; [exact Hin|]. unfold conv_row. rewrite Ec. now left. }
        rewrite wtouch_self_del in Ht. discriminate.
      * assert (Ht : wtouch (WPut (r_path r) (r_key r) v') r = false).
        { apply Hno. unfold w_convert. apply in_or_app. right. apply in_or_app. left.
          apply in_flat_map. exists r. split; [exact Hin|]. unfold conv_row. rewrite Ec, E. now left. }
        rewrite wtouch_self_put in Ht. discriminate.
Qed.

(* ---- every operation preserves the invariant -------------------------- *)

Definition wPb (sp al w : bool) (wr : write) : bool :=
  match wr with
  | WPut p k v => good_row sp al w {| r_path := p; r_key := k; r_val := v |}
  | WDel _ _ => true
  end.

Lemma wPb_Forall sp al w ws : forallb (wPb sp al w) ws = true -> Forall (wP (gP sp al w)) ws.
Proof.
  intros H. rewrite forallb_forall in H. apply Forall_forall. intros x Hx. specialize (H x Hx).
  destruct x; simpl in *; [exact H|exact I].
Qed.

Lemma read_acct_good sp al w s a d i :
  Forall (gP sp al w) d -> read_acct s a d = Some i ->
  forall i', ai_kind i' = ai_kind i ->
  gP sp al w {| r_path := p_scope s ++ [BAcct]; r_key := knum a; r_val := acct_val i' |}.
Proof.
  intros Hd H i' Hk. unfold read_acct in H.
  destruct (get (p_scope s ++ [BAcct]) (knum a) d) as [v|] eqn:G; [|discriminate].
  apply get_in in G. rewrite Forall_forall in Hd. apply Hd in G. clear Hd.
  prune H; inversion H; subst; clear H; destruct i' as [k' nm' e' i0']; simpl in Hk; subst k';
    unfold acct_val; simpl in *; unfold_good; simpl in *; destruct w; split_hyps; split_goal;
    try assumption; try reflexivity; bsolve.
Qed.

Lemma forallb_flat_map {A B} (f : B -> bool) (g : A -> list B) l :
  (forall x, In x l -> forallb f (g x) = true) -> forallb f (flat_map g l) = true.
Proof.
  induction l as [|x l IH]; simpl; intros H; [reflexivity|].
  rewrite forallb_app, H by (now left). simpl. apply IH. intros y Hy. apply H. now right.
Qed.

Ltac cond H :=
  repeat match type of H with
         | (if ?c then None else _) = Some _ => destruct c eqn:?; [discriminate H|]
         | (if ?c then _ else None) = Some _ => destruct c eqn:?; [|discriminate H]
         end.

Ltac kill_true H :=
  repeat (rewrite ?orb_true_r, ?orb_true_l, ?andb_true_r, ?andb_true_l in H; simpl in H); try discriminate H.

Ltac closed_rows sp al st :=
  apply wPb_Forall; destruct (wo st), sp, al; simpl; try reflexivity.

(** rows with sealed fields: reduce around the black boxes, then use the
    three facts about [sealT] *)
Ltac seal_rows HT :=
  apply wPb_Forall;
  unfold script_val, script_field, import_val, seal_opt, new_default_acct, new_watch_acct;
  simpl;
  unfold good_row, jrow, resid, ok_row, clean_row, avoids_never, tr_secret_row,
         is_ctpriv, is_main_private, fields;
  simpl; seal_rewrite HT; simpl; rewrite ?orb_true_r; reflexivity.

Lemma w_key_scope_good T sp al s :
  table_ok T = true -> Forall (wP (gP sp al false)) (w_key_scope T s).
Proof. intros HT. destruct sp, al; seal_rows HT. Qed.

Lemma w_create_good T sp al :
  table_ok T = true -> Forall (wP (gP sp al false)) (w_create T).
Proof.
  intros HT. unfold w_create.
  apply Forall_app; split; [apply wPb_Forall; destruct sp, al; reflexivity|].
  apply Forall_app; split; [apply wPb_Forall; destruct sp, al; reflexivity|].
  apply Forall_app; split; [apply Forall_flat_map_intro; intros s _; now apply w_key_scope_good|].
  apply Forall_app; split; [destruct sp, al; seal_rows HT|].
  apply Forall_app; split; apply wPb_Forall; destruct sp, al; reflexivity.
Qed.

Lemma writes_good T sp al st o ws :
  table_ok T = true ->
  Inv sp al st -> admissible al o = true ->
  writes T sp st o = Some ws ->
  (o = OConvert /\ wo st = false /\ created st = true /\ ws = w_convert sp (dsk st))
  \/ Forall (wP (gP sp al (wo st))) ws.
Proof.
  intros HT [Hrows Hwo Hfresh] Hadm H.
  destruct o; simpl in H.
  - (* OCreate *) cond H. inversion H; subst. right.
    destruct (Hfresh eq_refl) as [-> _]. now apply w_create_good.
  - cond H. inversion H. right. constructor.
  - cond H. inversion H. right. constructor.
  - cond H. inversion H. right. constructor.
  - (* ONewAccount *) cond H. inversion H; subst. right.
    destruct (wo st) eqn:W; [exfalso; kill_true Heqb|].
    destruct sp, al; seal_rows HT.
  - (* ONewScope *) cond H. inversion H; subst. right.
    destruct (wo st) eqn:W; [exfalso; kill_true Heqb|].
    constructor; [|now apply w_key_scope_good].
    destruct sp, al; reflexivity.
  - (* ODerive *) cond H. destruct (read_acct s acct (dsk st)) as [i|] eqn:R; [|discriminate]. cond H.
    inversion H; subst. right. apply Forall_flat_map_intro. intros idx _. unfold w_chain.
    apply Forall_app. split.
    + apply wPb_Forall. destruct (wo st), sp, al; simpl; reflexivity.
    + constructor; [|constructor]. simpl. eapply read_acct_good; eauto. destruct internal; reflexivity.
  - (* OImportPriv *) cond H. inversion H; subst. right.
    destruct (wo st), sp, al; seal_rows HT.
  - (* OImportPub *) cond H. inversion H; subst. right.
    destruct (wo st), sp, al; seal_rows HT.
  - (* OImportScript *) cond H. inversion H; subst. right.
    unfold admissible in Hadm. simpl in Hadm.
    destruct k as [|sec|sec]; try destruct sec;
      destruct (wo st) eqn:W, (locked st) eqn:L, sp, al; simpl in *; try (exfalso; kill_true Heqb; fail);
      try discriminate; seal_rows HT.
  - (* OImportXpub *) cond H. inversion H; subst. right.
    destruct (wo st), sp, al, with_schema; seal_rows HT.
  - (* ORename *) cond H. destruct (read_acct s acct (dsk st)) as [i|] eqn:R; [|discriminate].
    inversion H; subst. right. constructor; [exact I|]. constructor; [exact I|].
    unfold w_account. constructor.
    + simpl. eapply read_acct_good; eauto.
    + apply wPb_Forall. destruct (wo st), sp, al; simpl; reflexivity.
  - (* OChangePass *) cond H. destruct private; inversion H; subst; right.
    + destruct (wo st) eqn:W; [exfalso; kill_true Heqb|].
      destruct sp, al; seal_rows HT.
    + destruct (wo st), sp, al; seal_rows HT.
  - (* OMarkUsed *) cond H. match type of H with (if ?c then _ else _) = _ => destruct c end; inversion H; subst; right.
    + constructor.
    + closed_rows sp al st.
  - (* OSyncTo *) cond H. inversion H; subst. right. unfold w_synced.
    apply wPb_Forall. destruct (max_reorg_depth <? h), (wo st), sp, al; simpl; reflexivity.
  - cond H. inversion H; subst. right. constructor; [exact I|constructor].
  - (* OConvert *) cond H. destruct (wo st) eqn:W; inversion H; subst.
    + right. constructor.
    + left. apply negb_false_iff in Heqb. auto.
Qed.

Lemma writes_created T sp st o ws :
  writes T sp st o = Some ws -> (o = OCreate /\ created st = false) \/ created st = true.
Proof.
  intros H. destruct (created st) eqn:C; [now right|left].
  destruct o; simpl in H; rewrite ?C in H; simpl in H; try discriminate. auto.
Qed.

Definition flag_slot_free (ws : list write) : bool := slot_free [BMain] (kstr "watchonly") ws.

Lemma conv_row_flag_free sp r : flag_slot_free (conv_row sp r) = true.
Proof.
  unfold conv_row. destruct (is_ctpriv r) eqn:E.
  - unfold is_ctpriv in E. destruct r as [p k v]; simpl in *.
    destruct p as [|[] [|[] [|]]]; try discriminate. reflexivity.
  - destruct (strip_val sp (r_path r) (r_val r)) as [v'|] eqn:S; [|reflexivity].
    apply strip_val_shape in S. apply strip_shape_path in S. destruct S as (s & b & ->). reflexivity.
Qed.

Lemma writes_keep_flag T sp st o ws :
  writes T sp st o = Some ws ->
  o = OCreate \/ (o = OConvert /\ wo st = false) \/ flag_slot_free ws = true.
Proof.
  intros H. destruct o; simpl in H; auto; right.
  - cond H; inversion H; subst; right; reflexivity.
  - cond H; inversion H; subst; right; reflexivity.
  - cond H; inversion H; subst; right; reflexivity.
  - cond H; inversion H; subst; right; reflexivity.
  - cond H; inversion H; subst; right; reflexivity.
  - (* ODerive *) cond H. destruct (read_acct s acct (dsk st)) as [i|]; [|discriminate]. cond H.
    inversion H; subst. right. apply slot_free_flat_map. intros idx _. reflexivity.
  - cond H; inversion H; subst; right; reflexivity.
  - cond H; inversion H; subst; right; reflexivity.
  - (* OImportScript *) cond H. inversion H; subst. right. destruct k as [|[]|[]]; reflexivity.
  - cond H; inversion H; subst; right; reflexivity.
  - (* ORename *) cond H. destruct (read_acct s acct (dsk st)) as [i|]; [|discriminate].
    inversion H; subst. right. reflexivity.
  - cond H. destruct private; inversion H; subst; right; reflexivity.
  - cond H. match type of H with (if ?c then _ else _) = _ => destruct c end; inversion H; subst; right; reflexivity.
  - cond H. inversion H; subst. right. unfold w_synced. destruct (max_reorg_depth <? h); reflexivity.
  - cond H; inversion H; subst; right; reflexivity.
  - cond H. destruct (wo st); inversion H; subst; [right; reflexivity|left; auto].
Qed.

Lemma disk_wo_convert sp d : disk_wo (apply_writes (w_convert sp d) d) = true.
Proof.
  unfold w_convert. rewrite !apply_writes_app. unfold disk_wo.
  change (apply_writes [WPut [BMain] (kstr "watchonly") [Clear (UFlag true)]] ?x)
    with (put [BMain] (kstr "watchonly") [Clear (UFlag true)] x).
  now rewrite get_put_same.
Qed.

Lemma disk_wo_create T : disk_wo (apply_writes (w_create T) []) = false.
Proof. unfold disk_wo. rewrite get_apply_writes. reflexivity. Qed.

Local Arguments apply_writes : simpl never.
Local Arguments w_convert : simpl never.
Local Arguments disk_wo : simpl never.

(** the watching-only flag in memory is the flag on disk: for every table *)
Lemma step_invW T sp st o : InvW st -> InvW (fst (step T sp st o)).
Proof.
  intros HI. pose proof HI as [Hwo Hfresh].
  unfold step. destruct (writes T sp st o) as [ws|] eqn:W; simpl.
  2:{ destruct o; try exact HI.
      destruct (created st && negb (wo st)); [|exact HI]. constructor; simpl; assumption. }
  pose proof (writes_created _ _ _ _ _ W) as Hc.
  pose proof (writes_keep_flag _ _ _ _ _ W) as Hk.
  destruct Hc as [[-> Hcf]|Hct].
  - (* create *) destruct (Hfresh Hcf) as [Hw0 Hd0]. simpl in W. rewrite Hcf in W. inversion W; subst ws.
    constructor; simpl; [|discriminate].
    intros _. rewrite Hd0, disk_wo_create. exact Hw0.
  - assert (Hconv : o = OConvert -> disk_wo (apply_writes ws (dsk st)) = true).
    { intros ->. simpl in W. rewrite Hct in W. simpl in W. destruct (wo st) eqn:Ew; inversion W; subst ws.
      - change (apply_writes [] (dsk st)) with (dsk st). rewrite <- Hwo; auto.
      - apply disk_wo_convert. }
    assert (Hflag : o <> OConvert -> disk_wo (apply_writes ws (dsk st)) = wo st).
    { intros Hn. destruct Hk as [->|[[-> _]|Hk]].
      - simpl in W. rewrite Hct in W. discriminate.
      - contradiction.
      - unfold disk_wo. unfold flag_slot_free in Hk. rewrite get_apply_writes_free by exact Hk.
        symmetry. now apply Hwo. }
    destruct o; constructor; simpl;
      try (intros _; symmetry; apply Hflag; discriminate);
      try (intros C; congruence).
    (* OConvert *) intros _. symmetry. now apply Hconv.
Qed.

Lemma step_inv T sp al st o :
  table_ok T = true ->
  Inv sp al st -> admissible al o = true -> Inv sp al (fst (step T sp st o)).
Proof.
  intros HT HI Hadm.
  pose proof (step_invW T sp st o (Inv_InvW _ _ _ HI)) as [Hwo' Hfresh'].
  constructor; [|exact Hwo'|exact Hfresh']. clear Hwo' Hfresh'.
  pose proof HI as [Hrows Hwo Hfresh].
  unfold step. destruct (writes T sp st o) as [ws|] eqn:W; simpl.
  2:{ destruct o; try exact Hrows.
      destruct (created st && negb (wo st)); exact Hrows. }
  destruct (writes_good _ _ _ _ _ _ HT HI Hadm W) as [(-> & Hw0 & Hcr & ->)|Hg].
  - (* conversion *) apply convert_good. now rewrite Hw0 in Hrows.
  - assert (Hrows' : Forall (gP sp al (wo st)) (apply_writes ws (dsk st)))
      by (apply Forall_apply_writes; assumption).
    destruct o; try exact Hrows'.
    + (* OReopen *) simpl in W. destruct (created st) eqn:C; [|discriminate]. inversion W; subst ws.
      change (apply_writes [] (dsk st)) with (dsk st) in *.
      rewrite <- (Hwo eq_refl). exact Hrows.
    + (* OConvert *) simpl in W. destruct (created st); simpl in W; [|discriminate].
      destruct (wo st) eqn:Ew; inversion W; subst ws.
      * exact Hrows'.
      * apply convert_good. exact Hrows.
Qed.

(* ---- histories ------------------------------------------------------- *)

Lemma inv_init sp al : Inv sp al init.
Proof. constructor; simpl; [constructor|discriminate|auto]. Qed.

Lemma invw_init : InvW init.
Proof. constructor; simpl; [discriminate|auto]. Qed.

Definition run_from (T : table) (sp : bool) (st : state) (h : list op) : state :=
  fold_left (fun st o => fst (step T sp st o)) h st.

Lemma run_from_app T sp st h1 h2 :
  run_from T sp st (h1 ++ h2) = run_from T sp (run_from T sp st h1) h2.
Proof. unfold run_from. apply fold_left_app. Qed.

Lemma run_is_run_from T sp h : run T sp h = run_from T sp init h.
Proof. reflexivity. Qed.

Lemma inv_run_from T sp al h : table_ok T = true -> forall st,
  Inv sp al st -> forallb (admissible al) h = true -> Inv sp al (run_from T sp st h).
Proof.
  intros HT. induction h as [|o h IH]; simpl; intros st HI Ha; [exact HI|].
  apply andb_true_iff in Ha. destruct Ha as [Ho Hh]. apply IH; [|exact Hh]. now apply step_inv.
Qed.

Lemma inv_run T sp al h :
  table_ok T = true -> forallb (admissible al) h = true -> Inv sp al (run T sp h).
Proof. intros HT Ha. rewrite run_is_run_from. apply inv_run_from; [exact HT|apply inv_init|exact Ha]. Qed.

Lemma invw_run_from T sp h : forall st, InvW st -> InvW (run_from T sp st h).
Proof.
  induction h as [|o h IH]; simpl; intros st HI; [exact HI|]. apply IH. now apply step_invW.
Qed.

Lemma invw_run T sp h : InvW (run T sp h).
Proof. rewrite run_is_run_from. apply invw_run_from. apply invw_init. Qed.

Lemma admissible_true_all h : forallb (admissible true) h = true.
Proof. induction h; simpl; auto. Qed.

Lemma inv_boundaries T sp al h : table_ok T = true -> forall st,
  Inv sp al st -> forallb (admissible al) h = true -> Forall (Inv sp al) (boundaries T sp st h).
Proof.
  intros HT. induction h as [|o h IH]; simpl; intros st HI Ha; [constructor|].
  apply andb_true_iff in Ha. destruct Ha as [Ho Hh].
  assert (HI' : Inv sp al (fst (step T sp st o))) by now apply step_inv.
  constructor; [exact HI'|apply IH; assumption].
Qed.

(** the commit boundaries are exactly the states after each non-empty prefix *)
Lemma boundaries_prefix T sp h : forall st st',
  In st' (boundaries T sp st h) -> exists n, st' = run_from T sp st (firstn (S n) h).
Proof.
  induction h as [|o h IH]; simpl; intros st st' H; [destruct H|].
  destruct H as [<-|H].
  - exists 0%nat. reflexivity.
  - apply IH in H. destruct H as (n & ->). exists (S n). reflexivity.
Qed.

(* ---- (a), (b) ---------------------------------------------------------- *)

Lemma good_row_ok sp al w r : gP sp al w r ->
  ok_row false r = true /\ ok_row true r = true /\ avoids_never r = true.
Proof. unfold gP, good_row. intros H. bprop. tauto. Qed.

Lemma every_row_ok T sp h r :
  table_ok T = true ->
  In r (dsk (run T sp h)) -> ok_row false r = true /\ ok_row true r = true /\ avoids_never r = true.
Proof.
  intros HT Hin. pose proof (inv_run T sp true h HT (admissible_true_all h)) as [Hrows _ _].
  rewrite Forall_forall in Hrows. eapply good_row_ok. apply Hrows. exact Hin.
Qed.

Lemma every_boundary_ok T sp h st r :
  table_ok T = true ->
  In st (boundaries T sp init h) -> In r (dsk st) ->
  ok_row false r = true /\ ok_row true r = true /\ avoids_never r = true.
Proof.
  intros HT Hst Hin.
  pose proof (inv_boundaries T sp true h HT init (inv_init sp true) (admissible_true_all h)) as HF.
  rewrite Forall_forall in HF. destruct (HF st Hst) as [Hrows _ _].
  rewrite Forall_forall in Hrows. eapply good_row_ok. apply Hrows. exact Hin.
Qed.

(** unfolding [ok_row]: the rule of the property for every occurrence of an
    atom in a stored key or value *)
Lemma ok_row_occurrence strict r t a c :
  ok_row strict r = true -> In t (fields r) -> occurs a c t -> allowed strict a c.
Proof.
  unfold ok_row. intros H Ht Hoc. rewrite forallb_forall in H. eapply ok_sound; eauto.
Qed.

Lemma avoids_never_occurrence r t a c :
  avoids_never r = true -> In t (fields r) -> occurs a c t -> never_atom a = false.
Proof.
  unfold avoids_never. intros H Ht Hoc. rewrite forallb_forall in H. specialize (H t Ht).
  apply negb_true_iff in H. eapply mentions_sound; eauto.
Qed.

Lemma clean_row_occurrence r t a c :
  clean_row r = true -> In t (fields r) -> occurs a c t -> private_atom a = false.
Proof.
  unfold clean_row. intros H Ht Hoc. rewrite forallb_forall in H. specialize (H t Ht).
  apply negb_true_iff in H. eapply has_private_sound; eauto.
Qed.

(* ---- lock / unlock have no disk effect --------------------------------- *)

Lemma lock_unlock_no_disk_effect T sp st o :
  (o = OLock \/ exists b, o = OUnlock b) -> dsk (fst (step T sp st o)) = dsk st.
Proof.
  intros [->|[b ->]]; unfold step; simpl.
  - destruct (negb (created st) || wo st || locked st); reflexivity.
  - destruct (negb (created st) || wo st || negb b); simpl; [|reflexivity].
    destruct (created st && negb (wo st)); reflexivity.
Qed.

Lemma lock_unlock_writes_nothing T sp st o ws :
  (o = OLock \/ exists b, o = OUnlock b) -> writes T sp st o = Some ws -> ws = [].
Proof.
  intros [->|[b ->]]; simpl; intros H.
  - destruct (negb (created st) || wo st || locked st); [discriminate|now inversion H].
  - destruct (negb (created st) || wo st || negb b); [discriminate|now inversion H].
Qed.

(* ---- (c) watching-only ------------------------------------------------- *)

Lemma wo_step T sp st o : InvW st -> wo st = true -> wo (fst (step T sp st o)) = true.
Proof.
  intros [Hwo Hfresh] Hw. unfold step.
  destruct (writes T sp st o) as [ws|] eqn:W; simpl.
  - destruct o; simpl; try exact Hw; try reflexivity.
    (* OReopen *) simpl in W. destruct (created st) eqn:C; [|discriminate]. inversion W; subst.
    change (apply_writes [] (dsk st)) with (dsk st). rewrite <- Hwo; auto.
  - destruct o; try exact Hw.
    destruct (created st && negb (wo st)); exact Hw.
Qed.

Lemma wo_run_from T sp h : forall st,
  InvW st -> wo st = true -> wo (run_from T sp st h) = true.
Proof.
  induction h as [|o h IH]; simpl; intros st HI Hw; [exact Hw|].
  apply IH; [now apply step_invW|now apply wo_step].
Qed.

Lemma convert_sets_wo T sp st : created st = true -> wo (fst (step T sp st OConvert)) = true.
Proof.
  intros C. unfold step. simpl. rewrite C. simpl. destruct (wo st); reflexivity.
Qed.

Lemma created_step T sp st o : created st = true -> created (fst (step T sp st o)) = true.
Proof.
  intros C. unfold step. destruct (writes T sp st o); simpl.
  - destruct o; auto.
  - destruct o; auto. destruct (created st && negb (wo st)); auto.
Qed.

(** after a successful conversion the manager stays watching-only, whatever
    follows: for every table (no [table_ok]) *)
Lemma after_convert_wo T sp h1 h2 :
  created (run T sp h1) = true ->
  let st := run T sp (h1 ++ OConvert :: h2) in
  InvW st /\ wo st = true.
Proof.
  intros C st. split; [apply invw_run|].
  subst st. rewrite run_is_run_from, run_from_app. simpl.
  apply wo_run_from.
  - apply step_invW. rewrite <- run_is_run_from. apply invw_run.
  - apply convert_sets_wo. exact C.
Qed.

(** state after [h1], a successful conversion, then any continuation *)
Lemma after_convert T sp al h1 h2 :
  table_ok T = true ->
  forallb (admissible al) (h1 ++ OConvert :: h2) = true ->
  created (run T sp h1) = true ->
  let st := run T sp (h1 ++ OConvert :: h2) in
  Inv sp al st /\ wo st = true.
Proof.
  intros HT Ha C st. split; [now apply inv_run|].
  apply (after_convert_wo T sp h1 h2 C).
Qed.

Definition no_secret_taproot (h : list op) : bool := forallb (fun o => negb (secret_taproot_import o)) h.

Lemma admissible_false_all h : no_secret_taproot h = true -> forallb (admissible false) h = true.
Proof. unfold no_secret_taproot, admissible. simpl. auto. Qed.

(** general form: what may remain after conversion *)
Lemma watching_only_rows T sp h1 h2 r :
  table_ok T = true ->
  created (run T sp h1) = true ->
  In r (dsk (run T sp (h1 ++ OConvert :: h2))) ->
  clean_row r = true \/ (sp = false /\ tr_secret_row r = true).
Proof.
  intros HT C Hin.
  destruct (after_convert T sp true h1 h2 HT (admissible_true_all _) C) as [[Hrows _ _] Hw].
  rewrite Hw in Hrows. rewrite Forall_forall in Hrows. specialize (Hrows r Hin).
  unfold gP, good_row, resid in Hrows. bprop. destruct sp; simpl in *; intuition.
Qed.

Lemma watching_only_clean_if_stripped T h1 h2 r :
  table_ok T = true ->
  created (run T true h1) = true ->
  In r (dsk (run T true (h1 ++ OConvert :: h2))) -> clean_row r = true.
Proof.
  intros HT C Hin.
  destruct (watching_only_rows T true h1 h2 r HT C Hin) as [H|[H _]]; [exact H|discriminate].
Qed.

Lemma watching_only_clean_outside_K T sp h1 h2 r :
  table_ok T = true ->
  no_secret_taproot (h1 ++ OConvert :: h2) = true ->
  created (run T sp h1) = true ->
  In r (dsk (run T sp (h1 ++ OConvert :: h2))) -> clean_row r = true.
Proof.
  intros HT K C Hin.
  destruct (after_convert T sp false h1 h2 HT (admissible_false_all _ K) C) as [[Hrows _ _] Hw].
  rewrite Hw in Hrows. rewrite Forall_forall in Hrows. specialize (Hrows r Hin).
  unfold gP, good_row, resid in Hrows. bprop. simpl in *.
  destruct Hrows as [[_ [Hf|Ht]] [Hc|[_ Ht']]]; try discriminate; try exact Hc. congruence.
Qed.

(** holds for every table: it only depends on the watching-only flag *)
Lemma watching_only_api T sp h1 h2 c :
  created (run T sp h1) = true ->
  let st := run T sp (h1 ++ OConvert :: h2) in
  refuses (api st c) = true /\ api st CUnlock = ErrWatchingOnly.
Proof.
  intros C st. destruct (after_convert_wo T sp h1 h2 C) as [_ Hw].
  fold st in Hw. unfold api. rewrite Hw. rewrite orb_true_r. destruct c; auto.
Qed.

Lemma created_run_from T sp h : forall st,
  created st = true -> created (run_from T sp st h) = true.
Proof.
  induction h as [|o h IH]; simpl; intros st Hs; [exact Hs|]. apply IH. now apply created_step.
Qed.

(** the flag read back by a later Open is set: a reopened manager is
    watching-only (for every table) *)
Lemma watching_only_flag_on_disk T sp h1 h2 :
  created (run T sp h1) = true ->
  disk_wo (dsk (run T sp (h1 ++ OConvert :: h2))) = true.
Proof.
  intros C. destruct (after_convert_wo T sp h1 h2 C) as [[Hwo _] Hw].
  rewrite <- Hwo; [exact Hw|].
  rewrite run_is_run_from, run_from_app. apply created_run_from. exact C.
Qed.

(* ---- rows keyed by sha256(address id) are never deleted ----------------- *)

Lemma conv_row_keeps_hashed sp r p t : no_del_at p (Hash t) (conv_row sp r) = true.
Proof.
  unfold conv_row. destruct (is_ctpriv r) eqn:E.
  - unfold is_ctpriv in E. destruct r as [p' k v]; simpl in *.
    destruct p' as [|[] [|[] [|]]]; try discriminate. destruct k as [| | |[]| |]; try discriminate.
    reflexivity.
  - destruct (strip_val sp (r_path r) (r_val r)); reflexivity.
Qed.

Lemma writes_keep_hashed T sp st o ws p t :
  writes T sp st o = Some ws -> no_del_at p (Hash t) ws = true.
Proof.
  intros H. destruct o; simpl in H.
  - cond H; inversion H; subst. reflexivity.
  - cond H; inversion H; subst; reflexivity.
  - cond H; inversion H; subst; reflexivity.
  - cond H; inversion H; subst; reflexivity.
  - cond H; inversion H; subst; reflexivity.
  - cond H; inversion H; subst; reflexivity.
  - cond H. destruct (read_acct s acct (dsk st)) as [i|]; [|discriminate]. cond H.
    inversion H; subst. apply no_del_at_flat_map. intros idx _. reflexivity.
  - cond H; inversion H; subst; reflexivity.
  - cond H; inversion H; subst; reflexivity.
  - cond H. inversion H; subst. destruct k as [|[]|[]]; reflexivity.
  - cond H; inversion H; subst; reflexivity.
  - cond H. destruct (read_acct s acct (dsk st)) as [i|]; [|discriminate].
    inversion H; subst. reflexivity.
  - cond H. destruct private; inversion H; subst; reflexivity.
  - cond H. match type of H with (if ?c then _ else _) = _ => destruct c end; inversion H; subst; reflexivity.
  - cond H. inversion H; subst. unfold w_synced. destruct (max_reorg_depth <? h); reflexivity.
  - cond H; inversion H; subst; reflexivity.
  - cond H. destruct (wo st); inversion H; subst; [reflexivity|].
    unfold w_convert. rewrite !no_del_at_app. apply andb_true_iff. split; [reflexivity|].
    apply andb_true_iff. split; [|reflexivity].
    apply no_del_at_flat_map. intros r _. apply conv_row_keeps_hashed.
Qed.

Lemma hashed_row_step T sp st o p t :
  has p (Hash t) (dsk st) = true -> has p (Hash t) (dsk (fst (step T sp st o))) = true.
Proof.
  intros H. unfold step. destruct (writes T sp st o) as [ws|] eqn:W; simpl.
  - apply has_apply_writes; [eapply writes_keep_hashed; eauto|exact H].
  - destruct o; try exact H.
    destruct (created st && negb (wo st)); exact H.
Qed.

Lemma hashed_row_run_from T sp h p t : forall st,
  has p (Hash t) (dsk st) = true -> has p (Hash t) (dsk (run_from T sp st h)) = true.
Proof.
  induction h as [|o h IH]; simpl; intros st H; [exact H|]. apply IH. now apply hashed_row_step.
Qed.

(** every address row, address/account index entry and used flag present
    before the conversion is present after it and after any continuation *)
Lemma addresses_survive T sp h1 h2 p t :
  has p (Hash t) (dsk (run T sp h1)) = true ->
  has p (Hash t) (dsk (run T sp (h1 ++ h2))) = true.
Proof.
  intros H. rewrite run_is_run_from, run_from_app. apply hashed_row_run_from. exact H.
Qed.

(** conversion keeps every field of a row except the private one it blanks *)
Lemma strip_keeps_public_fields sp p v v' :
  strip_shape sp p v v' ->
  length v' = length v /\
  forall n t, nth_error v' n = Some t -> t = Const 0 \/ nth_error v n = Some t.
Proof.
  intros Hs. inversion Hs; subst; (split; [reflexivity|]); intros n t Hn;
    do 9 (destruct n as [|n]; simpl in *; [inversion Hn; subst; auto|]); try discriminate;
    destruct n; discriminate.
Qed.

(* ---- what a reader of the file learns ----------------------------------- *)

(** Specification of a reader who holds the database file [d] and the PUBLIC
    passphrase only.  He reads an atom when it occurs in a stored key or
    value below wrappers he can all open; he opens a sealing when he holds
    its key; he holds the master public key (derived from the public
    passphrase), under [strict] the script key (S5: the in-memory script key
    is the all-zero constant), and every key whose bytes, or whose
    passphrase, he can read.  One-way wrappers are never opened. *)
Inductive reads (strict : bool) (d : disk) : atom -> Prop :=
| reads_field r t a c :
    In r d -> In t (fields r) -> occurs a c t -> opens strict d c -> reads strict d a
with opens (strict : bool) (d : disk) : list wrap -> Prop :=
| opens_nil : opens strict d []
| opens_enc k c : holds strict d k -> opens strict d c -> opens strict d (WEnc k :: c)
with holds (strict : bool) (d : disk) : keyid -> Prop :=
| holds_master_pub : holds strict d KMasterPub
| holds_zero_key : strict = true -> holds strict d KCryptoScript
| holds_cpub : reads strict d PKeyPub -> holds strict d KCryptoPub
| holds_cpriv : reads strict d SKeyPriv -> holds strict d KCryptoPriv
| holds_cscript : reads strict d SKeyScriptStored -> holds strict d KCryptoScript
| holds_master_priv g : reads strict d (SPass true g) -> holds strict d KMasterPriv.

Scheme reads_mut := Minimality for reads Sort Prop
  with opens_mut := Minimality for opens Sort Prop
  with holds_mut := Minimality for holds Sort Prop.
Combined Scheme reads_opens_holds_ind from reads_mut, opens_mut, holds_mut.

(** every wrapper the reader opens is a sealing under a non-private key *)
Definition openable (strict : bool) (w : wrap) : Prop :=
  match w with WEnc k => priv_key strict k = false | WOneWay => False end.

Lemma reader_learns_nothing_secret strict d :
  (forall r, In r d -> ok_row strict r = true) ->
  (forall a, reads strict d a -> class_of strict a = Sensitive \/ class_of strict a = Public)
  /\ (forall k, holds strict d k -> priv_key strict k = false).
Proof.
  intros Hd.
  assert (H : (forall a, reads strict d a -> class_of strict a = Sensitive \/ class_of strict a = Public)
              /\ (forall c, opens strict d c -> Forall (openable strict) c)
              /\ (forall k, holds strict d k -> priv_key strict k = false)).
  { apply reads_opens_holds_ind.
    - (* reads_field *)
      intros r t a c Hr Ht Hoc _ Hc.
      pose proof (ok_row_occurrence strict r t a c (Hd r Hr) Ht Hoc) as Hal.
      unfold allowed in Hal. rewrite Forall_forall in Hc.
      destruct (class_of strict a); [exfalso|exfalso|now left|now right].
      + exact (Hc _ Hal).
      + destruct Hal as (k & Hk & Hp). specialize (Hc _ Hk). simpl in Hc. congruence.
    - constructor.
    - intros k c _ Hk _ Hc. constructor; [exact Hk|exact Hc].
    - reflexivity.
    - intros ->. reflexivity.
    - intros _ _. reflexivity.
    - intros _ [H|H]; discriminate H.
    - intros _ [H|H]; discriminate H.
    - intros g _ [H|H]; discriminate H. }
  destruct H as (Hr & _ & Hk). split; assumption.
Qed.

(** at every commit boundary of every history, the holder of the file and
    the public passphrase reads no secret and no passphrase *)
Lemma public_reader_boundary T sp h st strict a :
  table_ok T = true -> In st (boundaries T sp init h) -> reads strict (dsk st) a ->
  class_of strict a <> Secret /\ class_of strict a <> Passphrase.
Proof.
  intros HT Hst Hr.
  assert (Hd : forall r, In r (dsk st) -> ok_row strict r = true).
  { intros r Hin. destruct (every_boundary_ok T sp h st r HT Hst Hin) as (H0 & H1 & _).
    destruct strict; assumption. }
  destruct (reader_learns_nothing_secret strict (dsk st) Hd) as [Hreads _].
  destruct (Hreads a Hr) as [E|E]; rewrite E; split; discriminate.
Qed.

(* ---- what [table_ok] asks of each site, spelled out --------------------- *)

Lemma table_ok_meaning T s :
  table_ok T = true ->
  (forall strict, cclass strict (e_content (T s)) = Secret -> priv_key strict (e_key (T s)) = true) /\
  (forall strict, cclass strict (e_content (T s)) <> Passphrase) /\
  content_never (e_content (T s)) = false /\
  (site_survives s = true -> content_private (e_content (T s)) = false).
Proof.
  intros HT. pose proof (table_ok_entry T s HT) as H.
  unfold entry_ok, entry_safe, seal_ok_for in H.
  apply andb_true_iff in H. destruct H as [H Hsurv].
  apply andb_true_iff in H. destruct H as [H Hnever].
  apply andb_true_iff in H. destruct H as [Hf Ht].
  repeat split.
  - intros strict Hc. destruct strict; [rewrite Hc in Ht; exact Ht|rewrite Hc in Hf; exact Hf].
  - intros strict Hc. destruct strict; [rewrite Hc in Ht; discriminate|rewrite Hc in Hf; discriminate].
  - now apply negb_true_iff.
  - intros Hs. rewrite Hs in Hsurv. simpl in Hsurv. now apply negb_true_iff.
Qed.

(** the sites' notion of survival is the slots' *)
Lemma site_survives_slot s : site_survives s = slot_survives (site_slot s).
Proof. destruct s; reflexivity. Qed.

(** a table whose entries all pass the source-level check of their slot is [table_ok] *)
Lemma source_check_implies_table_ok T :
  (forall s, source_entry_ok (site_slot s) (T s) = true) -> table_ok T = true.
Proof.
  intros H. unfold table_ok. apply forallb_forall. intros s _.
  specialize (H s). unfold source_entry_ok in H. unfold entry_ok. now rewrite site_survives_slot.
Qed.
