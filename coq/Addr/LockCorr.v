(** C05 - executable comparison between the model Addr/Lock.v, instantiated
    with the facts regenerated from the source (Generated/LockFacts.v), and
    what the correspondence harness (harness/cmd/c05) observed on the real
    waddrmgr.  Compared is what the theorems of Properties/C05.v depend on:

    - the result class of every operation / probe - where the property allows
      either of two errors (a manager that is locked AND watching-only may
      answer "locked" or "watching-only", whichever guard the code tests
      first) either is accepted ([rc_ok]);
    - the two flags, at every snapshot;
    - once the manager is locked or watching-only: every clear-text buffer the
      implementation still holds live must be one the model says is live
      (hook Manager.VerifSecretBuffers plus accountInfo.last*Addr), and the
      live buffers in objects the manager has DROPPED - found through the
      references the harness retains - must be explained, class by class, by
      the model's record [gone].  While the manager is unlocked the contents
      of its memory are NOT compared: no theorem depends on when exactly a
      key is decrypted (decrypting lazily would be as good). *)
From Verif Require Import Base.Prelude Generated.LockFacts Addr.Lock.
Local Open Scope N_scope.

Definition the_facts : facts :=
  {| f_cache_checked := cache_checked_for_lock;
     f_lock_purges_cache := lock_purges_key_cache;
     f_lock_wipes_wscripts := lock_wipes_witness_scripts;
     f_lock_wipes_last := lock_wipes_last_addrs;
     f_unlock_skips_keyless := unlock_skips_keyless_accounts;
     f_keyless_not_queued := keyless_addresses_not_queued;
     f_change_rejects_empty := change_rejects_empty_private;
     f_privkey_checks_first := privkey_checks_lock_first;
     f_unlock_preloads := unlock_loads_queued_accounts;
     f_z_acct := lock_zeroes_account_keys;
     f_z_key := address_lock_zeroes_key;
     f_z_script := address_lock_zeroes_script;
     f_z_cache := lock_zeroes_cached_keys;
     f_z_mgr := lock_zeroes_manager_keys;
     f_e_markused := markused_wipes_evicted;
     f_e_invalidate := invalidate_wipes_evicted;
     f_e_next := next_wipes_replaced_last;
     f_e_unlock := unlock_leaves_no_cleartext_in_dropped;
     f_e_lru := lru_eviction_zeroes;
     f_cache_cap := priv_key_cache_size |}.

Definition all_true : facts :=
  {| f_cache_checked := true; f_lock_purges_cache := true; f_lock_wipes_wscripts := true;
     f_lock_wipes_last := true; f_unlock_skips_keyless := true; f_keyless_not_queued := true;
     f_change_rejects_empty := true; f_privkey_checks_first := true; f_unlock_preloads := true;
     f_z_acct := true; f_z_key := true; f_z_script := true; f_z_cache := true; f_z_mgr := true;
     f_e_markused := true; f_e_invalidate := true; f_e_next := true; f_e_unlock := true; f_e_lru := true;
     f_cache_cap := 10000 |}.

(* One clear-text buffer, named as the hook names it (canonicalised). *)
Inductive slot :=
| SMaster | SCPriv | SCScript | SHashed
| SAcct (sc acct : N)                        (* acctKeyPriv:<scope>:<acct> *)
| SLast (sc acct : N) (internal : bool)      (* accountInfo.last{External,Internal}Addr.privKeyCT *)
| SAddr (sc : N) (a : akey)                  (* privKeyCT:<scope>:<addr> *)
| SScript (sc : N) (a : akey) (secret : bool) (* scriptClearText:<scope>:<addr> *)
| SCache (sc : N).                           (* privKeyCache:<scope> *)

Definition bool_eqb (a b : bool) : bool := if a then b else negb b.

Definition slot_eqb (a b : slot) : bool :=
  match a, b with
  | SMaster, SMaster | SCPriv, SCPriv | SCScript, SCScript | SHashed, SHashed => true
  | SAcct s1 a1, SAcct s2 a2 => (s1 =? s2) && (a1 =? a2)
  | SLast s1 a1 i1, SLast s2 a2 i2 => (s1 =? s2) && (a1 =? a2) && bool_eqb i1 i2
  | SAddr s1 a1, SAddr s2 a2 => (s1 =? s2) && akey_eqb a1 a2
  | SScript s1 a1 x1, SScript s2 a2 x2 => (s1 =? s2) && akey_eqb a1 a2 && bool_eqb x1 x2
  | SCache s1, SCache s2 => s1 =? s2
  | _, _ => false
  end.

(* [sn_relaxed]: an Unlock failed half-way (ErrCrypto: a cached account without
   encrypted private key) earlier in this manager's life.  Go's map iteration
   order then decided which scoped managers had their deriveOnUnlock queue
   processed before the failure (the model processes none).  The only buffers
   that can show the difference are the [SLast] ones; they are not compared
   until the next restart. *)
(* [sn_gone]: per class, how many buffers in objects the manager has dropped
   still hold clear text (observed through the retained references; reported in
   locked / watching-only snapshots).  [sn_other]: such buffers of a class the
   model does not know. *)
Record snap := { sn_locked : bool; sn_watch : bool; sn_relaxed : bool; sn_slots : list (slot * bool);
                 sn_gone : list (gclass * nat); sn_other : nat }.

Definition model_slots (nsc : nat) (m : mem) : list (slot * bool) :=
  [ (SMaster, k_master (mk m)); (SCPriv, k_cpriv (mk m)); (SCScript, k_cscript (mk m));
    (SHashed, match k_hashed (mk m) with Some _ => true | None => false end) ]
  ++ flat_map (fun kv => let '((sc, acct), ai) := kv in
                 [ (SAcct sc acct, ai_priv ai);
                   (SLast sc acct false, last_live (m_addrs m) sc (ai_last_ext ai));
                   (SLast sc acct true, last_live (m_addrs m) sc (ai_last_int ai)) ]) (m_accts m)
  ++ map (fun kv => let '((sc, a), o) := kv in
            match o with
            | OKey _ _ ct => (SAddr sc a, ct)
            | OScript _ sec ct => (SScript sc a sec, ct)
            end) (m_addrs m)
  ++ map (fun sc => (SCache sc, existsb (fun p => let '(s1, _, _, _) := p in s1 =? sc) (m_cache m)))
         (map N.of_nat (seq 0 nsc)).

Definition all_classes : list gclass := [GKey; GAcct; GScript; GCache].

Definition model_snap (nsc : nat) (s : state) : snap :=
  {| sn_locked := locked s; sn_watch := watch s; sn_relaxed := false; sn_slots := model_slots nsc (sm s);
     sn_gone := map (fun c => (c, gone_live_count c s)) all_classes; sn_other := 0 |}.

Definition entry_eqb (a b : slot * bool) : bool := slot_eqb (fst a) (fst b) && bool_eqb (snd a) (snd b).
Definition incl_b (l1 l2 : list (slot * bool)) : bool :=
  forallb (fun e => existsb (entry_eqb e) l2) l1.

(* With the preload of Unlock the same holds for WHICH accounts got loaded into
   the cache before the failure (the model preloads all of them): the [SAcct]
   slots are not compared either. *)
Definition is_last (e : slot * bool) : bool :=
  match fst e with SLast _ _ _ | SAcct _ _ => true | _ => false end.

Definition slot_secret (sl : slot) : bool := match sl with SScript _ _ sec => sec | _ => true end.

(* every secret buffer observed live is live in the model *)
Definition live_explained (obs model : list (slot * bool)) : bool :=
  forallb (fun e => negb (snd e) || negb (slot_secret (fst e)) || existsb (entry_eqb e) model) obs.

Definition gclass_eqb (a b : gclass) : bool :=
  match a, b with GKey, GKey | GAcct, GAcct | GScript, GScript | GCache, GCache => true | _, _ => false end.

(* every dropped buffer observed live is accounted for by the model's record,
   class by class (the model may be pessimistic about what had been decrypted
   by the time the object was dropped; it may not miss a survivor) *)
Definition gone_explained (obs model : list (gclass * nat)) : bool :=
  forallb (fun e => match find (fun m => gclass_eqb (fst m) (fst e)) model with
                    | Some m => (snd e <=? snd m)%nat
                    | None => (snd e =? 0)%nat
                    end) obs.

(* [a]: observed, [b]: model *)
Definition snap_eqb (a b : snap) : bool :=
  let f l := if sn_relaxed a then filter (fun e => negb (is_last e)) l else l in
  bool_eqb (sn_locked a) (sn_locked b) && bool_eqb (sn_watch a) (sn_watch b)
  && (if sn_locked a || sn_watch a
      then live_explained (f (sn_slots a)) (f (sn_slots b))
           && gone_explained (sn_gone a) (sn_gone b) && (sn_other a =? 0)%nat
      else true).

Definition rc_eqb (a b : rc) : bool :=
  match a, b with
  | ROk, ROk | RLocked, RLocked | RWatchOnly, RWatchOnly | RWrongPass, RWrongPass
  | RNotCached, RNotCached | RDup, RDup | RNotFound, RNotFound | RCrypto, RCrypto
  | ROther, ROther | RPanic, RPanic => true
  | _, _ => false
  end.

Definition lockerr_b (r : rc) : bool := match r with RLocked | RWatchOnly => true | _ => false end.

(* In a state that is locked or watching-only the property asks for "a locked
   or watching-only error": which of the two is returned (a matter of which
   guard the code tests first) is not compared. *)
Definition rc_ok (s : state) (obs model : rc) : bool :=
  rc_eqb obs model || ((locked s || watch s) && lockerr_b obs && lockerr_b model).

(* One step of an observed trace. *)
Inductive tstep :=
| TOp (o : op) (r : rc)        (* operation or probe with the observed result class *)
| TSnap (sn : snap).           (* observed flags and buffer liveness at this point *)

Record tcase := { tc_nsc : nat; tc_pub : N; tc_priv : N; tc_steps : list tstep }.

(* first step (index, 1 = result class / 2 = snapshot) at which the model and
   the implementation differ *)
Fixpoint first_diff (F : facts) (nsc : nat) (s : state) (i : nat) (l : list tstep) : option (nat * nat) :=
  match l with
  | [] => None
  | TOp o r :: l' =>
    let '(s1, r1) := step F s o in
    if rc_ok s r r1 then first_diff F nsc s1 (S i) l' else Some (i, 1%nat)
  | TSnap sn :: l' =>
    if snap_eqb sn (model_snap nsc s) then first_diff F nsc s (S i) l' else Some (i, 2%nat)
  end.

Definition case_diff_with (F : facts) (c : tcase) : option (nat * nat) :=
  first_diff F (tc_nsc c) (init (tc_nsc c) (tc_pub c) (tc_priv c)) 0 (tc_steps c).

Definition case_diff (c : tcase) : option (nat * nat) := case_diff_with the_facts c.

Definition case_ok (c : tcase) : bool :=
  match case_diff c with None => true | Some _ => false end.

Fixpoint failures_from (F : facts) (i : nat) (l : list tcase) : list (nat * nat * nat) :=
  match l with
  | [] => []
  | c :: l' =>
    match case_diff_with F c with
    | None => failures_from F (S i) l'
    | Some (st, what) => (i, st, what) :: failures_from F (S i) l'
    end
  end.

(* (case index, step index, 1|2) of every case where model and implementation differ.
   [failures_with]: the facts are given explicitly (the driver extracts them from the
   tree the harness was built from; a run against a scratch copy of the repository
   must not depend on which tree Generated/LockFacts.v was last regenerated from). *)
Definition failures_with (F : facts) (l : list tcase) : list (nat * nat * nat) := failures_from F 0 l.
Definition failures (l : list tcase) : list (nat * nat * nat) := failures_with the_facts l.
Definition mismatches (l : list tcase) : list nat := map (fun t => fst (fst t)) (failures l).

(* what the model says at the point of divergence (diagnostics in replay files) *)
Fixpoint model_at (F : facts) (nsc : nat) (s : state) (l : list tstep) (n : nat) : option (rc * snap) :=
  match l, n with
  | TOp o r :: _, O => Some (snd (step F s o), model_snap nsc s)
  | TSnap _ :: _, O => Some (ROk, model_snap nsc s)
  | TOp o _ :: l', S n' => model_at F nsc (fst (step F s o)) l' n'
  | TSnap _ :: l', S n' => model_at F nsc s l' n'
  | [], _ => None
  end.
